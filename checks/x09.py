"""X09 (extra) cross-process lock and process utilities (cross_process_lock.h, process.h). CrossProcessLock.tla states the
header's contract (system-wide try-lock per nonce: granted iff nobody - in any process - holds the nonce; freed by release
or by the death of the owner; a refused call keeps neither a descriptor nor memory), Process.tla what process.h documents
(pid, soft <= hard, set_soft up to the hard limit, run_command = exit code + captured standard output). TLC explores every
interleaving of 3 processes x 2 nonces, generates operation scripts, and validates every event of the scripts replayed with
REAL processes: a coordinator forks 2-3 worker processes, each call is made by the named worker, workers are SIGKILLed
while they hold locks and replaced by fresh processes."""
import os
import random
import re
import shutil

from vlib import build, pipeline, tlc
from vlib.common import OUT_ROOT, SPEC

LEVEL = "model_checking"
SPEC_DIR = "CrossProcessLock"
NP = 3
NSLOT = 4
NNONCE = 8

# pending / known findings -> deviation action of CrossProcessLockTrace.tla (DESIGN 3.3). Records come from
# known_findings.txt (ctx.known) and from spec/CrossProcessLock/pending_findings.txt (same format; findings of this extra
# that the lead has not judged yet). VERIF_X09_STRICT=1 enables none: the strict specification, as for a repaired library.
DEV_OF_ID = {"X09-A": "SlashStaleError", "X09-B": "RawWaitStatus"}
DEVS = ("SlashStaleError", "RawWaitStatus")

# output sizes around the 2048-byte read buffer of aws_run_command (fgets reads 2047 bytes at a time) and its multiples
SIZES = [0, 0, 1, 1, 2, 3, 7, 64, 100, 1000, 2045, 2046, 2047, 2048, 2049, 2050, 4093, 4094, 4095, 4096, 4097, 6141, 6142, 6143,
         8191, 8192, 10000, 20000, 50000]
EXITS = [0, 0, 0, 0, 1, 1, 2, 3, 7, 42, 100, 126, 127, 128, 200, 254, 255]
STALE = ["AWS_ERROR_STRING_MATCH_NOT_FOUND", "AWS_ERROR_STRING_MATCH_NOT_FOUND", "AWS_ERROR_INVALID_ARGUMENT",
         "AWS_ERROR_MUTEX_CALLER_NOT_OWNER", "AWS_ERROR_NO_PERMISSION", "AWS_ERROR_FILE_INVALID_PATH", "AWS_ERROR_OOM",
         "AWS_ERROR_SUCCESS", "AWS_ERROR_MAX_FDS_EXCEEDED", "1", "34", "5000"]


def prepare(ctx):
    return build.build_harness("crossproc_adapter", ["crossproc_adapter.c"], cflags=["-Wno-unused-function"])


def private_outdir(ctx):
    """Two copies of this check may run at the same time, also with the same VERIF_OUT_TAG: everything a run writes
    goes to a directory of its own next to out/X09 (which a second copy would wipe when it starts)."""
    if ctx.replay:
        return
    base = os.path.basename(ctx.outdir)
    for e in os.listdir(OUT_ROOT):                      # directories of runs that are gone (and found nothing)
        m = re.match(re.escape(base) + r"\.p(\d+)$", e)
        if m and not os.path.exists("/proc/%s" % m.group(1)):
            shutil.rmtree(os.path.join(OUT_ROOT, e), ignore_errors=True)
    ctx.x09_std_outdir = ctx.outdir
    ctx.outdir = os.path.join(OUT_ROOT, "%s.p%d" % (base, os.getpid()))
    shutil.rmtree(ctx.outdir, ignore_errors=True)
    os.makedirs(ctx.outdir)


def publish_outdir(ctx):
    """at the end the run leaves its logs and replay directories where every check leaves them (out/X09[@tag], replay
    directories under violations/ with a name of their own) and removes its private directory"""
    if ctx.replay or os.environ.get("VERIF_X09_KEEP"):
        return
    std = ctx.x09_std_outdir
    try:
        os.makedirs(os.path.join(std, "violations"), exist_ok=True)
        moved = []
        for i, (what, path) in enumerate(ctx.violations):
            dst = os.path.join(std, "violations", "%s_p%d_%d" % (os.path.basename(path).rsplit("_", 1)[0], os.getpid(), i))
            if os.path.isdir(path) and path.startswith(ctx.outdir):
                shutil.move(path, dst)
                path = dst
            moved.append((what, path))
        ctx.violations[:] = moved
        for e in os.listdir(ctx.outdir):
            if e == "violations":
                continue
            dst = os.path.join(std, e)
            if os.path.isdir(dst):
                shutil.rmtree(dst, ignore_errors=True)
            elif os.path.exists(dst):
                os.remove(dst)
            shutil.move(os.path.join(ctx.outdir, e), dst)
    except OSError:
        pass                                                  # another copy is tidying the same place: logs only
    shutil.rmtree(ctx.outdir, ignore_errors=True)


def known_devs(ctx):
    if os.environ.get("VERIF_X09_STRICT"):
        return {}
    recs = list(ctx.known)
    pend = os.path.join(SPEC, SPEC_DIR, "pending_findings.txt")
    if os.path.exists(pend):
        for line in open(pend):
            m = re.match(r"known: property=(\S+) id=(\S+) (.*)$", line.strip())
            if m and m.group(1) == ctx.pid:
                recs.append({"status": "known", "property": m.group(1), "id": m.group(2), "what": m.group(3), "commit": ""})
    devs = {}
    for r in recs:
        if r.get("status") != "known" or r.get("property") != ctx.pid:
            continue
        for d in DEVS:
            if DEV_OF_ID.get(r.get("id")) == d or ("dev=" + d) in r.get("what", ""):
                devs.setdefault(d, r)
    return devs


# ---------------------------------------------------------------------------------------------------------------- driver
class Drv:
    """Script builder. Its own prediction of the state (behaviour of the unchanged library) is used only to choose
    arguments and to respect the usage rules (a result goes into an empty handle slot, a worker exists); the
    specification, not the driver, judges the results."""

    def __init__(self, rng, np_):
        self.rng = rng
        self.np = np_
        self.lines = ["RESET %d" % np_]
        self.alive = {p: p <= np_ for p in range(1, NP + 1)}
        self.slots = {p: {} for p in range(1, NP + 1)}       # p -> {h: nonce}
        self.holder = {}                                      # nonce -> p
        self.nn = rng.choice([2, 2, 3, 4, NNONCE])
        self.procs_on = {}                                    # nonce -> set of workers that tried it
        self.refusable = False
        self.freed = False

    def live(self):
        return [p for p in range(1, NP + 1) if self.alive[p]]

    def free_slot(self, p):
        fs = [h for h in range(1, NSLOT + 1) if h not in self.slots[p]]
        return self.rng.choice(fs) if fs else None

    def acq(self, p=None, n=None):
        r = self.rng
        lp = self.live()
        if not lp:
            return self.spawn()
        p = p or r.choice(lp)
        h = self.free_slot(p)
        if h is None:
            return self.rel(p)
        if n is None:
            held = list(self.holder)
            n = r.choice(held) if held and r.random() < 0.55 else r.randint(1, self.nn)
        self.lines.append("ACQ %d %d %d" % (p, n, h))
        self.procs_on.setdefault(n, set()).add(p)
        if n in self.holder:
            self.refusable = True
        else:
            self.holder[n] = p
            self.slots[p][h] = n

    def bad(self, p=None):
        lp = self.live()
        if not lp:
            return self.spawn()
        p = p or self.rng.choice(lp)
        h = self.free_slot(p)
        if h is None:
            return self.rel(p)
        self.lines.append("BAD %d %d %d" % (p, self.rng.randint(1, 3), h))

    def rel(self, p=None):
        r = self.rng
        lp = self.live()
        if not lp:
            return self.spawn()
        p = p or r.choice(lp)
        x = r.random()
        if self.slots[p] and x < 0.8:
            h = r.choice(sorted(self.slots[p]))
            n = self.slots[p].pop(h)
            self.holder.pop(n, None)
            self.freed = True
        elif x < 0.9:
            h = 0                                             # release(NULL)
        else:
            empty = [h for h in range(1, NSLOT + 1) if h not in self.slots[p]]
            h = r.choice(empty) if empty else 0               # an empty slot: NULL again
        self.lines.append("REL %d %d" % (p, h))

    def kill(self, p=None):
        lp = self.live()
        if len(lp) == 0:
            return self.spawn()
        holders = [q for q in lp if self.slots[q]]
        p = p or (self.rng.choice(holders) if holders and self.rng.random() < 0.8 else self.rng.choice(lp))
        self.lines.append("%s %d" % (self.rng.choice(["KILL", "KILL", "QUIT"]), p))     # SIGKILL, or the worker calls exit()
        self.alive[p] = False
        for n in self.slots[p].values():
            self.holder.pop(n, None)
            self.freed = True
        self.slots[p] = {}

    def spawn(self):
        dead = [p for p in range(1, NP + 1) if not self.alive[p]]
        if not dead:
            return self.kill()
        p = self.rng.choice(dead)
        self.lines.append("SPAWN %d" % p)
        self.alive[p] = True

    def stale(self, p=None):
        lp = self.live()
        if lp:
            self.lines.append("STALE %d %s" % (p or self.rng.choice(lp), self.rng.choice(STALE)))

    def pid(self):
        lp = self.live()
        if lp:
            self.lines.append("PID %d" % self.rng.choice(lp))

    def lim(self, p=None):
        lp = self.live()
        if lp:
            self.lines.append("LIM %d" % (p or self.rng.choice(lp)))

    def setsoft(self):
        r = self.rng
        lp = self.live()
        if not lp:
            return
        p = r.choice(lp)
        x = r.random()
        if x < 0.3:
            v = r.choice(["H", "H", "H-1", "H-2", "H-100"])
        elif x < 0.55:
            v = r.choice(["H+1", "H+1", "H+2", "H+1000", "H+1000000", str(2 ** 31), str(2 ** 32), str(2 ** 63), str(2 ** 64 - 1)])
        elif x < 0.85:
            v = str(r.choice([64, 65, 100, 255, 256, 1000, 1024, 4096, r.randint(64, 5000)]))
        else:
            # a limit below what the worker has open: allowed, but nothing that needs a descriptor can follow in that
            # process until the limit is up again (what the library does without descriptors is not documented)
            self.lines.append("SETSOFT %d %d" % (p, r.choice([1, 2, 3, 4, 8, 16])))
            if r.random() < 0.7:
                self.lim(p)
            v = r.choice(["H", "H-1", "256", "64"])
        self.lines.append("SETSOFT %d %s" % (p, v))
        if r.random() < 0.5:
            self.lim(p)

    def run(self, big=True):
        r = self.rng
        lp = self.live()
        if not lp:
            return
        p = r.choice(lp)
        kind = r.choice([0, 0, 0, 0, 1, 2])
        ex = r.choice(EXITS)
        if kind == 2:
            self.lines.append("RUN %d 2 0 0 0 0 0 %d" % (p, ex))
            return
        lead = r.choice([0, 0, 0, 1, 2, 5, 17])
        trail = r.choice([0, 0, 1, 1, 2, 3, 9, 40])
        size = r.choice(SIZES if big else SIZES[:10])
        if kind == 1:
            size = min(size, 5000)
        # aim the boundary either at the core or at the whole text
        clen = max(0, size - lead - trail) if r.random() < 0.4 else size     # clen = 0: white space only, or nothing
        self.lines.append("RUN %d %d %d %d %d %d %d %d" % (p, kind, lead, clen, r.randrange(1, 10 ** 6), r.randint(0, 1), trail, ex))


def lock_exec(rng):
    """contention: several processes after the same few nonces, owners released / killed while others keep trying, fresh
    processes, the same process asking twice, nonces with '/', stale error codes in between"""
    d = Drv(rng, rng.choice([2, 3, 3]))
    ops = [(d.acq, 42), (d.rel, 16), (d.kill, 7), (d.spawn, 7), (d.bad, 8), (d.stale, 8), (d.pid, 2), (d.lim, 2), (d.run, 1)]
    fns = [f for f, w in ops for _ in range(w)]
    for _ in range(rng.randint(12, 60)):
        rng.choice(fns)()
    return d.lines


def handover_exec(rng):
    """one nonce handed around: owner releases or dies, every other process tries before and after"""
    d = Drv(rng, 3)
    n = rng.randint(1, d.nn)
    for _ in range(rng.randint(3, 8)):
        lp = d.live()
        if not lp:
            d.spawn()
            continue
        owner = d.holder.get(n)
        if owner is None:
            d.acq(rng.choice(lp), n)
            owner = d.holder.get(n)
        for q in rng.sample(lp, len(lp)):
            if rng.random() < 0.8:
                d.acq(q, n)                                   # refused, also for the owner itself
        if owner is None:
            continue
        if rng.random() < 0.5:
            h = [k for k, v in d.slots[owner].items() if v == n][0]
            d.lines.append("REL %d %d" % (owner, h))
            d.slots[owner].pop(h)
            d.holder.pop(n)
            d.freed = True
        else:
            d.kill(owner)
            if rng.random() < 0.7:
                d.spawn()
        if rng.random() < 0.3:
            d.bad()
    return d.lines


def proc_exec(rng):
    """process utilities: commands with outputs around the read buffer, exit codes, limits up and down, pid; a few locks
    held meanwhile (their descriptors and memory must stay what they are)"""
    d = Drv(rng, rng.choice([1, 2, 3]))
    if rng.random() < 0.5:
        d.acq()
    ops = [(d.run, 30), (d.setsoft, 16), (d.lim, 10), (d.pid, 8), (d.acq, 6), (d.rel, 4), (d.kill, 2), (d.spawn, 3), (d.stale, 4)]
    fns = [f for f, w in ops for _ in range(w)]
    nrun = 0
    for _ in range(rng.randint(8, 40)):
        f = rng.choice(fns)
        if f == d.run:
            nrun += 1
            if nrun > 8:
                continue
        f()
    return d.lines


def from_tlc(s, rng):
    lines = ["RESET 3"]
    for o in s["ops"]:
        op, p, a, b = o["op"], o["p"], o["a"], o["b"]
        if op == "ACQ":
            lines.append("ACQ %d %d %d" % (p, a, b))
        elif op == "BAD":
            lines.append("BAD %d %d %d" % (p, a, NSLOT))       # the model uses slots 1 and 2 only
        elif op == "REL":
            lines.append("REL %d %d" % (p, a))
        elif op == "KILL":
            lines.append("%s %d" % (rng.choice(["KILL", "QUIT"]), p))
        elif op in ("SPAWN", "PID"):
            lines.append("%s %d" % (op, p))
        elif op == "LIM":
            lines.append("LIM %d" % p)
        elif op == "SETSOFT":
            lines.append("SETSOFT %d %s" % (p, {1: "64", 2: "H-1", 3: "H"}.get(a, "H+1")))
        elif op == "RUN":
            lead, clen, trail = a // 100, (a // 10) % 10, a % 10
            size = 0 if clen == 0 else rng.choice(SIZES[2:])
            lines.append("RUN %d 0 %d %d %d %d %d %d" % (p, lead, size, rng.randrange(1, 10 ** 6), rng.randint(0, 1), trail, b))
    return lines


def regress_execs(strict):
    d = os.path.join(SPEC, SPEC_DIR, "regress")
    files = sorted(f for f in os.listdir(d) if f.endswith(".script")) if os.path.isdir(d) else []
    out = [[ln for ln in open(os.path.join(d, f)).read().splitlines() if ln.strip() and not ln.startswith("#")] for f in files]
    so = os.path.join(d, "strict_only")
    if strict and os.path.isdir(so):
        for f in sorted(os.listdir(so)):
            if f.endswith(".script"):
                out.append([ln for ln in open(os.path.join(so, f)).read().splitlines() if ln.strip() and not ln.startswith("#")])
    return out


def nontrivial(ex):
    """two different workers ask for the same nonce and something is given back (release / kill), or a command runs"""
    by = {}
    back = False
    for ln in ex:
        t = ln.split()
        if t[0] == "ACQ":
            by.setdefault(t[2], set()).add(t[1])
        elif t[0] in ("REL", "KILL", "QUIT"):
            back = True
        elif t[0] in ("RUN", "SETSOFT"):
            return True
    return back and any(len(v) > 1 for v in by.values())


ACTIONS = ["MCTryAcquire", "MCBadNonce", "MCRelease", "MCExit", "MCSpawn", "MCGetPid", "MCGetLimits", "MCSetSoft", "MCRun"]
DEV_TEXT = {
    "SlashStaleError": "aws_cross_process_lock_try_acquire: the test for '/' in the nonce reads aws_last_error() after a "
                       "successful search; with a stale AWS_ERROR_STRING_MATCH_NOT_FOUND on the thread (left behind by every "
                       "successful try_acquire) a nonce with '/' is not refused",
    "RawWaitStatus": "aws_run_command: ret_code is the raw wait status of pclose() ('exit 3' reports 768), not the return code "
                     "of the command",
}


def run(ctx):
    thorough = ctx.tier == "thorough"
    strict = bool(os.environ.get("VERIF_X09_STRICT"))
    private_outdir(ctx)
    exe = prepare(ctx)
    ctx.rule = ("execution = 1-3 fresh worker processes + a sequence of <= ~60 steps, each one real call made by one named "
                "process (try_acquire of a nonce into a handle slot, try_acquire with a '/' nonce, release, release(NULL), a "
                "stale error code, pid, limits, set_soft, run_command) or the end (SIGKILL / exit()) / replacement of a worker; distinct = "
                "distinct script text; non-trivial = two processes ask for the same nonce and a lock is given back by release "
                "or by the death of its owner, or a command / limit change is performed")
    ctx.assumptions += [
        "the contract is what cross_process_lock.h and process.h document. '/' in a nonce is refused with "
        "AWS_ERROR_INVALID_ARGUMENT (the function's own stated validation); nonces are unique per coordinator process and "
        "execution, non-empty, short, without '/' unless the step is a BadNonce step",
        "steps are performed one at a time (the coordinator waits for the answer of the worker), so the trace order is the "
        "real order; a worker that does not answer within 20 s or dies ends the execution with a Died event",
        "POSIX platform; the lock directory /tmp/aws_crt_cross_process_lock is usable; no descriptor exhaustion: a soft limit "
        "below the number of open descriptors is only ever followed by set_soft / get calls or the end of that process",
        "a held lock keeps exactly one descriptor open and owns a positive number of allocator blocks (the number is the "
        "library's choice, release gives back exactly what the acquisition took); descriptors are counted with fcntl on "
        "0..1023, memory with the tracking allocator of the worker process",
        "commands are deterministic /bin/sh built-ins (printf / echo / true / false / exit N) without NUL bytes in their "
        "output; what such a command prints and its exit code are taken from its text (POSIX shell semantics); outputs are "
        "compared as lead white space / core (length + two 15-bit polynomial digests) / trail white space",
        "left open (header silent): error code of a refused set_soft, set_soft(0), white space at the two ends of the captured "
        "output and NULL vs empty string for an empty capture, commands ended by a signal, behaviour without descriptors",
        "no child process of a worker outlives the step (the lock descriptor is inherited by children: not close-on-exec)",
    ]
    if os.environ.get("VERIF_SKIP_MC"):
        ctx.extra["model_checking_skipped"] = True
    else:
        ctx.mc(SPEC_DIR, "CrossProcessLockMC", "MC_thorough.cfg" if thorough else "MC.cfg", timeout=2400, xmx="4g",
               workers=4 if not thorough else 8, required_actions=["CrossProcessLockMC!" + a for a in ACTIONS])
    scripts, _ = tlc.gen_scripts(SPEC_DIR, "CrossProcessLockMC", "Gen.cfg", ctx.outdir, num=160 if not thorough else 3000,
                                 depth=40, seed=ctx.seed, workers=4)
    rng = random.Random(ctx.seed)
    cap = 200 if not thorough else 3000
    if len(scripts) > cap:
        scripts = rng.sample(scripts, cap)
    execs = regress_execs(strict)
    nreg = len(execs)
    ctx.extra["regression_scripts"] = nreg
    execs += [from_tlc(s, rng) for s in scripts]
    ctx.extra["tlc_generated_scripts"] = len(scripts)
    k = 1 if not thorough else 20
    fam = {"lock": 320 * k, "handover": 120 * k, "proc": 160 * k}
    for _ in range(fam["lock"]):
        execs.append(lock_exec(rng))
    for _ in range(fam["handover"]):
        execs.append(handover_exec(rng))
    for _ in range(fam["proc"]):
        execs.append(proc_exec(rng))
    ctx.extra["driver_scripts"] = fam
    for ex in execs:
        ctx.evaluations += 1
        if nontrivial(ex):
            ctx.distinct.add(hash("\n".join(ex)))
    ctx.add_sample({"script": execs[nreg][:14]})
    ctx.add_sample({"script": execs[nreg + len(scripts)][:14]})
    ctx.add_sample({"script": execs[-1][:14]})
    devs = known_devs(ctx)
    ctx.extra["deviations_enabled"] = sorted(devs)
    fired = {}

    def on_fired(info):
        for ln in info.printed:
            m = re.match(r'<<"FIRED", "(\w+)", "(\w+)">>', ln)
            if m:
                fired[m.group(1)] = fired.get(m.group(1), 0) + 1

    try:
        # no "ERR" lines: vh_core would raise them in the coordinator; stale codes are STALE steps made in a worker
        pipeline.drive_and_validate(ctx, exe, execs, SPEC_DIR, "CrossProcessLockTrace", "Trace.cfg", label="xproc",
                                    stale_errors=0, tlc_env={"VERIF_DEV_" + d: "1" for d in devs}, on_fired=on_fired,
                                    harness_timeout=400, tlc_timeout=1500,
                                    nbatch=max(16, len(execs) // 60))     # short batches: the harness watchdog is 120 s
    finally:
        for nm in sorted(fired):
            rec = devs.get(nm, {})
            ctx.known_finding(rec.get("id", nm), "id=%s %s" % (rec.get("id", nm), rec.get("what", DEV_TEXT[nm])))
            ctx.extra.setdefault("known_finding_events", {})[nm] = {"count": fired[nm]}
    kinds = {}
    for f in sorted(os.listdir(os.path.join(ctx.outdir, "xproc"))):
        if f.endswith(".clean.ndjson"):
            for e in pipeline.read_trace(os.path.join(ctx.outdir, "xproc", f)):
                k = e["e"]
                if k in ("TryAcquire", "BadNonce"):
                    k += ":granted" if e.get("got") else ":" + e.get("err", "")[10:]
                elif k == "SetSoft":
                    k += ":ok" if e.get("rc") == 0 else ":refused"
                kinds[k] = kinds.get(k, 0) + 1
    ctx.extra["events_by_kind"] = kinds
    publish_outdir(ctx)
