"""C01 byte buffers and cursors: ByteBuf.tla (buffers = byte sequences under a capacity, cursors = views) model-checked
with the property's clauses as invariants / action properties; TLC-generated and seeded random scripts (exact-fit,
one-short, zero-length, NULL views, sizes at and next to SIZE_MAX/2 and SIZE_MAX, self-aliasing appends) replayed on the
real aws_byte_buf / aws_byte_cursor API; every event and the full observable state after every call validated by
ByteBufTrace.tla."""
import os
import random

from vlib import build, pipeline, tlc

LEVEL = "model_checking"
SPEC_DIR = "ByteBuf"
NB, NC = 3, 4
HALF, MAXS = 1000000, 2000001      # the model's SIZE_MAX>>1 and SIZE_MAX (adapter maps real sizes onto them)
PREDS = ["space", "digit", "alpha", "alnum", "xdigit"]


def prepare(ctx):
    return build.build_harness("bytebuf_adapter", ["bytebuf_adapter.c"], cflags=["-Wno-unused-function"])


def tok(n):
    """model size -> script token"""
    if n < 65536:
        return str(n)
    if abs(n - HALF) <= 65536:
        d = n - HALF
        return "HALF" if d == 0 else ("HALF+%d" % d if d > 0 else "HALF-%d" % -d)
    d = MAXS - n
    return "MAX" if d == 0 else "MAX-%d" % d


def untok(t):
    if t.startswith("MAX"):
        return MAXS - (int(t[4:]) if len(t) > 3 else 0)
    if t.startswith("HALF"):
        if len(t) == 4:
            return HALF
        return HALF + int(t[5:]) if t[4] == "+" else HALF - int(t[5:])
    return int(t)


class Env:
    """What the driver knows while writing a script.
    Sound part (used to respect API preconditions whatever growth policy the library follows): which structs are
    initialised, a lower bound on each buffer's len, for each cursor whether it may be stale, whether it is a huge
    (never dereferenced) cursor, and which buffers it may point into.
    Predicted part (only steers argument choice towards exact-fit / one-short): capacity, len, cursor length as the
    implementation is expected to produce them."""

    def __init__(self, nsrc):
        self.nsrc = nsrc
        self.alive = [False] * (NB + 1)
        self.lenlo = [0] * (NB + 1)
        self.pcap = [0] * (NB + 1)
        self.plen = [0] * (NB + 1)
        self.usable = [True] * (NC + 1)
        self.big = [0] * (NC + 1)            # 0 or the huge length
        self.bases = [set() for _ in range(NC + 1)]
        self.clo = [0] * (NC + 1)
        self.clen = [0] * (NC + 1)           # predicted length

    # ---- helpers
    def rd(self, c):                         # cursor may be dereferenced
        return self.usable[c] and not self.big[c]

    def inval(self, b):
        for c in range(1, NC + 1):
            if b in self.bases[c]:
                self.usable[c] = False

    def setcur(self, d, bases, clo, clen, big=0):
        if d:
            self.usable[d], self.big[d], self.bases[d], self.clo[d], self.clen[d] = True, big, set(bases), clo, clen

    def room(self, b):
        return self.pcap[b] - self.plen[b]

    # ---- may this line be executed without violating an API precondition?
    def admit(self, p):
        op, a = p[0], p[1:]
        i = lambda k: int(a[k])
        # a cursor of length exactly SIZE_MAX>>1 (F8 regression) may be served or refused by advance/read: only calls that
        # touch at most its single valid byte whichever way they decide
        halfs = [c for c in range(1, NC + 1) if self.big[c] == HALF and self.usable[c]]
        if halfs and op not in ("CURNULL", "CURSRC", "CURBUF", "CURBIG", "INIT", "CLEAN", "WU8", "APPENDBYTE"):
            cargs = {"CADV": [0], "READ": [0], "READU": [0], "APPEND": [1], "WCUR": [1], "APPENDUPD": [1], "CURCOPY": [1]}
            used = [int(x) for x in a if x.isdigit() and 1 <= int(x) <= NC]
            if op not in cargs:
                if any(c in halfs for c in used):
                    return False
            else:
                c = int(a[cargs[op][0]])
                if c in halfs:
                    if op in ("CADV", "READ") and not (untok(a[1]) <= 1 or untok(a[1]) > HALF):
                        return False
                    if op == "READU" and i(1) != 1:
                        return False
        if op == "INIT":
            return not self.alive[i(0)] and untok(a[1]) <= 4096
        if op == "INITCOPY":
            return i(0) != i(1) and not self.alive[i(0)]
        if op == "INITCUR":
            return not self.alive[i(0)] and self.rd(i(1))
        if op == "INITCACHE":
            cs = [int(x) for x in a[2:2 + i(1)]]
            if self.alive[i(0)] or len(set(cs)) != len(cs) or not all(self.usable[c] for c in cs):
                return False
            nbig = sum(1 for c in cs if self.big[c])
            return nbig == 0 or nbig >= 2
        if op in ("APPEND", "APPENDUPD", "WCUR"):
            return self.usable[i(1)]
        if op == "APPENDLK":
            return self.usable[i(1)] and i(0) not in self.bases[i(1)]
        if op == "APPENDDYN":
            b, c = i(0), i(1)
            if not self.alive[b] or not self.usable[c]:
                return False
            return (not self.big[c]) or self.lenlo[b] + self.big[c] > MAXS
        if op in ("APPENDBYTE", "APPENDNUL"):
            return self.alive[i(0)]
        if op == "RESERVE":
            kind, b, n = i(0), i(1), untok(a[2])
            if not self.alive[b]:
                return False
            return n <= 4096 or (kind in (1, 3) and self.lenlo[b] + n > MAXS)
        if op == "WRITE":
            return i(1) + i(2) <= self.nsrc
        if op == "WRITEBIG":
            return untok(a[1]) >= HALF - 1
        if op in ("WU8", "WBE", "WBUF", "CAT", "BADV", "BRESET", "BZERO", "CLEAN", "CURNULL", "CURBUF", "BEQ"):
            return True
        if op == "WU8N":
            n = untok(a[2])
            return n <= 4096 or n >= HALF - 1
        if op == "WCAP":
            return self.usable[i(1)] and i(1) != i(2)
        if op == "CURSRC":
            return i(1) + i(2) <= self.nsrc
        if op == "CURBIG":
            return untok(a[1]) >= HALF
        if op == "CURCOPY":
            return i(0) != i(1) and self.usable[i(1)]
        if op == "CADV":
            return self.usable[i(0)] and i(0) != i(3)
        if op in ("READ", "READU"):
            return self.usable[i(0)]
        if op == "READFILL":
            return self.usable[i(0)] and i(1) not in self.bases[i(0)]
        if op in ("READHEX", "NSPLIT", "SPLITN", "SAT", "PARSE", "CEQB"):
            return self.rd(i(0))
        if op == "TRIM":
            return self.rd(i(0)) and i(0) != i(3)
        if op in ("EQ", "CMP", "CMPLK", "STARTS"):
            return self.rd(i(0)) and self.rd(i(1))
        if op in ("EQCSTR", "BEQCSTR"):
            return i(1) + i(2) <= self.nsrc and (op == "BEQCSTR" or self.rd(i(0)))
        if op == "FIND":
            c, f, d = i(0), i(1), i(2)
            return self.rd(c) and self.rd(f) and c != f and d not in (c, f) and (d == 0 or self.rd(d))
        raise ValueError("unknown op " + op)

    # ---- effect on what the driver knows
    def apply(self, p):
        op, a = p[0], p[1:]
        i = lambda k: int(a[k])
        if op == "INIT":
            b = i(0)
            self.alive[b], self.lenlo[b], self.pcap[b], self.plen[b] = True, 0, untok(a[1]), 0
        elif op == "INITCOPY":
            d, s = i(0), i(1)
            self.alive[d], self.lenlo[d], self.pcap[d], self.plen[d] = True, self.lenlo[s], self.pcap[s], self.plen[s]
        elif op == "INITCUR":
            d, c = i(0), i(1)
            self.alive[d], self.lenlo[d], self.pcap[d], self.plen[d] = True, self.clo[c], self.clen[c], self.clen[c]
        elif op == "INITCACHE":
            d, cs = i(0), [int(x) for x in a[2:2 + i(1)]]
            if not any(self.big[c] for c in cs):
                tot = sum(self.clen[c] for c in cs)
                self.alive[d], self.lenlo[d] = True, sum(self.clo[c] for c in cs)
                self.pcap[d] = self.plen[d] = tot
                for c in cs:
                    self.bases[c] = {d}
        elif op in ("APPEND", "APPENDLK", "APPENDUPD", "WCUR"):
            b, c = i(0), i(1)
            fits = (not self.big[c]) and self.clen[c] <= self.room(b)
            if fits:
                self.plen[b] += self.clen[c]
            if op == "APPENDUPD" and not self.big[c]:
                self.bases[c] = self.bases[c] | {b}
        elif op == "CAT":
            d = i(0)
            for s in [int(x) for x in a[2:2 + i(1)]]:
                if self.plen[s] <= self.room(d):
                    self.plen[d] += self.plen[s]
                else:
                    break
        elif op in ("APPENDDYN", "APPENDBYTE", "APPENDNUL"):
            b = i(0)
            if op == "APPENDDYN":
                c = i(1)
                if self.big[c]:
                    return
                n, nlo = self.clen[c], self.clo[c]
            else:
                n, nlo = 1, 1
            self.inval(b)
            if n > self.room(b):
                self.pcap[b] = max(2 * self.pcap[b], self.plen[b] + n)
            self.plen[b] += n
            self.lenlo[b] += nlo
        elif op == "RESERVE":
            kind, b, n = i(0), i(1), untok(a[2])
            if n > 4096:
                return
            self.inval(b)
            req = n + (self.plen[b] if kind in (1, 3) else 0)
            if req > self.pcap[b]:
                self.pcap[b] = max(req, 2 * self.pcap[b]) if kind >= 2 else req
        elif op in ("WRITE", "WU8", "WU8N", "WBE", "WBUF"):
            b = i(0)
            n = {"WRITE": lambda: i(2), "WU8": lambda: 1, "WU8N": lambda: untok(a[2]), "WBE": lambda: i(1),
                 "WBUF": lambda: self.plen[i(1)]}[op]()
            if op == "WBE" and i(1) == 3 and int(a[2]) != 0:
                return
            if n <= self.room(b):
                self.plen[b] += n
        elif op == "WRITEBIG":
            pass
        elif op == "WCAP":
            b, c, d = i(0), i(1), i(2)
            if self.big[c]:
                self.setcur(d, (), 0, 0)
                return
            k = min(self.room(b), self.clen[c])
            self.plen[b] += k
            self.clen[c] -= k
            self.clo[c] = 0
            self.setcur(d, self.bases[c], 0, k)
        elif op == "BADV":
            b, n = i(0), untok(a[1])
            if n <= self.room(b):
                self.plen[b] += n
        elif op in ("BRESET", "BZERO"):
            b = i(0)
            self.inval(b)
            self.lenlo[b] = self.plen[b] = 0
        elif op == "CLEAN":
            b = i(0)
            self.inval(b)
            self.alive[b], self.lenlo[b], self.plen[b], self.pcap[b] = False, 0, 0, 0
        elif op == "CURNULL":
            self.setcur(i(0), (), 0, 0)
        elif op == "CURSRC":
            self.setcur(i(0), (), i(2), i(2))
        elif op == "CURBUF":
            self.setcur(i(0), (i(1),), self.lenlo[i(1)], self.plen[i(1)])
        elif op == "CURBIG":
            self.setcur(i(0), (), 0, 0, big=untok(a[1]))
        elif op == "CURCOPY":
            c = i(1)
            self.setcur(i(0), self.bases[c], self.clo[c], self.clen[c], big=self.big[c])
        elif op == "CADV":
            c, n, d = i(0), untok(a[1]), i(3)
            if self.big[c] or n > 4096:
                self.setcur(d, (), 0, 0)
                if self.big[c] == HALF and n <= 4096:
                    self.usable[c] = False          # may have been served: its length is no longer known to be huge
                    if d:
                        self.usable[d] = False
                return
            self.clo[c] = max(0, self.clo[c] - n)
            if n <= self.clen[c]:
                self.clen[c] -= n
                self.setcur(d, self.bases[c], 0, n)
            else:
                self.setcur(d, self.bases[c], 0, 0)
        elif op in ("READ", "READU"):
            c, n = i(0), untok(a[1])
            if self.big[c] or n > 4096:
                if self.big[c] == HALF and n <= 4096:
                    self.usable[c] = False
                return
            self.clo[c] = max(0, self.clo[c] - n)
            if n <= self.clen[c]:
                self.clen[c] -= n
        elif op == "READHEX":
            c = i(0)
            self.clo[c] = max(0, self.clo[c] - 2)
        elif op == "READFILL":
            c, b = i(0), i(1)
            if self.big[c]:
                return
            n = self.pcap[b]
            self.clo[c] = 0
            if n <= self.clen[c]:
                self.clen[c] -= n
                self.plen[b] = n
        elif op == "TRIM":
            c, d = i(0), i(3)
            self.setcur(d, self.bases[c], 0, self.clen[c])
        elif op == "FIND":
            c, d = i(0), i(2)
            if d:
                self.bases[d] = self.bases[d] | self.bases[c]
                self.clo[d] = 0


def sanitize(lines, nsrc):
    """Drops every line whose preconditions the sound part of Env cannot guarantee."""
    env, out = Env(nsrc), []
    for ln in lines:
        p = ln.split()
        try:
            ok = env.admit(p)
        except (IndexError, ValueError):
            ok = False
        if ok:
            env.apply(p)
            out.append(ln)
    return out


def from_tlc(s):
    src = s["src"]
    lines = []
    for o in s["ops"]:
        op, a = o["op"], o["a"]
        sz = {"INIT": [1], "RESERVE": [2], "WRITEBIG": [1], "WU8N": [2], "BADV": [1], "CURBIG": [1], "CADV": [1], "READ": [1]}
        parts = [tok(x) if (k in sz.get(op, [])) else str(x) for k, x in enumerate(a)]
        lines.append(" ".join([op] + parts))
    return ["RESET %d %s" % (len(src), " ".join(map(str, src)))] + sanitize(lines, len(src))


# ------------------------------------------------------------------------------------------------ random driver
TEXT = [32, 32, 9, 10, 59, 59, 44, 48, 49, 50, 57, 65, 70, 71, 90, 97, 102, 103, 122, 0, 255, 47, 58, 64, 91, 96, 123]
NUMS = ["18446744073709551615", "18446744073709551616", "18446744073709551614", "99999999999999999999", "0", "00004", "123",
        "FFFFFFFFFFFFFFFF", "10000000000000000", "ffffffffffffffff0", "0x0", "-1", "1,000", " 0", "Ff", "000000ff", "7fffFFFFffffFFFF",
        "184467440737095516150", "1844674407370955161", "1z", "G", ""]
CAPS = [0, 0, 1, 1, 2, 3, 4, 5, 7, 8, 9, 15, 16, 17, 31, 32, 33, 63, 64]
BIGS = [HALF - 1, HALF, HALF + 1, MAXS - 2, MAXS - 1, MAXS]
BIGC = [HALF + 1, HALF + 2, MAXS - 1, MAXS]
KNOWN_DIR = os.path.join(os.path.dirname(os.path.dirname(os.path.abspath(__file__))), "spec", SPEC_DIR, "known")


def load_script(name):
    """a stored regression script (spec/ByteBuf/known/): one execution, passed through the same precondition filter"""
    ls = [ln.strip() for ln in open(os.path.join(KNOWN_DIR, name)) if ln.strip() and not ln.startswith("#")]
    nsrc = int(ls[0].split()[1])
    return [ls[0]] + sanitize(ls[1:], nsrc)


def make_src(rng):
    mode = rng.random()
    if mode < 0.25:      # numbers at the u64 boundary, separated
        bs = []
        while len(bs) < 40:
            bs += [ord(ch) for ch in rng.choice(NUMS)] + [rng.choice([59, 32, 59, 0])]
        return bs[:rng.randint(20, 64)]
    n = rng.choice([1, 2, 3, 5, 8, 16, 33, 64, rng.randint(1, 64)])
    if mode < 0.7:
        return [rng.choice(TEXT) for _ in range(n)]
    if mode < 0.85:      # separator-heavy
        return [rng.choice([59, 59, 65, 32]) for _ in range(n)]
    return [rng.randrange(256) for _ in range(n)]


def near(rng, x, lo=0, hi=64):
    """a size at, just below or just above x (exact-fit / one-short), sometimes 0 or arbitrary"""
    r = rng.random()
    v = x if r < 0.35 else x + 1 if r < 0.55 else x - 1 if r < 0.7 else 0 if r < 0.78 else rng.randint(lo, hi)
    return max(lo, min(hi, v))


def random_exec(rng, nops):
    src = make_src(rng)
    ns = len(src)
    env = Env(ns)
    lines = []

    def emit(ln):
        p = ln.split()
        if env.admit(p):
            env.apply(p)
            lines.append(ln)
            return True
        return False

    B = lambda: rng.randint(1, NB)
    Cc = lambda: rng.randint(1, NC)

    def live_b():
        xs = [b for b in range(1, NB + 1) if env.alive[b]]
        return rng.choice(xs) if xs else B()

    def src_cur(c, n):
        n = max(0, min(ns, n))
        off = rng.choice([0, ns - n, rng.randint(0, ns - n)])
        return emit("CURSRC %d %d %d" % (c, off, n))

    def some_cur(readable=True):
        xs = [c for c in range(1, NC + 1) if env.usable[c] and (not readable or not env.big[c])]
        if xs and rng.random() < 0.8:
            return rng.choice(xs)
        c = Cc()
        r = rng.random()
        if r < 0.6:
            src_cur(c, rng.choice([0, 1, 2, ns, rng.randint(0, ns)]))
        elif r < 0.85:
            emit("CURBUF %d %d" % (c, B()))
        else:
            emit("CURNULL %d" % c)
        return c

    emit("INIT %d %d" % (B(), rng.choice(CAPS)))
    guard = 0
    while len(lines) < nops and guard < nops * 6:
        guard += 1
        r = rng.random() * 100
        if r < 7:
            b = B()
            if env.alive[b]:
                emit("CLEAN %d %d" % (b, rng.randint(0, 1)))
            k = rng.random()
            if k < 0.6:
                emit("INIT %d %d" % (b, rng.choice(CAPS)))
            elif k < 0.75:
                emit("INITCOPY %d %d" % (b, B()))
            elif k < 0.9:
                emit("INITCUR %d %d" % (b, some_cur()))
            else:
                cs = rng.sample(range(1, NC + 1), rng.randint(1, 3))
                emit("INITCACHE %d %d %s" % (b, len(cs), " ".join(map(str, cs))))
        elif r < 25:     # fixed-capacity appends around the remaining room
            b, c = B(), Cc()
            k = rng.random()
            if k < 0.7:
                src_cur(c, near(rng, env.room(b)))
            elif k < 0.85:
                emit("CURBUF %d %d" % (c, B()))          # possibly b itself: a buffer appended to itself
            else:
                c = some_cur(readable=False)
            op = rng.choice(["APPEND", "APPEND", "APPENDLK", "APPENDUPD", "WCUR", "WCAP"])
            if op == "APPENDLK":
                emit("APPENDLK %d %d %d" % (b, c, rng.randint(0, 2)))
            elif op == "WCAP":
                emit("WCAP %d %d %d" % (b, c, rng.choice([0] + [d for d in range(1, NC + 1) if d != c])))
            else:
                emit("%s %d %d" % (op, b, c))
        elif r < 39:     # growing appends: exact fit / one more than fits / self-append
            b, c = live_b(), Cc()
            k = rng.random()
            if k < 0.35:
                emit("APPENDBYTE %d %d %d" % (b, rng.choice(TEXT + [rng.randrange(256)]), rng.randint(0, 1)))
            elif k < 0.42:
                emit("APPENDNUL %d" % b)
            else:
                if k < 0.62:
                    emit("CURBUF %d %d" % (c, b))                                 # self-append through a view of itself
                    if rng.random() < 0.5:
                        emit("CADV %d %d %d 0" % (c, rng.randint(0, 3), rng.randint(0, 1)))
                else:
                    src_cur(c, near(rng, env.room(b)))
                emit("APPENDDYN %d %d %d" % (b, c, rng.randint(0, 1)))
        elif r < 45:
            b = live_b()
            kind = rng.randint(0, 3)
            base = env.pcap[b] - (env.plen[b] if kind in (1, 3) else 0)
            emit("RESERVE %d %d %d" % (kind, b, near(rng, max(0, base))))
        elif r < 60:     # writes
            b = B()
            k = rng.random()
            room = env.room(b)
            if k < 0.25:
                n = min(ns, near(rng, room))
                emit("WRITE %d %d %d" % (b, rng.randint(0, ns - n), n))
            elif k < 0.4:
                emit("WU8 %d %d" % (b, rng.randrange(256)))
            elif k < 0.55:
                emit("WU8N %d %d %d" % (b, rng.randrange(256), near(rng, room)))
            elif k < 0.8:
                kk = rng.choice([2, 3, 4, 8])
                vs = [rng.randrange(256) for _ in range(4 if kk == 3 else kk)]
                if kk == 3 and rng.random() < 0.8:
                    vs[0] = 0
                emit("WBE %d %d %s" % (b, kk, " ".join(map(str, vs))))
            elif k < 0.9:
                emit("WBUF %d %d" % (b, B()))
            else:
                ss = [B() for _ in range(rng.randint(1, 3))]
                emit("CAT %d %d %s" % (b, len(ss), " ".join(map(str, ss))))
        elif r < 63:
            b = B()
            emit("BADV %d %d" % (b, near(rng, env.room(b))))
        elif r < 66:
            b = B()
            emit(rng.choice(["BRESET %d 0" % b, "BRESET %d 1" % b, "BZERO %d" % b]))
        elif r < 69:
            c = Cc()
            k = rng.random()
            if k < 0.4:
                emit("CURBUF %d %d" % (c, B()))
            elif k < 0.6:
                emit("CURNULL %d" % c)
            elif k < 0.8:
                emit("CURCOPY %d %d" % (c, some_cur(readable=False)))
            else:
                src_cur(c, rng.randint(0, ns))
        elif r < 78:     # advance / read around the cursor length
            c = some_cur(readable=False)
            n = near(rng, env.clen[c])
            k = rng.random()
            if k < 0.45:
                emit("CADV %d %d %d %d" % (c, n, rng.randint(0, 1), rng.choice([0] + [d for d in range(1, NC + 1) if d != c])))
            elif k < 0.7:
                emit("READ %d %d" % (c, n))
            elif k < 0.9:
                emit("READU %d %d" % (c, rng.choice([1, 2, 3, 4, 8])))
            else:
                emit("READFILL %d %d" % (c, B()))
        elif r < 86:     # huge sizes: every one of these calls must fail without touching memory
            k = rng.random()
            big = tok(rng.choice(BIGS))
            b = B()
            if k < 0.12:
                emit("WRITEBIG %d %s" % (b, big))
            elif k < 0.22:
                emit("WU8N %d %d %s" % (b, rng.randrange(256), big))
            elif k < 0.3:
                emit("BADV %d %s" % (b, big))
            elif k < 0.42:
                emit("CADV %d %s %d 0" % (some_cur(readable=False), big, rng.randint(0, 1)))
            elif k < 0.5:
                emit("READ %d %s" % (some_cur(readable=False), big))
            elif k < 0.6:
                lb = live_b()
                while env.lenlo[lb] < 3 and env.alive[lb] and rng.random() < 0.9:
                    emit("APPENDBYTE %d %d %d" % (lb, rng.randrange(256), rng.randint(0, 1)))
                emit("RESERVE %d %d %s" % (rng.choice([1, 3]), lb, tok(rng.choice([MAXS, MAXS - 1, MAXS - 2]))))
            elif k < 0.68:    # length exactly SIZE_MAX>>1 (F8): served or refused, never clobbered
                c = Cc()
                emit("CURBIG %d HALF" % c)
                emit(rng.choice(["CADV %d %d 1 0" % (c, rng.randint(0, 1)), "CADV %d %d 0 0" % (c, rng.randint(0, 1)),
                                 "READ %d 1" % c, "READU %d 1" % c, "APPEND %d %d" % (b, c), "WCUR %d %d" % (b, c),
                                 "CADV %d %s %d 0" % (c, big, rng.randint(0, 1))]))
                emit("CURNULL %d" % c)
            else:
                c = Cc()
                emit("CURBIG %d %s" % (c, tok(rng.choice(BIGC))))
                kk = rng.random()
                if kk < 0.2:
                    emit("APPEND %d %d" % (b, c))
                elif kk < 0.3:
                    emit("APPENDLK %d %d %d" % (b, c, rng.randint(0, 2)))
                elif kk < 0.4:
                    emit("APPENDUPD %d %d" % (b, c))
                elif kk < 0.5:
                    emit("WCUR %d %d" % (b, c))
                elif kk < 0.6:
                    emit("WCAP %d %d 0" % (b, c))
                elif kk < 0.7:
                    emit("CADV %d %d %d 0" % (c, rng.choice([0, 1, 2]), rng.randint(0, 1)))
                elif kk < 0.8:
                    emit(rng.choice(["READ %d %d" % (c, rng.randint(0, 3)), "READU %d %d" % (c, rng.choice([1, 2, 3, 4, 8])),
                                     "READFILL %d %d" % (c, b)]))
                elif kk < 0.9:
                    lb = live_b()
                    while env.lenlo[lb] < 2 and env.alive[lb] and rng.random() < 0.9:
                        emit("APPENDBYTE %d %d 0" % (lb, rng.randrange(256)))
                    emit("APPENDDYN %d %d %d" % (lb, c, rng.randint(0, 1)))
                else:
                    c2 = rng.choice([d for d in range(1, NC + 1) if d != c])
                    emit("CURBIG %d %s" % (c2, tok(rng.choice(BIGC))))
                    emit("INITCACHE %d 2 %d %d" % (b, c, c2))
        elif r < 91:     # split
            c = some_cur()
            ch = rng.choice([59, 59, 32, 0, 65, 255, rng.choice(src)])
            if rng.random() < 0.5:
                emit("NSPLIT %d %d %d" % (c, ch, rng.randint(1, 6)))
            else:
                via = rng.randint(0, 1)
                emit("SPLITN %d %d %d %d %d" % (c, ch, rng.randint(0, 3) if via else 0, rng.randint(1, 3), via))
        elif r < 94:
            c = some_cur()
            if rng.random() < 0.7:
                emit("TRIM %d %d %s %d" % (c, rng.randint(0, 2), rng.choice(PREDS), rng.choice([0] + [d for d in range(1, NC + 1) if d != c])))
            else:
                emit("SAT %d %s" % (c, rng.choice(PREDS)))
        elif r < 98:
            c1, c2 = some_cur(), some_cur()
            k = rng.random()
            ic = rng.randint(0, 1)
            n = rng.randint(0, min(ns, 8))
            off = rng.randint(0, ns - n)
            if k < 0.2:
                emit("EQ %d %d %d" % (c1, c2, ic))
            elif k < 0.3:
                emit("EQCSTR %d %d %d %d" % (c1, off, n, ic))
            elif k < 0.4:
                emit("CEQB %d %d %d" % (c1, B(), ic))
            elif k < 0.5:
                emit(rng.choice(["BEQ %d %d %d" % (B(), B(), ic), "BEQCSTR %d %d %d %d" % (B(), off, n, ic)]))
            elif k < 0.65:
                emit(rng.choice(["CMP %d %d" % (c1, c2), "CMPLK %d %d %d" % (c1, c2, rng.randint(0, 2))]))
            elif k < 0.8:
                emit("STARTS %d %d %d" % (c1, c2, ic))
            else:
                if c1 != c2:
                    src_cur(c2, rng.choice([0, 1, 1, 2, 3]))
                    ds = [d for d in range(1, NC + 1) if d not in (c1, c2) and env.rd(d)]
                    emit("FIND %d %d %d" % (c1, c2, rng.choice([0] + ds)))
        else:
            c = some_cur()
            emit(rng.choice(["PARSE %d 0" % c, "PARSE %d 1" % c, "READHEX %d" % c]))
    return ["RESET %d %s" % (ns, " ".join(map(str, src)))] + lines


def search_exec(rng):
    """searching and comparing over a two-letter alphabet, so that partial matches are everywhere: needle of 1..4 bytes
    against haystack views that end exactly at the end of the (exact-size) source block or somewhere inside it"""
    ns = rng.randint(3, 12)
    src = [rng.choice([65, 66, 66]) for _ in range(ns)]
    lines = []
    for _ in range(rng.randint(8, 24)):
        hn = rng.randint(0, ns)
        hoff = rng.choice([ns - hn, ns - hn, rng.randint(0, ns - hn)])
        nn = rng.randint(1, min(4, ns))
        noff = rng.randint(0, ns - nn)
        lines.append("CURSRC 1 %d %d" % (hoff, hn))
        lines.append("CURSRC 2 %d %d" % (noff, nn))
        k = rng.random()
        if k < 0.6:
            lines.append("FIND 1 2 %d" % rng.choice([0, 3]))
        elif k < 0.75:
            lines.append("STARTS 1 2 %d" % rng.randint(0, 1))
        elif k < 0.9:
            lines.append("EQ 1 2 %d" % rng.randint(0, 1))
        else:
            lines.append("CMP 1 2")
    return ["RESET %d %s" % (ns, " ".join(map(str, src)))] + lines


def parse_exec(rng):
    """number parsing at the 64-bit boundary, through source views and through buffer views"""
    lines, bs, spans = [], [], []
    for s in rng.sample(NUMS, 6) + ["%d" % rng.randrange(1 << 70), "%x" % rng.randrange(1 << 68), "%X" % rng.getrandbits(64)]:
        if len(bs) + len(s) > 64:
            break
        spans.append((len(bs), len(s)))
        bs += [ord(ch) for ch in s]
    for off, n in spans:
        lines += ["CURSRC 1 %d %d" % (off, n), "PARSE 1 0", "PARSE 1 1", "CURCOPY 2 1", "READHEX 2", "READHEX 2"]
        if rng.random() < 0.4:
            lines += ["INITCUR 1 1", "CURBUF 3 1", "PARSE 3 %d" % rng.randint(0, 1), "CLEAN 1 %d" % rng.randint(0, 1)]
    return ["RESET %d %s" % (len(bs), " ".join(map(str, bs)))] + sanitize(lines, len(bs))


MC_REQUIRED = ["MCBufInit", "MCInitCopy", "MCInitCopyFromCursor", "MCInitCache", "MCAppend", "MCAppendWithLookup",
               "MCAppendAndUpdate", "MCCat", "MCAppendDynamic", "MCAppendByteDynamic", "MCAppendNullTerminator", "MCReserve",
               "MCWrite", "MCWriteBig", "MCWriteU8", "MCWriteU8N", "MCWriteBE", "MCWriteFromWholeBuffer",
               "MCWriteFromWholeCursor", "MCWriteToCapacity", "MCBufAdvance", "MCReset", "MCSecureZero", "MCCleanUp",
               "MCCurAdvance", "MCRead", "MCReadU", "MCReadHexU8", "MCReadAndFill"]
MC_PURE = ["MCNextSplit", "MCSplitOnCharN", "MCTrim", "MCSatisfiesPred", "MCCurEq", "MCCurEqCStr", "MCCurEqBuf", "MCBufEq",
           "MCBufEqCStr", "MCCompareLexical", "MCCompareLookup", "MCStartsWith", "MCFindExact", "MCParseU64"]


def run(ctx):
    thorough = ctx.tier == "thorough"
    exe = prepare(ctx)
    ctx.rule = ("execution = one source array + up to 3 buffers and 4 cursors + a sequence of up to ~60 public byte_buf / "
                "byte_cursor calls; distinct = distinct script text; non-trivial = contains an append/write, a cursor "
                "advance/read and at least one call that must fail")
    ctx.assumptions += [
        "sizes: real sizes n < 65536, (SIZE_MAX>>1)+-d and SIZE_MAX-d are mapped to n, 1000000+-d, 2000001-d; every comparison "
        "and checked addition the calls perform on such arguments is preserved (capacities <= 64 in all scripts)",
        "allocation cannot fail (aws_mem_acquire aborts), so no script asks for a buffer of half the address space; huge sizes "
        "appear only where the call must fail before allocating or touching memory",
        "scripts respect documented preconditions: no use of a cursor whose storage may have been released, re-allocated or "
        "truncated; no overlapping source for append_with_lookup / read_and_fill_buffer; growing calls only on buffers "
        "that have an allocator; init only on a struct that is not initialised",
        "capacity after growth is only required to be >= the required capacity; error codes are checked only where the "
        "header documents them (DEST_COPY_TOO_SMALL, STRING_MATCH_NOT_FOUND)",
        "bytes in [len, capacity) are unspecified; out-of-capacity accesses are observed through exact-size malloc blocks under ASan",
    ]
    if os.environ.get("VERIF_C01_SKIP_MC"):      # development aid for mutation runs (the model does not depend on the library)
        ctx.extra["mc_skipped"] = True
    else:
        run_mc(ctx, thorough)
    gen_and_drive(ctx, thorough)
    drive_big(ctx, thorough)
    # aws_byte_buf_init_from_file[_with_size_hint]: the initialiser that fills a buffer from a file (spec/OsFacade/File.tla
    # BufFromFile; the tree of files is the adapter's own ground truth), including refusals after the buffer was allocated
    # (a directory) and files above 128 MiB read with hints around their size
    from checks import x04
    x04.reader_family(ctx, thorough)


# ---- large sizes (spec/ByteBuf/BigBuf.tla, harness/bytebuf_big_adapter.c)
KIB, MIB = 1024, 1024 * 1024
BIG_SIZES = [0, 1, 255, 4095, 4096, 4097, 65535, 65536, 100000, 512 * KIB, MIB - 1, MIB, MIB + 1, MIB + 4096, 2 * MIB - 1,
             2 * MIB, 2 * MIB + 1, 3 * MIB, 4 * MIB + 7, 5 * MIB, 8 * MIB, 12 * MIB + 13]


def big_exec(rng, huge=False):
    """Model-tracked script for the large-size family: at most two buffers, at most ~40 MiB per buffer; sizes around
    powers of two between 4 KiB and 12 MiB (where growth policies, page-sized copies and size arithmetic change case)."""
    limit = (96 if huge else 40) * MIB
    ex = ["RESET"]
    st = {1: None, 2: None}          # None or [len, cap_lower_bound]

    def size():
        r = rng.random()
        if r < 0.6:
            return rng.choice(BIG_SIZES)
        if r < 0.8:
            return rng.choice(BIG_SIZES) + rng.choice([-3, -1, 1, 2, 17])
        return rng.randrange(0, (24 if huge else 6) * MIB)

    for _ in range(rng.randint(3, 9)):
        b = rng.choice([1, 2])
        if st[b] is None:
            o = 3 - b
            if st[o] is not None and rng.random() < 0.3:
                ex.append("COPY %d %d" % (b, o))
                st[b] = [st[o][0], st[o][0]]
            else:
                n = max(0, rng.choice([0, 0, 1, 16, 4096, 65536, MIB, 3 * MIB]) + rng.choice([0, 0, -1, 1]))
                ex.append("INIT %d %d" % (b, n))
                st[b] = [0, n]
            continue
        ln, cap = st[b]
        r = rng.random()
        v = rng.randrange(1, 256)
        if r < 0.45:
            n = max(0, size())
            if ln + n > limit:
                continue
            ex.append("APPD %d %d %d %d" % (b, v, n, rng.choice([0, 0, 1])))
            st[b] = [ln + n, max(cap, ln + n)]
        elif r < 0.55 and ln > 0:
            n = rng.choice([1, ln, ln // 2, min(ln, MIB + 1), min(ln, 4096)])
            off = rng.choice([0, ln - n, (ln - n) // 2])
            if ln + n > limit:
                continue
            ex.append("SELF %d %d %d %d" % (b, off, n, rng.choice([0, 1])))
            st[b] = [ln + n, max(cap, ln + n)]
        elif r < 0.68:
            kind = rng.choice(["abs", "rel"])
            n = max(0, size())
            if (ln if kind == "rel" else 0) + n > limit:
                continue
            ex.append("RESV %d %s %d" % (b, kind, n))
            st[b] = [ln, max(cap, (ln if kind == "rel" else 0) + n)]
        elif r < 0.78:
            # fixed-size append / write_u8_n: outcome decided by the specification from the observed capacity
            n = max(0, rng.choice([size(), max(0, cap - ln), max(0, cap - ln) + 1, max(0, cap - ln - 1)]))
            if n > limit:
                continue
            ex.append(("APP %d %d %d" if rng.random() < 0.5 else "WU8N %d %d %d") % (b, v, n))
            if ln + n <= cap:
                st[b] = [ln + n, cap]                    # fits whatever the real capacity is
            else:
                # whether it fits depends on the real capacity (only bounded from below here): the specification decides
                # from the observed one; the driver forgets the length by resetting the buffer
                ex.append("RST %d %d" % (b, rng.choice([0, 1])))
                st[b] = [0, cap]
        elif r < 0.86:
            ex.append("RST %d %d" % (b, rng.choice([0, 1])))
            st[b] = [0, cap]
        else:
            ex.append("CLEAN %d %d" % (b, rng.choice([0, 1])))
            st[b] = None
    return ex


def drive_big(ctx, thorough):
    ctx.mc(SPEC_DIR, "BigBufMC", "MC_big.cfg", timeout=900, xmx="4g", workers=8,
           required_actions=["BigBufMC!" + a for a in ("MInitB", "MAppendFixed", "MAppendDynamic", "MAppendSelf", "MReserve",
                                                       "MInitCopy", "MReset", "MCleanUp")])
    exe = build.build_harness("bytebuf_big_adapter", ["bytebuf_big_adapter.c"], cflags=["-Wno-unused-function"])
    rng = random.Random(ctx.seed * 31 + 5)
    execs = [
        # one append far beyond the current capacity; growth in several steps; self-append across a reallocation
        ["RESET", "INIT 1 16", "APPD 1 7 6 0", "APPD 1 9 3145728 0", "APPD 1 7 1 1", "CLEAN 1 0"],
        ["RESET", "INIT 1 0", "APPD 1 1 1048576 0", "APPD 1 2 1048577 1", "APPD 1 3 2097153 0", "SELF 1 1048570 2097160 0", "CLEAN 1 1"],
        ["RESET", "INIT 1 4096", "RESV 1 rel 5242880", "APP 1 5 5242880", "APP 1 6 1", "RESV 1 abs 6291456", "WU8N 1 4 1048577", "COPY 2 1", "CLEAN 1 0", "CLEAN 2 1"],
    ]
    n = 120 if not thorough else 1500
    for i in range(n):
        execs.append(big_exec(rng, huge=thorough and i % 10 == 0))
    for ex in execs:
        ctx.distinct.add(hash("big|" + "\n".join(ex)))
    ctx.add_sample({"family": "large sizes", "script": execs[0]})
    k = pipeline.drive_and_validate(ctx, exe, execs, SPEC_DIR, "BigBufTrace", "TraceBig.cfg", label="bigbuf",
                                    harness_timeout=600, xmx="4g")
    ctx.extra["large_size_executions"] = len(execs)
    return k


def run_mc(ctx, thorough):
    ctx.mc(SPEC_DIR, "ByteBufMC", "MC_thorough.cfg" if thorough else "MC.cfg", timeout=3000, xmx="16g" if thorough else "6g",
           required_actions=["ByteBufMC!" + a for a in MC_REQUIRED])
    ctx.mc(SPEC_DIR, "ByteBufMC", "MC_pure.cfg", timeout=600, xmx="6g",
           required_actions=["ByteBufMC!" + a for a in MC_REQUIRED + MC_PURE])


def known_probe(ctx, ex, rec):
    """DESIGN 3.3: strict first; if rejected, re-validate with exactly the deviation of the known record enabled."""
    exe = prepare(ctx)
    wd = os.path.join(ctx.outdir, "known_f8")
    sp, tp, evs, died, err = pipeline.run_harness(exe, list(ex) + ["END"], wd, "f8")
    if died:
        pipeline.confirm_and_report(ctx, exe, ex, SPEC_DIR, "ByteBufTrace", "Trace.cfg", "known_f8", "died: " + died, None, None,
                                    None, 300, 900, "END", asan_text=err)
        return
    clean = os.path.join(wd, "f8.clean.ndjson")
    pipeline.write_clean_trace(evs, clean)
    v = tlc.validate(SPEC_DIR, "ByteBufTrace", "Trace.cfg", clean, wd, tag="f8_strict")
    if v.error:
        raise pipeline.CheckError(v.error)
    if v.accepted:
        ctx.traces_ok += 1
        return
    v2 = tlc.validate(SPEC_DIR, "ByteBufTrace", "TraceLenient.cfg", clean, wd, tag="f8_lenient")
    if v2.error:
        raise pipeline.CheckError(v2.error)
    if v2.accepted and any("NospecHalfClobber" in x for x in v2.printed):
        ctx.known_finding("F8", rec.get("what", "advance_nospec clobbers a cursor of length SIZE_MAX>>1"))
        ctx.traces_ok += 1
    else:
        pipeline.confirm_and_report(ctx, exe, ex, SPEC_DIR, "ByteBufTrace", "Trace.cfg", "known_f8",
                                    "known-finding repro rejected beyond the recorded deviation", None, None, None, 300, 900, "END")


def gen_and_drive(ctx, thorough):
    scripts, _ = tlc.gen_scripts(SPEC_DIR, "ByteBufMC", "Gen.cfg", ctx.outdir, num=500 if not thorough else 6000, depth=40,
                                 seed=ctx.seed, workers=4)
    # TLC evaluates the printing invariant on every candidate successor of the last step, so behaviours come in families
    # sharing all but the final call: keep one member per family, then a seeded sample
    fam = {}
    for s in scripts:
        fam.setdefault(repr(s["ops"][:-1]), s)
    scripts = sorted(fam.values(), key=lambda s: repr(s["ops"]))
    rng0 = random.Random(ctx.seed * 7919 + 1)
    ngen = 500 if not thorough else 6000
    if len(scripts) > ngen:
        scripts = rng0.sample(scripts, ngen)
    execs = [from_tlc(s) for s in scripts]
    ctx.extra["tlc_generated_scripts"] = len(execs)
    rng = random.Random(ctx.seed)
    nrand = 1500 if not thorough else 40000
    for _ in range(nrand):
        execs.append(random_exec(rng, rng.randint(10, 60)))
    npar = 100 if not thorough else 2000
    for _ in range(npar):
        execs.append(parse_exec(rng))
    nsearch = 300 if not thorough else 6000
    for _ in range(nsearch):
        execs.append(search_exec(rng))
    ctx.extra["search_scripts"] = nsearch
    ctx.extra["random_scripts"] = nrand + npar
    # regression script of the repaired finding F8: part of the regular executions, judged by the strict specification.
    # Only a known_findings.txt record with status "known" and id F8 routes its rejection to KNOWN-FINDING.
    f8 = load_script("nospec_half.script")
    f8_known = [k for k in ctx.known if k.get("status") == "known" and k.get("id") == "F8"]
    if f8_known:
        known_probe(ctx, f8, f8_known[0])
    else:
        execs.append(f8)
    mustfail = ("MAX", "HALF", "CURBIG")
    for ex in execs:
        ctx.evaluations += 1
        txt = "\n".join(ex)
        if ("APPEND" in txt or "\nW" in txt) and ("CADV" in txt or "READ" in txt) and any(m in txt for m in mustfail):
            ctx.distinct.add(hash(txt))
    ctx.add_sample({"script": execs[0][:16]})
    ctx.add_sample({"script": execs[-npar - 1][:16]})
    exe = prepare(ctx)      # the shared build directory may have been pruned while TLC was running
    pipeline.drive_and_validate(ctx, exe, execs, SPEC_DIR, "ByteBufTrace", "Trace.cfg", label="bytebuf")
    # the process-locale family (lib/vlib/locale8.py): a slice of the same executions in a process that called setlocale()
    # (case-insensitive comparison, trimming by predicate, number parsing)
    from vlib import locale8
    locale8.rerun(ctx, exe, execs[::5], SPEC_DIR, "ByteBufTrace", "Trace.cfg", "bytebuf", names=("xx_XX", "yy_YY"))
