"""X02 error handling (aws/common/error.h): Error.tla (per-thread last error, global / thread-local handlers,
error-info registration table, errno translation) model-checked; TLC-generated and random scripts replayed on the real
library with three real threads (one call at a time); traces validated by ErrorTrace.tla."""
import errno
import random

from vlib import build, pipeline, tlc

LEVEL = "model_checking"
SPEC_DIR = "Error"
NT = 3
SLOTS = [1, 20, 21, 22, 31]           # = TestSlots of Trace.cfg: package slots aws-c-common does not use itself
STRIDE = 1024
NCOMMON = 62                           # entries of enum aws_common_error (only used to aim look-ups at the boundary)
COUNTS = [1, 2, 3, 7, 100, 1023, 1024]
INT_MAX = 2147483647
ERRNOS = sorted(errno.errorcode)       # this platform's C library error numbers
INT_MIN = -INT_MAX - 1
NOT_ERRNOS = [0, -1, -22, 4096, 65536, 99999, INT_MAX, INT_MIN]


def prepare(ctx):
    return build.build_harness("error_adapter", ["error_adapter.c"], cflags=["-Wno-unused-function"])


def boundary_codes(rng, reg):
    """codes around every boundary that exists right now: slot begin/end, list count, table end, sign"""
    cs = [0, 1, NCOMMON - 1, NCOMMON, NCOMMON + 1, STRIDE - 1, STRIDE, 32 * STRIDE - 1, 32 * STRIDE, 32 * STRIDE + 1,
          33 * STRIDE, 65536, INT_MAX, -1, -2, -STRIDE, INT_MIN, INT_MIN + 1, 1 << 20, (1 << 30) + 5]
    for s in SLOTS:
        b = s * STRIDE
        cs += [b - 1, b, b + 1, b + STRIDE - 1, b + STRIDE]
        if reg.get(s):
            n = reg[s][1]
            cs += [b + n - 1, b + n, b + n + 1, b + n // 2]
    cs += [rng.randrange(0, 32 * STRIDE) for _ in range(4)]
    cs += [rng.randrange(0, NCOMMON) for _ in range(3)]
    return cs


class Drv:
    """script builder; keeps the one thing a script must respect: which list is registered for a slot"""

    def __init__(self, rng):
        self.rng = rng
        self.lines = ["RESET"]
        self.reg = {}
        self.handlers = False
        self.raised = False

    def t(self):
        return self.rng.randint(1, NT)

    def code(self):
        r = self.rng
        x = r.random()
        if x < 0.35:
            return r.randrange(0, NCOMMON + 2)
        if x < 0.8:
            return r.choice(boundary_codes(r, self.reg))
        return r.choice([r.randrange(-5000, 40000), r.randrange(INT_MIN, INT_MAX)])

    def raise_(self, t=None, code=None):
        self.lines.append("RAISE %d %d" % (t or self.t(), self.code() if code is None else code))
        self.raised = True

    def restore(self, t=None):
        self.lines.append("RESTORE %d %d" % (t or self.t(), self.code()))

    def clear(self, t=None):
        self.lines.append("CLEAR %d" % (t or self.t()))

    def last(self, t=None):
        self.lines.append("LAST %d" % (t or self.t()))

    def setg(self, t=None, h=None, c=None):
        r = self.rng
        h = r.choice([0, 1, 1, 2, 3]) if h is None else h
        self.lines.append("SETG %d %d %d" % (t or self.t(), h, r.randint(0, 3) if c is None else c))
        self.handlers = self.handlers or h != 0

    def setl(self, t=None, h=None, c=None):
        r = self.rng
        h = r.choice([0, 1, 1, 2, 3]) if h is None else h
        self.lines.append("SETL %d %d %d" % (t or self.t(), h, r.randint(0, 3) if c is None else c))
        self.handlers = self.handlers or h != 0

    def spawn(self, t=None):
        self.lines.append("SPAWN %d" % (t or self.t()))

    def xlat(self, t=None, e=None):
        r = self.rng
        e = (r.choice(ERRNOS) if r.random() < 0.75 else r.choice(NOT_ERRNOS)) if e is None else e
        if r.random() < 0.5:
            self.lines.append("XLAT %d %d" % (t or self.t(), e))
        else:
            fb = r.choice([46, 46, 1, 3, 34, 61, 5000, 20481, INT_MAX, INT_MIN, -7, self.code()])
            self.lines.append("XLATOR %d %d %d" % (t or self.t(), e, fb))
        self.raised = True

    def register(self, t=None, s=None):
        r = self.rng
        s = s or r.choice(SLOTS)
        v, n = r.randint(1, 3), r.choice(COUNTS)
        self.lines.append("REG %d %d %d %d" % (t or self.t(), s, v, n))
        self.reg[s] = (v, n)

    def unregister(self, t=None, s=None):
        r = self.rng
        s = s or r.choice(SLOTS)
        # obligation: hand in the list that is registered, or any list when the slot has none
        v, n = self.reg[s] if self.reg.get(s) else (r.randint(1, 3), r.choice(COUNTS))
        self.lines.append("UNREG %d %d %d %d" % (t or self.t(), s, v, n))
        self.reg[s] = None

    def lookup(self, t=None, codes=None):
        r = self.rng
        if codes is None:
            pool = boundary_codes(r, self.reg)
            codes = [r.choice(pool) for _ in range(r.randint(1, 10))]
        self.lines.append("LOOKUP %d %s" % (t or self.t(), " ".join(str(c) for c in codes)))

    def lookup_all_boundaries(self, t=None):
        cs = sorted(set(boundary_codes(self.rng, self.reg)))
        for i in range(0, len(cs), 12):
            self.lookup(t, cs[i:i + 12])


def random_exec(rng, nops):
    d = Drv(rng)
    ops = [(d.raise_, 20), (d.restore, 6), (d.clear, 6), (d.last, 3), (d.setg, 9), (d.setl, 12), (d.spawn, 3),
           (d.xlat, 10), (d.register, 9), (d.unregister, 6), (d.lookup, 16)]
    fns = [f for f, w in ops for _ in range(w)]
    for _ in range(nops):
        rng.choice(fns)()
    return d.lines


def handler_exec(rng):
    """handlers on several threads and globally, raises on every thread after every change, handlers turned off again,
    a thread replaced while it has a handler and an error"""
    d = Drv(rng)
    for _ in range(rng.randint(6, 14)):
        r = rng.random()
        if r < 0.35:
            d.setl()
        elif r < 0.6:
            d.setg()
        elif r < 0.7:
            d.setl(h=0)
        elif r < 0.78:
            d.setg(h=0)
        elif r < 0.86:
            d.spawn()
        elif r < 0.93:
            d.restore()
        else:
            d.clear()
        for t in rng.sample([1, 2, 3], rng.randint(1, 3)):
            if rng.random() < 0.8:
                d.raise_(t)
            else:
                d.xlat(t)
    return d.lines


def registry_exec(rng):
    """several slots registered with boundary counts, every boundary looked up from another thread, one slot
    unregistered / replaced, everything looked up again"""
    d = Drv(rng)
    if rng.random() < 0.5:
        d.lookup_all_boundaries()
    for s in rng.sample(SLOTS, rng.randint(2, 4)):
        d.register(s=s)
    d.lookup_all_boundaries()
    for _ in range(rng.randint(1, 3)):
        s = rng.choice(SLOTS)
        r = rng.random()
        if r < 0.5:
            d.unregister(s=s)
        elif r < 0.8:
            d.register(s=s)
        else:
            d.unregister(s=s)
            d.register(s=s)
        if rng.random() < 0.3:
            d.raise_(code=s * STRIDE + rng.choice([0, 1, 2, 1023]))
        d.lookup_all_boundaries()
    return d.lines


def translate_exec(rng):
    """the same numbers through both variants, repeatedly and on different threads (the conversion is a function of
    the number), numbers that are no error number, handlers installed on some threads"""
    d = Drv(rng)
    if rng.random() < 0.6:
        d.setg(h=rng.randint(1, 3))
    if rng.random() < 0.6:
        d.setl(h=rng.randint(1, 3))
    es = rng.sample(ERRNOS, min(len(ERRNOS), rng.randint(4, 12))) + rng.sample(NOT_ERRNOS, rng.randint(1, 4))
    es += [errno.EINVAL, errno.ENOENT, errno.ENOMEM][:rng.randint(0, 3)]
    for _ in range(rng.randint(12, 45)):
        d.xlat(e=rng.choice(es))
        if rng.random() < 0.1:
            d.clear()
    return d.lines


def from_tlc(s):
    lines = ["RESET"]
    for o in s["ops"]:
        op, t, a, b, c = o["op"], o["t"], o["a"], o["b"], o["c"]
        if op in ("RAISE", "RESTORE", "XLAT", "LOOKUP"):
            lines.append("%s %d %d" % (op, t, a))
        elif op in ("CLEAR", "LAST", "SPAWN"):
            lines.append("%s %d" % (op, t))
        elif op in ("SETG", "SETL", "XLATOR"):
            lines.append("%s %d %d %d" % (op, t, a, b))
        else:
            lines.append("%s %d %d %d %d" % (op, t, a, b, c))
    return lines


ACTIONS = ["MCRaise", "MCRestore", "MCResetErr", "MCLast", "MCSetGlobal", "MCSetLocal", "MCSpawn", "MCTranslate",
           "MCTranslateOr", "MCRegister", "MCUnregister", "MCLookup"]


def run(ctx):
    thorough = ctx.tier == "thorough"
    exe = prepare(ctx)
    ctx.rule = ("execution = three fresh threads + a sequence of calls (raise / restore / reset / last error, set global / "
                "thread-local handler, errno translation, register / unregister error-info list, look-ups), each made on "
                "one named thread; distinct = distinct script text; non-trivial = installs a handler and raises, or "
                "registers a list and looks codes up")
    ctx.assumptions += [
        "calls are made one at a time (the helper threads never run concurrently); handlers do not call back into the "
        "error API except aws_last_error()",
        "only aws-c-common is initialised in the process: slot 0 holds its list, every other slot is empty until the "
        "script registers a list; lists start at the first code of their slot and number their entries consecutively "
        "(the documented DEBUG_BUILD obligation)",
        "a list handed to aws_unregister_error_info is the one registered for its slot, or the slot has none",
        "numbers outside 1..4095 are no C library error numbers, so no conversion exists for them; the conversion table "
        "itself is not documented and only required to be a function into this library's error codes",
        "codes without error info report the string 'Unknown Error Code' from all four look-up functions (observable "
        "behaviour; the header does not spell the text)",
    ]
    ctx.mc(SPEC_DIR, "ErrorMC", "MC_thorough.cfg" if thorough else "MC.cfg", timeout=3000, xmx="8g",
           required_actions=["ErrorMC!" + a for a in ACTIONS])
    scripts, _ = tlc.gen_scripts(SPEC_DIR, "ErrorMC", "Gen.cfg", ctx.outdir, num=400 if not thorough else 4000, depth=40,
                                 seed=ctx.seed, workers=4)
    rng = random.Random(ctx.seed)
    cap = 400 if not thorough else 6000
    if len(scripts) > cap:
        scripts = rng.sample(scripts, cap)
    execs = [from_tlc(s) for s in scripts]
    ctx.extra["tlc_generated_scripts"] = len(execs)
    k = 1 if not thorough else 15
    fam = {"random": 500 * k, "handlers": 250 * k, "registry": 200 * k, "translate": 150 * k}
    for _ in range(fam["random"]):
        execs.append(random_exec(rng, rng.randint(10, 70)))
    for _ in range(fam["handlers"]):
        execs.append(handler_exec(rng))
    for _ in range(fam["registry"]):
        execs.append(registry_exec(rng))
    for _ in range(fam["translate"]):
        execs.append(translate_exec(rng))
    ctx.extra["driver_scripts"] = fam
    for ex in execs:
        ctx.evaluations += 1
        heads = [ln.split()[0] for ln in ex]
        handler = any(ln.startswith(("SETG", "SETL")) and ln.split()[2] != "0" for ln in ex)
        raised = any(h in ("RAISE", "XLAT", "XLATOR") for h in heads)
        if (handler and raised) or ("REG" in heads and "LOOKUP" in heads):
            ctx.distinct.add(hash("\n".join(ex)))
    ctx.add_sample({"script": execs[0][:14]})
    ctx.add_sample({"script": execs[len(scripts) + fam["random"]][:14]})
    ctx.add_sample({"script": execs[-1][:14]})
    # no "ERR" lines: vh_core raises those on the main thread, which would invoke the global handler under test
    pipeline.drive_and_validate(ctx, exe, execs, SPEC_DIR, "ErrorTrace", "Trace.cfg", label="error", stale_errors=0)
