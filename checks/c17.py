"""C17 memory tracer: MemTrace.tla (tracking protocol with address reuse, every interleaving) model-checked; the
real tracing allocator driven single- and multi-threaded (controlled scheduler) at all three levels; traces
validated against MemTraceAbs.tla."""
import random

from vlib import build, pipeline
from checks.c03 import ENV, rand_ops

LEVEL = "model_checking"
SPEC_DIR = "MemTrace"


def prepare(ctx):
    return build.build_harness("memtrace_scenario", ["memtrace_scenario.c"], cflags=["-Wno-unused-function"], wrap=True)


def ops_with_dump(rng, n, **kw):
    ops = rand_ops(rng, n, **kw)
    # blocks the tracer has never seen (obtained from the wrapped allocator directly, as before a tracer installed
    # "midstream"), later resized / released through it like any other block (MemTraceAbs!AcqOutside)
    if rng.random() < 0.4:
        for _ in range(rng.randint(1, 3)):
            s = rng.randrange(16)
            at = rng.randrange(len(ops) + 1)
            ops.insert(at, "U%d:%d" % (s, rng.choice([1, 16, 100, 512, 513, 5000])))
            follow = rng.choice(["R%d:%d" % (s, rng.choice([1, 64, 100, 600, 5000, 0])), "F%d" % s, "Q"])
            ops.insert(rng.randint(at + 1, len(ops)), follow)
    for _ in range(rng.choice([0, 1, 1, 2])):
        ops.insert(rng.randrange(len(ops) + 1), rng.choice(["D", "Q"]))
    return ops


def huge_scenario(rng):
    """blocks and totals beyond 4 GiB: sizes in units of 1 GiB / 256 MiB over reserved, untouched address space"""
    unit = rng.choice([1 << 30, 1 << 30, 1 << 28])
    level = rng.choice([1, 1, 2])
    lines = ["UNIT %d" % unit, "TRACER %d %d 0" % (level, rng.choice([0, 8]))]
    sizes = [1, 2, 3, 4, 5, 8, 9, 16, 17] if unit == 1 << 30 else [1, 15, 16, 17, 31, 32, 33, 48]
    ops, live = [], set()
    for _ in range(rng.randint(6, 16)):
        s = rng.randrange(6)
        r = rng.random()
        if s not in live and r < 0.7:
            ops.append("A%d:%d" % (s, rng.choice(sizes)))
            live.add(s)
        elif s in live and r < 0.5:
            ops.append("R%d:%d" % (s, rng.choice(sizes)))
        elif s in live:
            ops.append("F%d" % s)
            live.discard(s)
        if rng.random() < 0.3:
            ops.append(rng.choice(["Q", "D"]))
    lines.append("MAIN " + " ".join(ops + ["Q"]))
    return lines


def deep(rng, ops):
    """some operations performed from 300 stack frames further down (full-depth stack traces)"""
    return [("z" + o) if o[0] in "ACR" and rng.random() < 0.4 else o for o in ops]


def scenario(rng):
    if rng.random() < 0.06:
        return huge_scenario(rng)
    level = rng.choice([0, 1, 1, 2, 2])
    frames = rng.choice([0, 1, 8, 126, 127, 128, 200]) if level == 2 else rng.choice([0, 8])
    # flavour of the traced allocator: complete, or lacking realloc and/or calloc (what a user-written allocator looks like)
    lines = ["TRACER %d %d %d" % (level, frames, rng.choice([0, 0, 1, 2, 3]))]
    if rng.random() < 0.45:
        ops = ops_with_dump(rng, rng.randint(8, 34))
        lines.append("MAIN " + " ".join(deep(rng, ops) if level == 2 and frames >= 100 else ops))
        return lines
    lines.append("MAIN " + " ".join(ops_with_dump(rng, rng.randint(0, 8))))
    for k in range(1, rng.randint(2, 3) + 1):
        tops = rand_ops(rng, rng.randint(4, 12), nslots=5, fill_heavy=True)
        if rng.random() < 0.35:                      # a dump while the other threads allocate and release
            tops.insert(rng.randrange(len(tops) + 1), "D")
        lines.append("THREAD %d %s" % (k, " ".join(tops)))
    lines.append("POST " + " ".join(ops_with_dump(rng, rng.randint(1, 6))))
    return lines


CORE = [
    ["TRACER 1 0", "THREAD 1 A0:8 R0:16 F0", "THREAD 2 A0:4 F0 A0:2"],
    ["TRACER 2 4", "MAIN A0:10", "THREAD 1 A0:8 F0", "THREAD 2 A0:8 R0:100 R0:0", "POST D Q"],
    ["TRACER 1 0", "THREAD 1 A0:8 F0 A0:8 F0", "THREAD 2 A0:8 F0", "THREAD 3 A0:8 R0:8"],
]
# sequential, deterministic: stack traces of the maximum depth taken from deep call stacks; totals beyond 4 GiB
EXTRA = [
    ["TRACER 2 128 0", "MAIN zA0:100 zC1:3x7 zR0:300 Q D zA2:9 F0 zR1:0 F2 Q"],
    ["TRACER 2 1000 0", "MAIN zA0:64 zA1:64 Q zR1:10 D F0 F1 Q"],
    ["TRACER 2 127 0", "MAIN zA0:100 zR0:5000 F0 Q"],
    ["UNIT 1073741824", "TRACER 1 0 0", "MAIN A0:4 A1:1 Q R0:1 Q R1:9 Q F1 Q A2:3 F0 F2 Q"],
    ["UNIT 1073741824", "TRACER 2 8 0", "MAIN A0:5 Q D R0:2 A1:4 Q F0 F1 Q"],
]


def generations(rng):
    """one component restarted two or three times: allocate at one call site, dump, release, destroy the tracer and create the
    next one (run with the allocator's quarantine switched off, so that the new tracer may get the old one's address)"""
    level = rng.choice([1, 2, 2, 2])
    lines = ["TRACER %d %d 0" % (level, rng.choice([4, 8, 16]))]
    ops = []
    for _g in range(rng.randint(2, 4)):
        k = rng.randint(1, 3)
        ops += ["A%d:%d" % (i, rng.choice([16, 64, 100])) for i in range(k)] + ["Q", "D"]
        ops += ["F%d" % i for i in range(k)] + ["Q", "N"]
    ops += ["A0:64", "D", "Q"]
    lines.append("MAIN " + " ".join(ops))
    return lines


def run(ctx):
    thorough = ctx.tier == "thorough"
    exe = prepare(ctx)
    ctx.rule = ("execution = acquire/calloc/realloc (grow, shrink, same, to zero)/release/dump/query history through one "
                "tracer (level off/bytes/stacks, stack depths 0..200), single-threaded or 2-3 threads under a controlled "
                "schedule; distinct = distinct (scenario, schedule policy); non-trivial = contains a realloc or a release")
    ctx.assumptions += [
        "sequentially consistent serialised execution for the multi-threaded scenarios",
        "byte total and count are compared at quiescent points (no call in progress on another thread); during "
        "concurrent phases only memory behaviour (contents, zeroing) is checked",
        "leak check by LeakSanitizer after the tracer is destroyed",
        "blocks of gigabytes are reserved address space that nobody touches (no content checks there); their sizes and the "
        "totals reach the model divided by the unit (1 GiB / 256 MiB)",
    ]
    ctx.mc(SPEC_DIR, "MCMemTrace", "MC.cfg", timeout=900, xmx="4g",
           required_actions=["MemTrace!Next"] if False else [])
    rng = random.Random(ctx.seed)
    blocks = []
    budget, bound = (200, 2) if not thorough else (3000, 3)
    for sc in CORE:
        blocks.append(("dfs %d %d" % (budget, bound), sc))
    for sc in EXTRA:
        blocks.append(("fixed -", sc))
    nrand = 600 if not thorough else 12000
    for _ in range(nrand):
        sc = scenario(rng)
        pol = rng.choice(["pct %d 2 80", "pct %d 3 150", "rand %d", "fixed -"])
        pol = pol % rng.randrange(1, 10 ** 6) if "%d" in pol else pol
        blocks.append((pol, sc))
    for pol, sc in blocks:
        ctx.distinct.add(hash(pol + "|" + "\n".join(sc)))
    ctx.add_sample({"policy": blocks[1][0], "scenario": blocks[1][1]})
    ctx.add_sample({"policy": blocks[-1][0], "scenario": blocks[-1][1]})
    rng.shuffle(blocks)
    n, acc = pipeline.drive_vsched(ctx, exe, blocks, SPEC_DIR, "MemTraceTrace", "Trace.cfg", label="mt", env=ENV)
    # tracer generations: the sanitizer's quarantine is switched off for these executions, so that released blocks - the
    # destroyed tracer among them - are handed out again at once, as an ordinary allocator does
    gens = [("fixed -", generations(rng)) for _ in range(16 if not thorough else 300)]
    for pol, sc in gens:
        ctx.distinct.add(hash(pol + "|" + "\n".join(sc)))
    genv = dict(ENV)
    genv["ASAN_OPTIONS"] = ENV["ASAN_OPTIONS"] + ":quarantine_size_mb=0:thread_local_quarantine_size_kb=0"
    n3, _a3 = pipeline.drive_vsched(ctx, exe, gens, SPEC_DIR, "MemTraceTrace", "Trace.cfg", label="mtgen", env=genv)
    n += n3
    # data-race scan on the ThreadSanitizer build (what a serialising scheduler cannot see)
    scan = [b for b in blocks if not b[0].startswith("dfs")][: (120 if not thorough else 1500)]
    pipeline.race_scan(ctx, "memtrace_scenario", "memtrace_scenario.c", scan)
    ctx.evaluations += n
    ctx.distinct_extra += max(0, n - len(blocks))
    ctx.extra["executions"] = n
