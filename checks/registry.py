"""Single source of truth for MANIFEST.json (tools/gen_manifest.py). A property is claimed iff it appears in
CLAIMED; everything else is listed under not_applicable with its reason."""

CLAIMED = {
    "C15": {
        "level": "model_checking",
        "text": "TLC explores every interleaving of the releaser's tail store with the acquirer's load/load/store/store "
                "for both acquire forms on rings of 1..6 (thorough: 1..8) bytes with up to 4 outstanding buffers and checks "
                "no-overlap / in-range / exact-size / must-succeed-when-idle / quiescent head=tail in every state; the real "
                "aws_ring_buffer is then driven along TLC-generated and seeded random interleavings (releases performed "
                "inside the atomic schedule-point hook) and TLC validates the offsets it actually returned against the "
                "property-level specification.",
        "note": "Sequential consistency of the two atomics; bounded ring sizes in the exhaustive model; the code is covered "
                "only along the replayed executions (~2k quick / ~60k thorough), not proved. Trusted: TLC, the adapter's "
                "projection (offset = pointer - allocation), ASan.",
        "technique": "TLA+ spec (RingBuffer.tla) model-checked with TLC + trace validation of real executions (RingBufferTrace.tla)",
        "design_ref": "DESIGN.md section 5 C15, 4.4",
    },
}

CLAIMED["C06"] = {
    "level": "model_checking",
    "text": "PQ.tla states the property itself (multiset of (value, identity, handle); pop/top return a minimum, ties free; "
            "remove-by-handle removes exactly that element; stale handles refused; static capacity refused). TLC explores all "
            "operation sequences over 3 values / 3-4 handles / 5-6 pushes (both storage modes) checking handle/identity "
            "invariants, generates operation scripts by simulation, and validates every event of ~1.8k (quick) / ~38k "
            "(thorough) executions of the real aws_priority_queue (element sizes 1..300 around the 128-byte swap slice) "
            "against the specification, including size, in-queue flag and current_index of every handle after each call.",
    "note": "Code is covered along the executed scripts only. Trusted: TLC, the adapter's projection (value = first byte, "
            "identity = next two bytes, payload pattern check), ASan, comparator on the first byte. A static queue may or may "
            "not accept handles (documented as unsupported); allocation failure paths are unreachable (aws_mem_acquire aborts).",
    "technique": "TLA+ spec (PQ.tla) model-checked with TLC; TLC-generated + random scripts replayed on the real queue; trace validation (PQTrace.tla)",
    "design_ref": "DESIGN.md section 5 C06",
}
CLAIMED["C08"] = {
    "level": "model_checking",
    "text": "Two layers. ThreadSched.tla transcribes thread_scheduler.c step by step (lock+swap, unlock, process, timed wait with "
            "predicate, notify, store-exit / notify-all / join / drain / clean-up) and TLC checks exactly-once, run-only-on-"
            "scheduler-thread, never-early, thread-gone-at-close, no-leak in every interleaving of 1-2 clients with the "
            "scheduler thread and the clock, plus liveness of the final release under fairness. The real library is then "
            "executed under a controlled scheduler (every pthread mutex/condvar/create/join, atomic and clock operation is a "
            "schedule point; virtual time; one forked child per execution): systematic bounded-preemption exploration of core "
            "scenarios plus PCT/random schedules of random 1-3 client scenarios, ~3.4k executions quick / ~60k thorough; TLC "
            "validates each execution's user-visible event trace against ThreadSchedAbs.tla (the property). Deadlock, hang "
            "(1 virtual hour with no runnable thread), crash, leak and unjoined thread are violations.",
    "note": "Sequentially consistent serialised execution (data races on plain memory and weak-memory effects are invisible); no "
            "spurious wake-ups; bounded schedules (preemption bound 2/3 + random). Trusted: the vsched interposition layer, TLC.",
    "technique": "TLA+ specs (ThreadSched.tla impl-shaped, ThreadSchedAbs.tla abstract) + TLC; controlled-scheduler executions of the real code validated by TLC (ThreadSchedTrace.tla)",
    "design_ref": "DESIGN.md section 4.4, 5 C08",
}

CLAIMED["C05"] = {
    "level": "model_checking",
    "text": "Codec.tla defines base64 (strict RFC 4648), hex and the incremental UTF-8 machine as pure operators; TLC "
            "exhaustively checks round trip, canonical form, length predictions and UTF-8 chunking invariance (every split into "
            "<= 3 chunks; machine = table of well-formed sequences) on alphabets of 4-14 byte values, lengths <= 4-8. Every call "
            "of the real functions on enumerated vectors (lengths 0..100, every byte value at each position of the final quantum "
            "x padding shape, capacity need+-1 x pre-existing length 0/1/5, malformed texts, seeded random, all 2-chunkings and "
            "sampled 3-chunkings) is recorded in two processes (AWS_COMMON_AVX2=0/1) and TLC validates each event against the "
            "same definitions, which also gives path independence.",
    "note": "Exhaustive on the model only; the code is covered on ~19k calls per CPU path (quick). 'Bytes written' is observed "
            "through a canary fill. Code points above U+10FFFF and append-vs-overwrite are left open. Needs an AVX2 host for the "
            "vector path. Trusted: TLC, adapter projection, ASan. Found F4 and F7 (both repaired by fix: commits).",
    "technique": "TLA+ spec (Codec.tla) model-checked with TLC + trace validation of real calls on both CPU paths (CodecTrace.tla)",
    "design_ref": "DESIGN.md section 5 C05",
}
CLAIMED["C16"] = {
    "level": "exploration",
    "text": "Checked and saturating add/mul/sub (u32/u64/size_t), power-of-two, clz/ctz, min/max and timestamp conversion are "
            "defined on unbounded naturals (Wide.tla: base-2^15 limbs; quotients are checked by multiplication, never computed). "
            "TLC checks exhaustively at 6-bit words that the definitions equal integer mathematics and that the transcribed "
            "portable algorithms compute them. Every helper of every implementation variant (build dispatch, fallback, "
            "gcc_overflow, x64 asm, gcc_builtin, compiled side by side) is then evaluated on the boundary set {0,1,2^k-1,2^k,"
            "2^k+1,MAX-1,MAX,floor(MAX/b),floor(MAX/b)+1,...} plus seeded random operands, across the four timestamp units and "
            "frequencies <= 1e9, and TLC validates each reported result against the definitions.",
    "note": "Enumerated operand set only (TLC is the oracle, not a state-space search over the code). Float/double min/max not "
            "covered; the remainder for non-multiple frequencies accepts 0 or untouched (header and code disagree). Trusted: the "
            "adapter's 15-bit limb split.",
    "technique": "TLA+ definitions (MathClock.tla, Wide.tla) model-checked at reduced width; TLC as oracle over recorded evaluations of every variant (MathClockTrace.tla)",
    "design_ref": "DESIGN.md section 5 C16, 4.5",
}
CLAIMED["C20"] = {
    "level": "model_checking",
    "text": "ManagedThreads.tla transcribes the managed-thread join protocol (count under lock, pending-join list swap, lazy join "
            "of the predecessor, join_all loop with its count<=1 predicate) and TLC checks, for every completion order of 3-4 "
            "threads including nested launches: join_all returns only when every thread exited and was joined exactly once and "
            "count=0, no self/double join, no deadlock, and liveness under fairness. The real aws_thread code runs under the "
            "controlled scheduler (bounded-preemption systematic exploration of core scenarios + PCT/random schedules of random "
            "scenarios with manual and managed threads, nested launches and at-exit registrations); TLC validates each trace "
            "against ThreadsAbs.tla: function once with its argument on its own thread, callbacks once in reverse order on that "
            "thread before join returns, join_all only after everything finished, count zero, no leak, no unjoined OS thread.",
    "note": "Sequentially consistent serialised execution, no spurious wake-ups, bounded schedules. Trusted: vsched layer, TLC.",
    "technique": "TLA+ specs (ManagedThreads.tla impl-shaped, ThreadsAbs.tla abstract) + TLC; controlled-scheduler executions validated by TLC (ThreadsTrace.tla)",
    "design_ref": "DESIGN.md section 4.4, 5 C20",
}

CLAIMED["C01"] = {
    "level": "model_checking",
    "text": "ByteBuf.tla models buffers as byte sequences under a capacity and cursors as (base, offset, len) views; TLC explores all call "
            "sequences over 2 buffers x 2 cursors, capacities 0..3 and sizes at/next to SIZE_MAX/2 and SIZE_MAX (depth 4 quick, 6 thorough) "
            "checking len<=cap, failure-changes-nothing, written-prefix-kept and capacity-monotone on every transition; TLC-generated and seeded "
            "random scripts (exact-fit, one-short, zero-length, NULL views, huge sizes, self-append, write from a cursor into the destination) are "
            "executed on the real API and ByteBufTrace.tla validates every result and the full observable state after every call "
            "(len, cap, NULL flag, bytes [0,len), each cursor's base/offset/len, zeroing of released blocks for the secure variants).",
    "note": "Symbolic size map (n, HALF+-d, MAX-d) assumes capacities <= 64; growth policy left open (cap' >= required); error codes checked only "
            "where the header documents them; allocation-failure paths unreachable; code covered only along replayed executions (~2.1k quick / ~48k "
            "thorough). Trusted: TLC, adapter projection (pointer arithmetic against known bases), ASan on exact-size blocks, vh_alloc release inspection. "
            "F8 (advance_nospec at len SIZE_MAX>>1) found and fixed; its regression script runs in every check.",
    "technique": "TLA+ spec (ByteBuf.tla) model-checked with TLC + trace validation of real executions (ByteBufTrace.tla)",
    "design_ref": "DESIGN.md section 5 C01, 4.5",
}
CLAIMED["C07"] = {
    "level": "model_checking",
    "text": "TaskSched.tla states exactly-once invocation per schedule, never early, run-now FIFO then timed non-decreasing, tasks scheduled "
            "inside a task wait for the next run_all, has_tasks equals the earliest pending time (0 / UINT64_MAX cases), clean_up cancels "
            "everything. TLC checks these for all call sequences with re-entrant task functions on the bounded model (3 tasks, 3 times, <= 4 "
            "schedules, nested schedule/cancel chains). The real aws_task_scheduler is driven by TLC-generated and random programs whose task "
            "functions call back into the scheduler from inside the callback (schedule, re-schedule self, cancel incl. tasks in the current "
            "batch); TLC validates the flat event stream (RunAllBegin / Invoked / nested calls / RunAllEnd, HasTasks, CleanUp).",
    "note": "Bounded model; ~4k executions quick. Equal-time order and the order of CANCELED invocations in clean_up are open. The timed_list "
            "overflow path is unreachable (allocation aborts). has_tasks/run_all/clean_up are never called from inside callbacks.",
    "technique": "TLA+ spec (TaskSched.tla) model-checked with TLC + trace validation of real executions (TaskSchedTrace.tla)",
    "design_ref": "DESIGN.md section 5 C07",
}
CLAIMED["C09"] = {
    "level": "model_checking",
    "text": "ArrayList.tla and LinkedList.tla are the reference sequences (static storage refuses growth, overflowing index refused, growth "
            "factor open). TLC explores all operation sequences over two small lists / two node lists. The real aws_array_list (element sizes "
            "{1,2,8,127,128,129,300}, initial allocation 0/1/3/4, static lists over exact-size malloc storage under ASan) and aws_linked_list "
            "(6 nodes) are driven by TLC-generated and seeded random scripts; TLC validates after every call all elements, length, capacity, "
            "and forward and backward walks with next/prev flags.",
    "note": "Bounded model (<= 3 elements / 5 nodes quick). Code covered along ~5k replayed executions. Memory safety observed by ASan, not "
            "proved. Leaks are not part of the statement: a shrink_to_fit leak on an empty dynamic list is recorded as a side finding only.",
    "technique": "TLA+ specs (ArrayList.tla, LinkedList.tla) model-checked with TLC + trace validation of real executions",
    "design_ref": "DESIGN.md section 5 C09",
}
CLAIMED["C14"] = {
    "level": "model_checking",
    "text": "LogChannel.tla transcribes the background channel (send critical section, background thread wait/snapshot/swap/write loop, "
            "clean-up finished+notify+join) and TLC checks in every interleaving of 2-3 producers: each line written exactly once, per-"
            "producer order, flushed at clean-up, nothing after, no deadlock, clean-up returns (fairness). The real pipeline logger (standard "
            "formatter + foreground/background channel + recording writer) runs under the controlled scheduler (bounded-preemption "
            "exploration of core scenarios + PCT/random schedules; level changes; 0-3 producer threads) and the fixed-buffer formatter and "
            "no-alloc logger are called with buffers from 2 bytes to ample and messages from 0 to 60000 bytes, all filter x level pairs; TLC "
            "validates every event against LogAbs.tla: level gate, exactly one complete newline-terminated NUL-free line per accepted call, "
            "per-thread order, foreground writes synchronous on the caller's thread, cut lines inside the buffer and newline-terminated.",
    "note": "SC serialised execution, no spurious wake-ups, bounded schedules; level changes only while no call is in progress; the line "
            "analysis (whose line, complete?) is the adapter's projection. Found F1 (fixed).",
    "technique": "TLA+ specs (LogChannel.tla impl-shaped, LogAbs.tla abstract) + TLC; controlled-scheduler executions validated by TLC (LogTrace.tla)",
    "design_ref": "DESIGN.md section 4.4, 5 C14",
}
CLAIMED["C18"] = {
    "level": "model_checking",
    "text": "LinkedHash.tla is the ordered map with exactly-once destruction of displaced keys and values; Cache.tla the three policies over "
            "it. TLC checks never-overfull, retains-the-inserted-entry and the policy victim against an independent use-history for all "
            "operation sequences on the bounded model. The real aws_linked_hash_table and FIFO/LIFO/LRU aws_cache are driven by TLC-generated "
            "and seeded random scripts with equal-but-distinct key objects, three hash functions and optional destructors; TLC validates the "
            "iteration list, the count and the destructor counters after every call.",
    "note": "Bounded model (3 classes x 2 key objects, max <= 2 quick / 3 thorough); ~3.1k executions quick; observation via the public "
            "iteration list only (no extra finds on an LRU cache).",
    "technique": "TLA+ specs (LinkedHash.tla, Cache.tla) model-checked with TLC + trace validation of real executions",
    "design_ref": "DESIGN.md section 5 C18",
}

CLAIMED["C03"] = {
    "level": "model_checking",
    "text": "SbaBin.tla transcribes one size class (LIFO free list, working-page cursor, active pages, alloc counts, purge of a page's "
            "chunks when it is given back) and TLC checks for every acquire/release history (2-3 chunks per page, 4-5 pages): live chunks "
            "distinct, never on the free list, never in a returned page, counts exact, only the working page kept when idle. The real "
            "allocator is then driven through acquire/calloc/realloc/release histories with sizes around every class boundary and "
            "page fill/drain/refill cycles in the real geometry, single-threaded and with 2-3 threads under the controlled scheduler "
            "(bounded-preemption exploration + PCT/random; allocation calls are schedule points); every block is filled with a "
            "pattern over its requested size and all blocks are re-verified after every operation. TLC validates each trace against "
            "Sba.tla: alignment, no overlap with any live block, contents intact, realloc prefix kept, bytes_active = sum of classes "
            "of live small blocks, <= 5 pages reserved when nothing small is live, nothing left after destroy (LeakSanitizer).",
    "note": "SC serialised execution (races on plain memory invisible); byte counts compared at quiescent points only; overlap judged "
            "per 4096-byte page on the requested size. Trusted: vsched, adapter's page-ordinal map, ASan/LSan, TLC.",
    "technique": "TLA+ specs (SbaBin.tla impl-shaped, Sba.tla abstract) + TLC; controlled-scheduler executions validated by TLC (SbaTrace.tla)",
    "design_ref": "DESIGN.md section 5 C03",
}
CLAIMED["C17"] = {
    "level": "model_checking",
    "text": "MemTrace.tla transcribes the tracking protocol (atomic add, table update under the lock, untrack before the address is "
            "given back, track after it is obtained) over an inner allocator that recycles addresses; TLC checks in every interleaving "
            "of two threads that the table only holds live addresses and that bytes/count are exact at quiescence. The real tracer "
            "(levels off/bytes/stacks, stack depths 0..200) is driven through acquire/calloc/realloc(grow, shrink, same, to zero)/"
            "release/dump histories, single-threaded and with 2-3 threads under the controlled scheduler, over a harness allocator "
            "that deliberately reuses addresses; TLC validates each trace against MemTraceAbs.tla: bytes = sum of requested sizes "
            "and count = number of live blocks at every quiescent point (zero at level off and after everything is released), dump "
            "changes nothing, contents kept across realloc, calloc zeroed, wrapped allocator returned by destroy, no leak.",
    "note": "SC serialised execution; counts compared at quiescent points only (a concurrent query may see a call half done). "
            "Trusted: vsched, harness allocator, ASan/LSan, TLC.",
    "technique": "TLA+ specs (MemTrace.tla impl-shaped, MemTraceAbs.tla abstract) + TLC; controlled-scheduler executions validated by TLC (MemTraceTrace.tla)",
    "design_ref": "DESIGN.md section 5 C17",
}

CLAIMED["C02"] = {
    "level": "model_checking",
    "text": "TLC checks that an implementation-shaped model of hash_table.c (Robin Hood probing with early exit, victim swapping, doubling "
            "rehash, backward-shift deletion, iterator slot/limit arithmetic, foreach) refines an abstract map (key objects, values, destructor "
            "bags, exactly-once iteration) on the complete reachable state space for every hash function over small code sets (4-slot, 2->4->8 "
            "growing and 8-slot clustered arrays; NULL key; with/without destructors); the real aws_hash_table is then driven, through a "
            "table-driven hash callback carrying model-chosen and adversarial 64-bit codes (constant, last slot, zero, UINT64_MAX, colliding-"
            "until-growth) and through the library's own hash/equality pairs, along TLC-generated and seeded random scripts on two table "
            "structs, and TLC validates every recorded result, destructor invocation, entry count and a find of every key class after every "
            "call against the abstract map; equal-but-distinct key pairs check eq => same hash for all six library pairs.",
    "note": "Model exhaustive only for <=5 key classes / <=16 slots; code covered along ~2.4k (quick) / ~52k (thorough) replayed executions, "
            "not proved. OOM and near-SIZE_MAX sizes excluded; foreach DELETE-without-CONTINUE accepted either way (header ambiguous). "
            "Trusted: TLC, adapter projection (pointer->object id), ASan.",
    "technique": "TLA+ specs HashMap.tla (abstract) + RobinHood.tla (implementation-shaped, refinement checked by TLC) + trace validation of real executions (HashMapTrace.tla)",
    "design_ref": "DESIGN.md section 5 C02",
}

CLAIMED["C04"] = {
    "level": "exploration",
    "text": "Parsers.tla states what every parser call must report whatever the bytes: a verdict through the documented channel (AWS_OP_ERR with "
            "a registered error code / NULL / false) and every returned view inside the input. TLC enumerates all token-class strings of 11 "
            "structural alphabets (449k quick / 5.1M thorough; XML <=5/6 tokens) - the state space is the input family. The driver adds token "
            "mutations of well-formed documents, nesting/length/count limits, NULL/0 and seeded random bytes. ~0.8M (quick) / ~8.7M (thorough) "
            "calls of 15 parsers (XML, JSON, CBOR, URI + query, percent-decoding, date-time, base64, hex, UTF-8, UUID, IPv4/6, u64) run on "
            "exact-size heap copies under ASan with a per-input watchdog, and TLC validates every recorded call. A crash, sanitizer report or "
            "time-out is a missing event = violation, reproduced in isolation.",
    "note": "Memory safety is observed on the executed inputs, not decided: the technique contributes the input families and the verdict-"
            "channel/view oracle. Reads inside the input block and intra-object overflows are invisible. Which inputs are accepted is "
            "judged by C05, C10-C13, C19. No UBSan. Found F5 (repaired).",
    "technique": "TLA+ input enumeration + verdict-channel/view specification (ParsersMC/Parsers.tla), TLC trace validation of real parser calls (ParsersTrace.tla), ASan/watchdog at run time",
    "design_ref": "DESIGN.md section 5 C04",
}
CLAIMED["C10"] = {
    "level": "model_checking",
    "text": "Cbor.tla defines Enc (shortest head), an independent RFC 8949 reader DecAll, Narrow/Widen on IEEE-754 bit fields and SkipItem, plus "
            "the decoder state machine. TLC checks round trip, skip agreement and lossless narrowing over all sequences <= 4 (thorough 5) of 19 "
            "items, the decoder machine and 600 field-pattern doubles (cross-checked against a 76-row table of boundary doubles). ~3.2k encoder "
            "programs (strings of length 0/23/24/255/256/300/65536 across the encoder's growth points, nesting to depth 8, tags, indefinite "
            "containers) are run through the real encoder and decoder (peek/pop, consume whole item / single element, remaining length) and "
            "TLC validates ~120k calls: bytes = EncAll(items), decoded = written, skip advances past exactly one item.",
    "note": "The independent decoder is the spec; 'smallest form' follows cbor.h (integer / single / double); half floats not covered; NaN payload "
            "and sign not compared; code covered on executed programs only. Trusted: TLC, adapter projection, ASan.",
    "technique": "TLA+ spec (Cbor.tla) model-checked with TLC + trace validation of real encoder/decoder calls (CborTrace.tla)",
    "design_ref": "DESIGN.md section 5 C10",
}
CLAIMED["C11"] = {
    "level": "model_checking",
    "text": "JsonValue.tla holds value trees, an RFC 8259 parser written in TLA+ (the independent reader: escapes, surrogate pairs, numerals - never "
            "floating point), a reference renderer and the object/array API as a state machine. TLC explores 3 slots, 2 keys, <= 4 nodes (thorough "
            "5) and checks a parse table against Python's json module. ~2.2k executions build trees through the API or parse texts, serialise "
            "compact and formatted, re-parse, duplicate and compare (incl. nesting depth 1000); TLC validates that Parse(text) = tree, member "
            "order, strings byte for byte, numerals, and add/get/has/remove/index coherence.",
    "note": "Doubles are compared as %.15g / %.17g numerals (trusted projection); the 'one part in 2^52' clause is numeric accuracy, computed in C "
            "and only required true by the spec (outside the technique). Case-variant keys, NUL and non-finite numbers excluded. Found F10, F11 "
            "(repaired).",
    "technique": "TLA+ spec (JsonValue.tla incl. RFC 8259 parser) model-checked with TLC + trace validation (JsonValueTrace.tla)",
    "design_ref": "DESIGN.md section 5 C11",
}
CLAIMED["C12"] = {
    "level": "model_checking",
    "text": "Xml.tla defines element trees, Render and Expected(tree, program) = the sequence of callback observations (depth, name, attributes, "
            "body) + every traverse result + verdict, with the depth/name/attribute limits. XmlImpl.tla transcribes xml_parser.c. TLC checks "
            "Impl = Expected for all trees of <= 5 elements, height <= 3 (thorough: height 4 and decorated trees), names {a, ab, b} x all "
            "callback programs {descend, body, skip, abort} x max_depth. ~8.4k (quick) / ~66k (thorough) TLC-enumerated and driver-generated "
            "documents x programs are parsed by the real aws_xml_parse with a scripted callback (depth 19/20/21 and user max_depth, names "
            "254..700, 0..20 attributes, '=' in values, 3 kB text, preambles, truncations). TLC re-renders each tree and validates every "
            "callback invocation against Expected.",
    "note": "Dialect as in the statement; self-closing tags, entities, CDATA, attribute values with spaces not covered. Descend at a leaf exactly "
            "at max_depth and error codes are left open. Code covered on the executed documents only. Found F6 and F12 (repaired).",
    "technique": "TLA+ specs (Xml.tla abstract, XmlImpl.tla implementation-shaped) compared by TLC + trace validation of real traversals (XmlTrace.tla)",
    "design_ref": "DESIGN.md section 5 C12",
}
CLAIMED["C13"] = {
    "level": "model_checking",
    "text": "Uri.tla gives, as a function of the components (scheme, user/password, plain or bracketed host, port digits, path, query items), the "
            "views a parse of the assembled text must report, the builder's parse-back, query iteration = non-blank items in order = list form, "
            "and Enc/Dec as closed forms on bytes. TLC checks slices/delimiters/injectivity of Text on ~14k (quick) / 307k (thorough) component "
            "combinations, the item reading on all 821 item sequences, and Dec(Enc(x))=x, alphabet and scanner equivalence on all byte strings "
            "up to length 3 (4) over 9 symbols. ~70k calls of aws_uri_init_parse / init_from_builder_options / query iterators / encoders / "
            "decoder on TLC-enumerated and seeded random inputs are validated event by event (bytes, inside-own-copy, port incl. > 2^32-1 "
            "refused, output starting lengths 0/1/7).",
    "note": "Exhaustive on the model only; scheme-less ':/' texts (ambiguous grammar) and hollow URIs left open; which occurrence of equal bytes "
            "a view points at is not compared. Trusted: TLC, adapter projection (ptr - uri_str.buffer), ASan. Found F9 (repaired).",
    "technique": "TLA+ spec (Uri.tla) model-checked with TLC + trace validation of real calls (UriTrace.tla)",
    "design_ref": "DESIGN.md section 5 C13",
}
CLAIMED["C19"] = {
    "level": "model_checking",
    "text": "DateTime.tla defines the proleptic Gregorian calendar arithmetically, the six output formats, the rendering of foreign date-times "
            "(designators, offsets, fractions) and the instant they denote. TLC checks on every day of ~60 years (quick) / of 1970-9999 (thorough, "
            "3.0M states) that the conversions are inverse, in range, agree with leap rule and month lengths day after day, and that offsets "
            "invert. All 12.4k TLC-chosen month boundaries, leap days and extremes plus random instants are formatted and parsed back (explicit "
            "format and auto-detect) by the real library under TZ=UTC and ~470k calls are validated, including every accessor and epoch view.",
    "note": "Local time beyond TZ=UTC, two-digit years, weekday-less RFC 822 and nanoseconds past 2554 not covered. Mixed-radix projection in the "
            "adapter is trusted. Known finding F13 (RFC 822 date-only text not parseable; pinned by the repository's own tests) is listed in "
            "known_findings.txt: the check prints one KNOWN-FINDING line and exits 0.",
    "technique": "TLA+ spec (DateTime.tla) model-checked with TLC + trace validation (DateTimeTrace.tla)",
    "design_ref": "DESIGN.md section 5 C19",
}

NOT_YET = "check not built yet (work in progress in this session; see DESIGN.md section 8 build order)"
NOT_APPLICABLE = {}
ALL = ["C%02d" % i for i in range(1, 21)]

# ---- coverage added after the second round of independently written changes (DESIGN 10.6, 12) -------------------
_ADDED = {
    "C02": " Extension: aws_hash_table_eq under three value comparators on table pairs in every relation (different hash "
           "functions, sizes, insertion orders); tables owning aws_strings through aws_hash_callback_string_destroy with "
           "destruction observed at the allocator; aws_hash_table_is_valid / aws_hash_iter_is_valid after every call; no "
           "allocation by put/create while the table holds fewer entries than it held before (clear keeps storage); "
           "aws_hash_combine functional; C-string / aws_string / cursor hashes agree.",
    "C05": " Every chunking also runs through an incremental decoder created without a code point callback (same verdicts, "
           "no code points), and texts with a foreign byte inserted inside a well-formed sequence are included.",
    "C11": " One family parses texts with 1100 sibling containers of each kind (beyond the parser's nesting limit) in one call.",
    "C14": " Log subjects with names of 1 to 300 characters (and an unregistered one), both date formats, bursts of 20-90 "
           "lines from 2-3 threads while batches are being written, the standard logger (aws_logger_init_standard: file "
           "writer, by file name and by stream; lines read back after clean-up), level names <-> levels, and log calls "
           "with no logger installed are covered by the same specification.",
    "C15": " A second harness runs acquirer and releaser as two real threads under the controlled scheduler (the owner fills "
           "each buffer through the byte_buf writer, the releaser checks the content before releasing; RingBufferVsTrace.tla, "
           "same property-level rules plus content integrity), followed by a ThreadSanitizer data-race scan of it.",
    "C16": " Every saturating helper is evaluated in four usage contexts per call (the helpers are inline: builtins or inline "
           "assembly), and the arithmetic lines also run on the release build (gcc -O2 -DNDEBUG).",
    "C17": " The traced allocator comes in four flavours (with/without mem_realloc x with/without mem_calloc).",
    "C18": " Without a value destructor values may repeat, be the object already stored, or be NULL (MCPutAgain in both models).",
    "C19": " A third of the executions re-run under three other process time zones; foreign RFC 822 texts come with and "
           "without the optional week day; 2-3 threads round-trip date-times of their own under the controlled scheduler "
           "(DateTimeVsTrace.tla) with a ThreadSanitizer data-race scan.",
    "C20": " Threads are also launched pinned to an existing / a non-existent cpu (the library retries unpinned) and named; "
           "the detach state reported after launch must match the join strategy; aws_thread_call_once from several threads "
           "(function exactly once per flag, no call returns before it completed; pthread_once is modelled by the scheduler), "
           "thread ids, names and aws_thread_current_sleep against the virtual clock are part of the same specification.",
}
for _k, _t in _ADDED.items():
    CLAIMED[_k]["text"] += _t

# ---- coverage added after the third round of independently written changes (DESIGN 10.8, 12) --------------------
_STATELESS = (" The parser is also run by 2-3 real threads at once on inputs of their own under the controlled scheduler and then "
              "by the main thread alone: an operation has one outcome whoever performs it (Stateless.tla, StatelessMC.tla refutes "
              "a shared scratch area), with a ThreadSanitizer pass over the same scenarios.")
_ADDED3 = {
    "C01": " BigBuf.tla covers the growing / copying calls on buffers of kilobytes to tens of megabytes (contents as maximal "
           "runs <<value, count>>, sizes 4 KiB .. 12 MiB around powers of two, appends far beyond the capacity, self-append "
           "across a reallocation): same contract, model-checked over all call sequences in units, ~120 executions per quick run.",
    "C03": " A hand-over family lets main fill whole pages partly in worker-owned slots and the workers release the last blocks of "
           "those retired pages while others use the class; pages the library gave back are kept poisoned (a second give-back "
           "ends the execution).",
    "C04": _STATELESS,
    "C05": " Every sequence also runs behind a UTF-8 byte-order mark and the UTF-16/32 marks; 2-3 threads encode / decode "
           "buffers of their own at once on both CPU paths (CodecVsTrace.tla) with a ThreadSanitizer data-race scan.",
    "C06": " Every family runs under three comparator shapes (-1/0/+1, 'a > b' as the library's task scheduler passes, a scaled "
           "difference); a re-sift family removes handles whose element's replacement has to travel, buries it under pushes "
           "and drains the queue completely.",
    "C08": " Clients sleep while tasks are outstanding, hand task objects over again after their function ran (no second "
           "aws_task_init) and park tasks at UINT64_MAX / now + 2^63; ThreadSchedAbs!Idle demands that at a quiescent moment "
           "(every thread blocked, virtual clock never advanced under a runnable thread) no task whose time has come is still "
           "waiting.",
    "C10": " Truncated containers declare counts up to 2^64-1; one decoder skips 600-1100 (thorough 4200) small items of one "
           "shape." + _STATELESS,
    "C11": " Complete near-miss key families (non-letter bytes differing only in bit 5, a key and its prefix, last-byte and "
           "high-bit variants) are drawn into objects and API programs." + _STATELESS,
    "C12": _STATELESS,
    "C13": _STATELESS,
    "C14": " Each line's timestamp text must have the shape of the date format its logger / formatter call was configured with "
           "(LogAbs!TsShape; two formats alternate on one thread); the recording writer can be told to fail every n-th write.",
    "C15": " Requests of 4 GiB, 2^63 and SIZE_MAX in both forms, and rings of gigabytes (sizes, requests and offsets in units of "
           "256 MiB / 1 GiB over reserved address space) whose head and tail are more than 2^31 / 2^32 bytes apart.",
    "C16": " One operand a compile-time constant: 8 constants x both sides, one out-of-line function per variant / operation / "
           "width / constant / side, in the sanitizer and the release-configuration build (found F28).",
    "C17": " Operations performed 300 stack frames further down with frames_per_stack 126..1000 (maximum-depth traces), and blocks "
           "and totals beyond 4 GiB (sizes in units of 1 GiB / 256 MiB, the traced allocator only reserves address space).",
    "C20": " aws_thread_set_managed_join_timeout_ns: a bounded join-all succeeds only when everything is joined (by about its "
           "deadline) and gives up only with a bound in force and never before it has elapsed.",
}
for _k, _t in _ADDED3.items():
    CLAIMED[_k]["text"] += _t


# round-4 additions (DESIGN 10.9)
_LOCALE = (" A slice of the same executions runs again in a process that selected a private non-C locale with setlocale() "
           "(lib/vlib/locale8.py: 8-bit character set with accented letters%s), validated by the same trace specification.")
_ADDED4 = {
    "C01": _LOCALE % ", decimal comma" + " The file reader is run as a buffer initialiser (File.tla BufFromFile): refusals before "
           "and after the buffer exists (missing path, directory) and a 129 MiB file read with hints below / at its size.",
    "C02": _LOCALE % "",
    "C03": " Requests of 2^30 .. 2^33 + k bytes (address space only) acquired, grown to and shrunk back between small traffic; "
           "parent allocators without calloc and/or realloc entry points.",
    "C04": _LOCALE % ", decimal comma, non-English month names" + " JSON string literals made of escapes that run into each other.",
    "C05": _LOCALE % "" + " The appending base64 encoder on buffers that already hold k * 2^32 + d bytes (CodecTrace!TB64EncAt).",
    "C06": " In a fifth of the executions the elements are records that embed their own handle and are removed into themselves "
           "(output buffer overlapping the handle).",
    "C07": " Cancelling a task that was initialised but never handed to the scheduler (exactly one CANCELED invocation, scheduler untouched).",
    "C09": " Counts and indices 'beyond everything' are also spelt ceil(2^64 / item_size) + k, so that byte counts wrap around size_t.",
    "C11": _LOCALE % ", decimal comma" + " Members and elements are duplicated while still inside their container "
           "(JsonValue!DuplicateSub) and moved between containers.",
    "C12": _LOCALE % "" + " Callback action 'd' descends and reports success whatever the nested traversal returned: the "
           "observations must be those of 'D' (a failure is the parser's to remember).",
    "C13": _LOCALE % "" + " Uri!BuildFree: builder calls with host texts the parser cannot read back (bare IPv6 literals ...) x "
           "every port width; on success nothing that was given may be missing from the text.",
    "C18": " Where there is a value destructor and no key destructor most executions use the 'key is a field of the value' layout: "
           "once a value's destructor has run its key reads as garbage until the call returns.",
    "C19": _LOCALE % ", non-English day and month names",
}
_ADDED4["C10"] = (" CborBig.tla: one encoder that grows to tens of megabytes, is read back, reset and used again (strings as "
                  "arithmetic patterns, contents compared by the adapter).")
_ADDED4["C14"] = (" Bursts of 1025-2100 lines accepted before the background thread runs, producers sending while the batch is written; "
                  "two no-alloc loggers in a row on the default destination (stderr must stay open).")
_ADDED4["C16"] = " 32-bit operands reach every variant in registers whose upper half is dirty (callers that narrow 64-bit quantities)."
_ADDED4["C17"] = " Blocks the tracer has never seen (from the wrapped allocator directly) are resized and released through it."
_ADDED4["C08"] = " Clients take further references while the scheduler is in use (ThreadSchedAbs!AcqRef) and release them at the end."
_ADDED4["C20"] = (" A joinable thread joins its own handle (refused, nothing changes); threads count themselves in and out of join-all "
                  "by hand (aws_thread_increment / decrement_unjoined_count) while join-all waits.")
# round-5 additions (DESIGN 10.10)
_ADDED4["C01"] += " Sources whose size fstat() does not know (a FIFO fed by another process; File.tla BufFromFifo)."
_ADDED4["C03"] += " Page-survivor family: the last blocks of a full, no longer working page are resized inside / across classes or released."
_ADDED4["C06"] += (" Queues of their own on 2-3 threads at once (Stateless.tla: an operation is a whole program on a private queue) "
                   "with a ThreadSanitizer pass.")
_ADDED4["C09"] += (" Sort under four comparator shapes; a quarter of the dynamic-list executions in an arena that packs blocks back to "
                   "back (the element handed to push / set_at lies directly behind the list's storage); lists of their own on 2-3 "
                   "threads at once with a ThreadSanitizer pass.")
_ADDED4["C05"] += (" Option structs are temporaries (released as soon as the constructor returns); texts with ASCII runs of 7-33 bytes "
                   "around whole and truncated sequences; the ThreadSanitizer pass runs on both CPU paths.")
_ADDED4["C12"] += " Attribute values of up to 1000 bytes."
_ADDED4["C13"] += " Real scheme names and their customary ports among the components (opaque to the property)."
_ADDED4["C11"] += " Members moved into a second object under another spelling (letter case) of their key."
_ADDED4["C18"] += " NULL values also under a value destructor (the destructor is called with NULL; LinkedHash.tla / Cache.tla Destroys5)."
_ADDED4["C15"] = " acquire_up_to with a minimum beyond everything (2^32, 2^63, SIZE_MAX)."
_ADDED4["C16"] += " The checked forms expanded inside a loop over 2-8 operand pairs (ArithLoop)."
_ADDED4["C17"] += (" Dumps by worker threads while others allocate and release (a logger that yields between two lines); tracer "
                   "generations (destroy / re-create with immediate address reuse).")
_ADDED4["C19"] += " Parsing through both entry points (cursor; byte buffer with spare capacity behind the text)."
_ADDED4["C20"] += (" One handle launched and joined several times in a row; at-exit callbacks that take seconds under a bounded join-all "
                   "(a call that gives up is back by about its deadline).")
for _k, _t in _ADDED4.items():
    CLAIMED[_k]["text"] += _t
