"""Single source of truth for MANIFEST.json (tools/gen_manifest.py). A property is claimed iff it appears in
CLAIMED; everything else is listed under not_applicable with its reason."""

CLAIMED = {
    "C15": {
        "level": "model_checking",
        "text": "TLC explores every interleaving of the releaser's tail store with the acquirer's load/load/store/store "
                "for both acquire forms on rings of 1..6 (thorough: 1..8) bytes with up to 4 outstanding buffers and checks "
                "no-overlap / in-range / exact-size / must-succeed-when-idle / quiescent head=tail in every state; the real "
                "aws_ring_buffer is then driven along TLC-generated and seeded random interleavings (releases performed "
                "inside the atomic schedule-point hook) and TLC validates the offsets it actually returned against the "
                "property-level specification.",
        "note": "Sequential consistency of the two atomics; bounded ring sizes in the exhaustive model; the code is covered "
                "only along the replayed executions (~2k quick / ~60k thorough), not proved. Trusted: TLC, the adapter's "
                "projection (offset = pointer - allocation), ASan.",
        "technique": "TLA+ spec (RingBuffer.tla) model-checked with TLC + trace validation of real executions (RingBufferTrace.tla)",
        "design_ref": "DESIGN.md section 5 C15, 4.4",
    },
}

NOT_YET = "check not built yet (work in progress in this session; see DESIGN.md section 8 build order)"
NOT_APPLICABLE = {}
ALL = ["C%02d" % i for i in range(1, 21)]
