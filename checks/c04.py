"""C04 decoders and parsers are total and memory-safe on arbitrary input (level: exploration).
TLC enumerates token-class strings per parser family (ParsersMC: the state space is the input family); the driver adds
mutations of well-formed documents, boundary structures (nesting / length limits, counts larger than the input) and
seeded random bytes. Every input is executed by the real parser on an exact-size heap copy under ASan with a per-input
watchdog; TLC validates every recorded call against Parsers!Parse (verdict channel + every returned view inside the
input). A crash / sanitizer report / time-out is a Died event = violation, reproduced in isolation."""
import json
import random
import re

from vlib import build, pipeline, tlc
from vlib.common import CheckError

LEVEL = "exploration"
SPEC_DIR = "Parsers"
PER_EXEC = 75
QUICK_STATES = 449281

# which parsers consume a family of enumerated strings: (parser, [args])
FANOUT = {
    "xml": [("xml", "prog")],
    "uri": [("uri", [0]), ("query", [0]), ("pctdec", [0]), ("ipv6", "alt")],
    "json": [("json", [0])],
    "cbor": [("cbor", [0, 1, 2, 3])],
    "date": [("date", "fmt")],
    "b64": [("b64dec", [0])],
    "hex": [("hexdec", [0]), ("u64hex", [0])],
    "utf8": [("utf8", [0, 2])],
    "uint": [("u64", [0]), ("u64hex", [0])],
    "ip4": [("ipv4", [0])],
    "ip6": [("ipv6", [0, 1])],
}
ALL_PARSERS = ["xml", "json", "cbor", "uri", "query", "pctdec", "date", "b64dec", "hexdec", "utf8", "uuid", "ipv4", "ipv6",
               "u64", "u64hex"]


def prepare(ctx):
    return build.build_harness("parsers_adapter", ["parsers_adapter.c"], cflags=["-Wno-unused-function"])


def hx(b):
    return bytes(b).hex() if len(b) else "-"


class Gen:
    def __init__(self, rng):
        self.rng = rng
        self.lines = []
        self.seen = set()
        self.byfam = {}

    def add(self, parser, data, arg=0, fam="driver"):
        key = (parser, data if data is None else bytes(data), arg)
        if key in self.seen:
            return
        self.seen.add(key)
        self.lines.append("P %s %s %d" % (parser, "NULL" if data is None else hx(data), arg))
        self.byfam[fam] = self.byfam.get(fam, 0) + 1

    def fan(self, fam, data, i):
        for parser, args in FANOUT[fam]:
            if args == "prog":
                self.add(parser, data, 0, "tlc-" + fam)
                if b"<a>" in data or data.count(b"<") >= 2:
                    self.add(parser, data, self.rng.randrange(1, 3 ** 12), "tlc-" + fam)
            elif args == "fmt":
                self.add(parser, data, 3, "tlc-" + fam)
                self.add(parser, data, i % 3 + (4 if i % 7 == 0 else 0), "tlc-" + fam)
            elif args == "alt":
                self.add(parser, data, i % 2, "tlc-" + fam)
            else:
                for a in args:
                    self.add(parser, data, a, "tlc-" + fam)


# ------------------------------------------------------------------------------------------------ driver families
XML_DOCS = [
    b'<?xml version="1.0" encoding="UTF-8"?><root><a k="v" j=1>text</a><ab>x<a>y</a></ab><a></a></root>',
    b"<a>x>y<b>t</b></a>",                      # text holding '>' (F5)
    b"<a><b>1</b><b>2</b><c><b>3</b></c></a>",
    b"<!DOCTYPE x><a xmlns=\"http://h/p?q=1\"><a><a>deep</a></a>tail</a>\n",
    b"<a><b/><c k=\"1\"/>t</a>",
]
JSON_DOCS = [
    b'{"a":[1,2.5e-3,-0,true,false,null],"b":{"c":"x\\n\\u00e9\\ud83d\\ude00","d":[]},"e":""}',
    b'[[[[]]],{"k":{"k":{"k":1e400}}},"\\u0000"]',
    b' \n{"a" : 1 , "a" : 2}\t',
    b'"\\ud800"', b"1E+2", b"-", b"[1,]", b'{"a":}', b"nul", b"tru", b"\xef\xbb\xbf{}",
]
URI_DOCS = [
    b"https://user:pw@host.example:8443/path/a%20b?k=v&x=y&&z#frag", b"http://[::1]:80/", b"http://[fe80::1%25en0]/x?",
    b"s3://bucket/key", b"host:99999999999", b"/only/path?q", b"?q=1", b"http://h?a=b=c&=d&e=", b"//h", b"http://u@:1/",
    b"http://[::1", b"http://]:1/", b"a://:@:/?", b"http://h:/", b"http://h:+1/", b"http://h:4294967296/",
]
DATES = [
    b"Wed, 02 Oct 2002 13:00:00 GMT", b"Wed, 02 Oct 2002 08:05:09 +0200", b"02 Oct 2002 13:00:00 UT", b"Wed, 02 Oct 2002 13:00:00 -0800",
    b"2002-10-02T08:05:09.000Z", b"2002-10-02T08:05:09Z", b"2002-10-02T08:05:09+01:00", b"2002-10-02", b"20021002T080509Z",
    b"20021002T080509.123Z", b"20021002", b"2016-02-29T23:59:60Z", b"9999-12-31T23:59:59Z", b"0000-01-01T00:00:00Z",
    b"Thu, 01 Jan 1970 00:00:00 Z", b"Sun, 31 Dec 2000 23:59:59 EST",
]
UUIDS = [b"123e4567-e89b-12d3-a456-426614174000", b"FFFFFFFF-FFFF-FFFF-FFFF-FFFFFFFFFFFF", b"00000000-0000-0000-0000-000000000000"]
IP4 = [b"127.0.0.1", b"255.255.255.255", b"0.0.0.0", b"1.2.3.4"]
IP6 = [b"::1", b"fe80::1%25en0", b"fe80::1%en0", b"0:0:0:0:0:0:0:1", b"2001:db8:85a3:8d3:1319:8a2e:370:7348", b"::", b"1::", b"::ffff:1.2.3.4"]
TOKEN_RE = {
    "xml": re.compile(rb"</|<\?|<!|[<>/=\" ?!]|[^<>/=\" ?!]+"),
    "json": re.compile(rb"\\u[0-9a-fA-F]{0,4}|\\.|[{}\[\]:,\" ]|[^{}\[\]:,\"\\ ]+"),
    "uri": re.compile(rb"://|%[0-9A-Fa-f]{0,2}|[:/?@\[\]&=#%]|[^:/?@\[\]&=#%]+"),
    "date": re.compile(rb"[0-9]+|[A-Za-z]+|."),
    "plain": re.compile(rb".", re.S),
}


def mutations(rng, doc, tok_re, extra_tokens, limit):
    toks = tok_re.findall(doc)
    out = []
    n = len(toks)
    for i in range(n):
        out.append(b"".join(toks[:i] + toks[i + 1:]))                      # delete
        out.append(b"".join(toks[:i + 1] + toks[i:]))                      # duplicate
        if i + 1 < n:
            out.append(b"".join(toks[:i] + [toks[i + 1], toks[i]] + toks[i + 2:]))   # swap
        out.append(b"".join(toks[:i] + [rng.choice(extra_tokens)] + toks[i + 1:]))  # replace
        out.append(b"".join(toks[:i]))                                     # truncate in front of token i
    out.append(doc[:-1])
    out.append(doc + doc)
    if len(out) > limit:
        rng.shuffle(out)
        out = out[:limit]
    return [doc] + out


def fam_xml(g, rng, thorough):
    per = 400 if thorough else 120
    extra = [b"<", b">", b"</", b"/", b"?", b"!", b"=", b'"', b" ", b"a", b"<a>", b"</a>", b"<a", b"/>", b""]
    from checks import c12
    docs = list(XML_DOCS)
    for _ in range(12 if not thorough else 60):
        t, n = c12.rand_tree(rng, rng.randint(2, 8), 1, 4, ["a", "ab", "b"])
        docs.append(c12.render_doc(t, rng.choice(c12.PRES))[0])
    for d in docs:
        for m in mutations(rng, d, TOKEN_RE["xml"], extra, per):
            g.add("xml", m, 0, "xml-mut")
            g.add("xml", m, rng.randrange(1, 3 ** 19), "xml-mut")
    # limits: nesting depth around 20, over-long names, many attributes; with and without the closing part
    for k in (1, 2, 19, 20, 21, 22, 40, 300):
        for name in (b"a", b"ab"):
            op, cl = b"".join(b"<" + name + b">" for _ in range(k)), b"".join(b"</" + name + b">" for _ in range(k))
            for d in (op + b"x" + cl, op, op + b"x" + cl[:-1], op + cl[len(cl) // 2:], cl, op + b"</", op + b"<"):
                for arg in (0, 1, 2, 3 ** 18, rng.randrange(3 ** 19)):
                    g.add("xml", d, arg, "xml-limit")
    for ln in (254, 255, 256, 257, 258, 259, 260, 300, 1000, 5000):
        nm = b"n" * ln
        for d in (b"<" + nm + b">x</" + nm + b">", b"<" + nm + b">x", b"<" + nm, b"<r><" + nm + b">x</" + nm + b"></r>",
                  b"<r><" + nm + b"></r>", b"<" + nm + b"/>", b"<r k=" + nm + b">t</r>", b"<r " + nm + b">t</r>"):
            for arg in (0, 1, 2, 3, 5):
                g.add("xml", d, arg, "xml-limit")
    for na in (9, 10, 11, 12, 50):
        at = b"".join(b" k%d=v" % i for i in range(na))
        for d in (b"<a" + at + b">t</a>", b"<r><a" + at + b">t</a></r>", b"<a" + at, b"<a" + at + b"/>", b"<a " + b" " * na + b">t</a>",
                  b"<a" + b" =" * na + b">t</a>", b"<a" + b" k=v=w" * min(na, 10) + b">t</a>"):
            for arg in (0, 1, 2, 3):
                g.add("xml", d, arg, "xml-limit")
    # markup characters in text / '>' in front of '<' (the F5 class), '<' as the last byte
    for d in (b"><", b">", b"<", b"x><?", b"> <?a?>", b"<?", b"<!", b"<?>", b"<!><", b"<a>x><", b"<a>>", b"<a>><b></b></a>", b"<a>x>y</a>",
              b"<a>x>y<b>t</b></a>", b"<a><b>x>y</b></a>", b"<a>></a>", b"<a>>>>>>>>>>>>>>>>>>>>>>>>>>>>>>>>>>>>>>>>>>>>>><b></b></a>",
              b"<a></a>>", b"<a>x</a", b"<a>x<", b"<a>x</", b"<a><", b"<a><b", b"<>", b"<></>", b"< >x</ >", b"</a>", b"<a></b>", b"<a/>",
              b"<a/></a/>", b"<a><a/></a>", b"<?xml?>", b"<?xml?><!x>", b"<?xml?> ", b"  ", b"<a> <b> </b", b"<a k=\"></a>", b"<a =></a>"):
        for arg in (0, 1, 2, 3, 4, 5, 6, 7, 8):
            g.add("xml", d, arg, "xml-markup")


def fam_json(g, rng, thorough):
    extra = [b"{", b"}", b"[", b"]", b":", b",", b'"', b"\\", b"\\u", b"1", b"e", b"-", b".", b"t", b"n", b"\x00", b"\xff", b""]
    for d in JSON_DOCS:
        for m in mutations(rng, d, TOKEN_RE["json"], extra, 600 if thorough else 150):
            g.add("json", m, 0, "json-mut")
    for k in (1, 2, 999, 1000, 1001, 1002, 3000):          # cJSON nesting limit 1000
        for op, cl in ((b"[", b"]"), (b'{"a":', b"}"), (b"[{\"a\":", b"}]")):
            g.add("json", op * k + b"1" + cl * k, 0, "json-limit")
            g.add("json", op * k, 0, "json-limit")
            g.add("json", op * k + b"1" + cl * (k - 1), 0, "json-limit")
    for d in (b"1" * 400, b"0." + b"9" * 400, b"1e" + b"9" * 40, b"-" * 50, b'"' + b"\\" * 101, b'"' + b"a" * 5000 + b'"', b'"\\u', b'"\\u12', b'"\\ud83d\\u',
              b'"\\ud83d\\ude0', b'"\\ud83d', b"/**/1", b"/*", b"//", b"//\n1", b"\x00", b'"a\x00b"', b"1\x002"):
        g.add("json", d, 0, "json-limit")


    # escape soup: string literals (values, keys, array elements) made of escapes that run into each other, are cut short or
    # carry bad digits, between ordinary characters - whatever the parser's size estimate for the decoded string assumes
    atoms = [b"\\u", b"\\u1", b"\\u12", b"\\u123", b"\\u1234", b"\\u00e9", b"\\ud83d", b"\\ude00", b"\\uZ", b"\\\\", b'\\"', b"\\n", b"\\x",
             b"\\/", b"a", b"Z", b"1abc", b"key", b" ", b"\xc3\xa9"]
    for _ in range(400 if not thorough else 6000):
        lit = b'"' + b"".join(rng.choice(atoms) for _ in range(rng.choice([1, 2, 2, 3, 4, 6, 9]))) + rng.choice([b"", b"x" * rng.randint(1, 30)]) + b'"'
        g.add("json", rng.choice([lit, b"[" + lit + b"]", b"{" + lit + b':"v"}', b'{"k":' + lit + b"}", b"[1," + lit + b"," + lit + b"]"]), 0, "json-escapes")


def cbor_head(major, info):
    return bytes([(major << 5) | info])


def fam_cbor(g, rng, thorough):
    fills = [b"\x00", b"\xff", b"\x01", b"\x7f"]
    for h in range(256):
        for k in range(0, 10):
            for f in (fills if (thorough or k in (0, 1, 2, 4, 8, 9)) else fills[:2]):
                d = bytes([h]) + f * k
                for mode in (0, 1):
                    g.add("cbor", d, mode, "cbor-head")
                if k in (1, 9):
                    g.add("cbor", d, 2, "cbor-head")
                    g.add("cbor", d, 3, "cbor-head")
    ok_items = [b"\x00", b"\x18\x2a", b"\x39\x01\x00", b"\x43abc", b"\x63abc", b"\x82\x01\x02", b"\xa1\x61a\x01", b"\xc1\x1a\x00\x00\x00\x01",
                b"\xf5", b"\xf6", b"\xf7", b"\xf9\x3c\x00", b"\xfa\x3f\x80\x00\x00", b"\xfb" + b"\x3f\xf0" + b"\x00" * 6, b"\x5f\x41a\x41b\xff",
                b"\x7f\x61a\xff", b"\x9f\x01\x02\xff", b"\xbf\x61a\x01\xff", b"\xf8\x20"]
    for it in ok_items:
        for m in mutations(rng, it, TOKEN_RE["plain"], [bytes([x]) for x in (0, 0x1f, 0x5f, 0x7f, 0x9f, 0xbf, 0xff, 0x1b, 0x5b, 0x9b)], 200):
            for mode in (0, 1, 2, 3):
                g.add("cbor", m, mode, "cbor-mut")
    # definite lengths / counts larger than what is left
    for major in (2, 3, 4, 5):
        for info, nb in ((24, 1), (25, 2), (26, 4), (27, 8)):
            for val in (b"\xff" * nb, b"\x00" * (nb - 1) + b"\x05", b"\x7f" + b"\xff" * (nb - 1), b"\x80" + b"\x00" * (nb - 1)):
                for tail in (b"", b"\x00", b"\x01\x02\x03\x04", b"a" * 40):
                    for mode in (0, 1, 2, 3):
                        g.add("cbor", cbor_head(major, info) + val + tail, mode, "cbor-count")
    # nesting (consume_next_whole_data_item recurses per level), breaks outside containers, tag chains
    for k in (1, 2, 8, 64, 500, 2000):
        for op in (b"\x81", b"\x9f", b"\xa1\x00", b"\xbf\x00", b"\xc0", b"\xd8\x18", b"\x5f", b"\x7f", b"\x82\x00"):
            for tail in (b"", b"\x00", b"\xff" * k, b"\xff" * (k + 1)):
                for mode in (0, 1, 2):
                    g.add("cbor", op * k + tail, mode, "cbor-nest")
    for d in (b"\xff", b"\xff\xff", b"\x00\xff", b"\x9f\xff\xff", b"\x5f\x00\xff", b"\x5f\x61a\xff", b"\x7f\x41a\xff", b"\x5f\x5f\x41a\xff\xff",
              b"\xbf\x00\xff", b"\xa1\xff", b"\x81\xff", b"\xf8\x00", b"\xf8\x1f", b"\xf8\xff", b"\xfc", b"\xfd", b"\xfe", b"\x1c", b"\x1d", b"\x1e",
              b"\x3f", b"\xdf", b"\x1f"):
        for mode in (0, 1, 2, 3):
            g.add("cbor", d, mode, "cbor-break")
    for _ in range(3000 if thorough else 500):
        d = b"".join(rng.choice(ok_items + [bytes([rng.getrandbits(8)])]) for _ in range(rng.randint(1, 8)))
        if rng.random() < 0.5:
            d = d[:rng.randrange(len(d) + 1)]
        g.add("cbor", d, rng.choice([0, 1, 2, 3, rng.randrange(4, 1 << 30)]), "cbor-random")


def fam_uri(g, rng, thorough):
    extra = [b":", b"/", b"?", b"@", b"[", b"]", b"&", b"=", b"%", b"#", b"://", b"%2", b"%zz", b"\x00", b"\xff", b"", b"99999999999"]
    for d in URI_DOCS:
        for m in mutations(rng, d, TOKEN_RE["uri"], extra, 500 if thorough else 150):
            g.add("uri", m, 0, "uri-mut")
            g.add("query", m, 0, "uri-mut")
            g.add("pctdec", m, rng.choice([0, 1, len(m), len(m) + 1]), "uri-mut")
    for ln in (1, 255, 256, 4096, 70000):
        for d in (b"h" * ln, b"http://" + b"h" * ln + b"/", b"http://h/" + b"p" * ln, b"http://h/?" + b"a=b&" * (ln // 4 + 1), b"http://h:" + b"9" * ln,
                  b"%41" * (ln // 3 + 1), b"%" * ln, b"&" * ln, b"=" * ln, b"http://" + b"u" * ln + b"@h", b"[" * ln):
            g.add("uri", d, 0, "uri-long")
            g.add("query", d, 0, "uri-long")
            g.add("pctdec", d, 0, "uri-long")
    for h in IP6 + IP4:
        for m in mutations(rng, h, TOKEN_RE["plain"], [b":", b"%", b".", b"g", b"z", b"2", b"5", b"\x00", b"\xff", b"f", b"::"], 400):
            g.add("ipv6", m, 0, "ip-mut")
            g.add("ipv6", m, 1, "ip-mut")
            g.add("ipv4", m, 0, "ip-mut")
    for d in (b"1" * 15, b"1" * 16, b"1" * 17, b"1." * 8, b"256.1.1.1", b"1.1.1.1.", b"1.1.1.1 ", b"1.1.1.1a", b" 1.1.1.1", b"+1.1.1.1", b"-1.1.1.1", b"1.1.1", b"0x1.1.1.1",
              b"99999999999.1.1.1", b"65536.1.1.1", b"1.1.1.1\x00", b"1\x00.1.1.1", b":" * 39, b":" * 40, b"f" * 39, b"f" * 40, b"1:" * 19 + b"1", b"::%", b"::%2", b"::%25",
              b"::%25a", b"::%a", b"::%25%", b"::1%25a%25b", b"%", b"%%", b":", b"1", b"::" * 10):
        g.add("ipv4", d, 0, "ip-mut")
        g.add("ipv6", d, 0, "ip-mut")
        g.add("ipv6", d, 1, "ip-mut")


def fam_date(g, rng, thorough):
    repl = [bytes([c]) for c in b"0159:TZ+- ,.aGM\x00\xff/"]
    for d in DATES:
        cands = set()
        for i in range(len(d) + 1):
            cands.add(d[:i])                       # truncation at every position
            if i < len(d):
                cands.add(d[:i] + d[i + 1:])       # delete
                cands.add(d[:i] + d[i:i + 1] + d[i:])   # duplicate
                for r in (repl if thorough else rng.sample(repl, 6)):
                    cands.add(d[:i] + r + d[i + 1:])
        for m in mutations(rng, d, TOKEN_RE["date"], [b"99", b"00", b"100000000000000000000", b"Foo", b"", b"-1", b"+"], 200):
            cands.add(m)
        for pad in (100, 101, 102, 200):
            cands.add(d + b" " * (pad - len(d)))
            cands.add(d + b"0" * (pad - len(d)))
            cands.add(b" " * (pad - len(d)) + d)
        for i, m in enumerate(sorted(cands)):
            g.add("date", m, 3, "date-mut")
            g.add("date", m, (i % 3) + (4 if i % 5 == 0 else 0), "date-mut")
            if thorough:
                for f in (0, 1, 2):
                    g.add("date", m, f, "date-mut")
    for d in (b"9" * 100, b"9" * 101, b"T" * 100, b":" * 100, b"-" * 100, b"+" * 100, b"Mon, " * 20, b"2002-10-02T" + b"0" * 89, b"2002-10-02T08:05:09." + b"9" * 80 + b"Z",
              b"20021002T080509." + b"1" * 84, b"Wed, 02 Oct 2002 13:00:00 " + b"G" * 74, b"Wed, 02 Oct 2002 13:00:00 +" + b"0" * 73, b"Wed, 02 Oct 2002 13:00:00 +0",
              b"Wed, 02 Oct 2002 13:00:00 +02", b"Wed, 02 Oct 2002 13:00:00 -", b"Wed, 02 Oct 2002 13:00:00 +020", b"Wed, 02 Oct 2002 13:00:00 +02000"):
        for f in (0, 1, 2, 3, 4, 7):
            g.add("date", d, f, "date-long")


def fam_codecs(g, rng, thorough):
    for u in UUIDS:
        cands = {u[:i] for i in range(len(u) + 1)} | {u + b"x", u + u, u + b"\x00", b" " + u, u.replace(b"-", b""), u.replace(b"-", b"")[:32] + b"----"}
        for i in range(len(u)):
            for r in (b"g", b"-", b"0", b" ", b"\x00", b"\xff", b"G", b"x", b"+"):
                cands.add(u[:i] + r + u[i + 1:])
            cands.add(u[:i] + u[i + 1:])
            cands.add(u[:i] + u[i + 1:] + b"0")
        for m in sorted(cands):
            g.add("uuid", m, 0, "uuid-mut")
    for d in (b"0x" + b"1" * 34, b"-" * 36, b" " * 36, b"+1" * 18, b"0" * 36, b"%" * 36, b"\x00" * 36, b"\xff" * 36, b"123e4567-e89b-12d3-a456-4266141740 0", b"123e4567-e89b-12d3-a456-42661417400\n"):
        g.add("uuid", d, 0, "uuid-mut")
    nums = [b"0", b"18446744073709551615", b"18446744073709551616", b"18446744073709551620", b"99999999999999999999", b"184467440737095516150", b"0" * 30 + b"1",
            b"0" * 300, b"9" * 300, b"ffffffffffffffff", b"10000000000000000", b"fffffffffffffffff", b"0" * 40 + b"ffffffffffffffff", b"FFFFFFFFFFFFFFFF", b"0x1", b"+1", b"-1",
            b" 1", b"1 ", b"1\x00", b"\xff", b"1e3", b"1.0", b"", b"f" * 300, b"/", b":", b"@", b"G", b"`", b"g"]
    for d in nums:
        for m in {d, d[:-1], d + b"0", d + b"9", d + b"f"}:
            g.add("u64", m, 0, "uint")
            g.add("u64hex", m, 0, "uint")
    import base64
    for n in list(range(0, 70)) + [96, 97, 98, 99, 100, 1000]:
        raw = bytes(rng.getrandbits(8) for _ in range(n))
        t = base64.b64encode(raw)
        cands = {t, t[:-1], t + b"=", t + b"A", t[:-1] + b"\x00", t.replace(b"=", b""), t + b"\n", b"=" + t}
        for _ in range(4):
            if t:
                i = rng.randrange(len(t))
                cands.add(t[:i] + rng.choice([b"=", b"\x00", b"\xff", b"-", b" ", b"@", b"["]) + t[i + 1:])
        for m in sorted(cands):
            g.add("b64dec", m, 0, "codec")
        h = raw.hex().encode()
        cands = {h, h[:-1], h + b"0", h.upper(), h + b"g", b"0x" + h}
        for _ in range(4):
            if h:
                i = rng.randrange(len(h))
                cands.add(h[:i] + rng.choice([b"g", b"G", b"\x00", b"\xff", b" ", b"/", b":", b"@", b"`"]) + h[i + 1:])
        for m in sorted(cands):
            g.add("hexdec", m, 0, "codec")
    seqs = [bytes.fromhex(s) for s in ("41", "c3a9", "e282ac", "f09f9880", "c080", "eda080", "f4908080", "f8888080", "80", "c2", "e282", "f09f98", "ff", "fe", "efbbbf", "00")]
    for _ in range(3000 if thorough else 600):
        d = b"".join(rng.choice(seqs) for _ in range(rng.randint(1, 6)))
        g.add("utf8", d, rng.choice([0, 1, 2, 3, 4]), "utf8")


def fam_random(g, rng, thorough):
    for p in ALL_PARSERS:
        g.add(p, None, 0, "null-empty")
        g.add(p, b"", 0, "null-empty")
        if p in ("date", "cbor", "utf8", "ipv6", "xml"):
            for a in (1, 2, 3, 4, 7):
                g.add(p, None, a, "null-empty")
                g.add(p, b"", a, "null-empty")
        for b in range(256):
            g.add(p, bytes([b]), 0, "one-byte")
    biased = {
        "xml": b"<><>//??!!==\"\"  aab", "json": b"{}[]:,\"\"\\u1e-.tn 0", "uri": b":/?@[]&=%h1G#", "query": b"&=%ab", "pctdec": b"%%4a1Gg",
        "date": b"0123456789-:TZ ,+.JanMonGMT", "b64dec": b"AQgw=+/-_\n", "hexdec": b"09afAFgG ", "uuid": b"0123456789abcdefABCDEF-", "ipv4": b"0123456789..",
        "ipv6": b"0123456789abcdef:::%", "u64": b"0123456789", "u64hex": b"0123456789abcdefABCDEF",
    }
    n = 4000 if thorough else 500
    for p in ALL_PARSERS:
        for i in range(n):
            ln = rng.choice([rng.randint(1, 8), rng.randint(1, 40), rng.randint(30, 120), 36, 37, 100, 101]) if i % 50 else rng.randint(200, 3000)
            if p in biased and rng.random() < 0.7:
                al = biased[p]
                d = bytes(rng.choice(al) if rng.random() < 0.93 else rng.getrandbits(8) for _ in range(ln))
            else:
                d = bytes(rng.getrandbits(8) for _ in range(ln))
            arg = {"xml": rng.randrange(3 ** 19), "cbor": rng.choice([0, 1, 2, 3, rng.randrange(4, 1 << 30)]), "date": rng.randrange(8),
                   "utf8": rng.randrange(6), "ipv6": rng.randrange(2), "pctdec": rng.choice([0, 1, ln])}.get(p, 0)
            g.add(p, d, arg, "random")


def tlc_enumerate(ctx, cfg, want):
    """The design-level run and the generator are the same TLC run: breadth-first enumeration of every token string."""
    res = ctx.mc(SPEC_DIR, "ParsersMC", cfg, timeout=1500, xmx="8g", workers=8,
                 required_actions=["ParsersMC!" + a for a in ("ExtXml", "ExtUri", "ExtJson", "ExtDate", "ExtB64", "ExtHex", "ExtUtf8",
                                                                     "ExtUint", "ExtIp4", "ExtIp6", "ExtCbor")])
    if want is not None and res.distinct != want:
        raise CheckError("MODEL-BROKEN: ParsersMC %s enumerated %d strings, expected %d" % (cfg, res.distinct, want))
    out = []
    for line in res.text.splitlines():
        if line.startswith('<<"SCRIPT"'):
            m = re.match(r'<<"SCRIPT", "(.*)">>$', line.strip())
            if m:
                out.append(json.loads(m.group(1).encode().decode("unicode_escape")))
    if len(out) != res.distinct:
        raise CheckError("MODEL-BROKEN: ParsersMC printed %d inputs for %d states" % (len(out), res.distinct))
    return out, res


def run(ctx):
    thorough = ctx.tier == "thorough"
    exe = prepare(ctx)
    ctx.rule = ("evaluation = one call of one parser on one input (exact-size heap copy, ASan, watchdog); distinct = distinct "
                "(parser, input bytes, argument); non-trivial = input of at least two bytes")
    ctx.assumptions += [
        "memory safety is observed, not decided: an access outside the input / output block is an AddressSanitizer report only on "
        "the executed inputs; reads inside the exact-size input block that the parser should not have made are invisible",
        "the verdict channel is checked (AWS_OP_ERR + registered error code / NULL / false), not which verdict: whether an input "
        "should be accepted is the business of C05, C10-C13, C19",
        "views: for aws_uri the base is the uri's own copy of the input (same length); an empty cursor is inside whatever its pointer",
        "XML callback choices (descend / body / skip) are derived from a per-input number; JSON values are destroyed without being walked",
        "inputs are bounded: token strings of <= 4-6 tokens per family, mutations of ~60 well-formed documents, nesting to the documented "
        "limits (+ CBOR nesting 2000, JSON 3000), lengths <= 70000; date strings longer than AWS_DATE_TIME_STR_MAX_LEN must be refused",
        "per-input watchdog 10 s; UBSan is not enabled (memset/memcpy(NULL, 0) style findings are out of scope by DESIGN 3.2)",
    ]
    rng = random.Random(ctx.seed)
    g = Gen(rng)
    enum, res = tlc_enumerate(ctx, "MC_thorough.cfg" if thorough else "MC.cfg", None if thorough else QUICK_STATES)
    for i, s in enumerate(enum):
        g.fan(s["f"], bytes(s["b"]), i)
    ctx.extra["tlc_enumerated_inputs"] = len(enum)
    fam_xml(g, rng, thorough)
    fam_json(g, rng, thorough)
    fam_cbor(g, rng, thorough)
    fam_uri(g, rng, thorough)
    fam_date(g, rng, thorough)
    fam_codecs(g, rng, thorough)
    fam_random(g, rng, thorough)
    ctx.extra["calls_by_family"] = dict(sorted(g.byfam.items()))
    lines = g.lines
    ctx.evaluations = len(lines)
    ctx.distinct_extra = sum(1 for k in g.seen if k[1] is not None and len(k[1]) >= 2)
    execs = [["RESET"] + lines[i:i + PER_EXEC] for i in range(0, len(lines), PER_EXEC)]
    ctx.add_sample({"script": execs[0][:6]})
    ctx.add_sample({"script": [ln[:200] for ln in execs[-1][:6]]})
    pipeline.drive_and_validate(ctx, exe, execs, SPEC_DIR, "ParsersTrace", "Trace.cfg", label="parse", nbatch=16 if not thorough else 96, xmx="3g" if not thorough else "6g",
                                harness_timeout=900, tlc_timeout=1500)
    # the process-locale family (lib/vlib/locale8.py): a slice of the same executions in a process that called setlocale()
    from vlib import locale8
    locale8.rerun(ctx, exe, execs[::5] if not thorough else execs[::3], SPEC_DIR, "ParsersTrace", "Trace.cfg", "parse", names=("xx_XX", "yy_YY", "zz_ZZ"),
                  nbatch=8, xmx="3g", harness_timeout=900, tlc_timeout=1500)
    # the same parsers on several threads at once (Stateless.tla): one outcome per operation whoever performs it, and a
    # ThreadSanitizer pass over the same scenarios (hidden shared state is a data race whatever the schedule)
    from checks import stateless_common
    stateless_common.drive(ctx, ["xml", "uri", "pct", "json", "cbor", "date"], thorough, n=50 if not thorough else 1500)
