"""X01 aws_string (extra, DESIGN section 13): String.tla (slots of immutable byte sequences + ownership + one destination
buffer) model-checked; TLC-generated and seeded random scripts replayed on the real aws_string functions; every event and
the public view of every live string after every call validated by StringTrace.tla."""
import random

from vlib import build, pipeline, tlc

LEVEL = "model_checking"
SPEC_DIR = "String"
NS = 5
NLIT = 8
STATICS = [b"", b"a", b"Az", b"a\0b", b"@[`{", b"\x80\xff\xc1", b"hello, World", b"AZ"]
# 0x00, letters at both ends of the ranges with their non-letter neighbours, bytes >= 0x80 that differ by 0x20
ALPHA = [0x00, 0x61, 0x41, 0x7A, 0x5A, 0x40, 0x5B, 0x60, 0x7B, 0x80, 0xC1, 0xE1, 0xFF, 0x62, 0x42, 0x20, 0x6D, 0x4D]
MC_ACTIONS = ["MCStatic", "MCRaw", "MCForget", "MCNewCStr", "MCNewArray", "MCNewString", "MCNewCursor", "MCNewBuf", "MCNewDst",
              "MCDestroy", "MCDestroySecure", "MCClone", "MCEq", "MCEqI", "MCEqCur", "MCEqCurI", "MCEqBuf", "MCEqBufI", "MCEqC",
              "MCEqCI", "MCCompare", "MCComparator", "MCSort", "MCDstInit", "MCWrite", "MCWriteNoBuf", "MCCursor", "MCBytes",
              "MCSecureStrlen", "MCIsValid", "MCIsValidRaw", "MCCStrIsValid", "MCCharIsSpace"]


def prepare(ctx):
    return build.build_harness("string_adapter", ["string_adapter.c"], cflags=["-Wno-unused-function"])


def hx(b, nullptr=False):
    b = bytes(b)
    if not b:
        return "~" if nullptr else "-"
    return b.hex()


def from_tlc(s):
    """script of StringMC (Gen.cfg) -> adapter lines. The model already respects every obligation (live arguments, free
    destination slots, destroy_secure only on owned strings, readable strlen regions)."""
    lines = ["RESET"]
    for o in s["ops"]:
        op, d, a, c, x, n, l = o["op"], o["d"], o["a"], o["c"], bytes(o["x"]), o["n"], o["l"]
        if op == "STATIC":
            lines.append("STATIC %d %d" % (d, n))
        elif op in ("RAW", "NEWC", "NEWA", "NEWCUR"):
            lines.append("%s %d %s" % (op, d, hx(x)))
        elif op == "NEWBUF":
            lines.append("NEWBUF %d %s %d" % (d, hx(x), n))
        elif op in ("FORGET", "NEWDST"):
            lines.append("%s %d" % (op, d))
        elif op in ("NEWS", "CLONE"):
            lines.append("%s %d %d" % (op, d, a))
        elif op in ("DESTROY", "SECURE", "WRITE", "WRITENB", "CURSOR", "BYTES", "VALID"):
            lines.append("%s %d" % (op, a))
        elif op in ("EQ", "EQI", "CMP", "CMPREF"):
            lines.append("%s %d %d" % (op, a, c))
        elif op in ("EQCUR", "EQCURI", "EQC", "EQCI"):
            lines.append("%s %d %s" % (op, a, "NULL" if c else hx(x)))
        elif op in ("EQBUF", "EQBUFI"):
            lines.append("%s %d %s" % (op, a, "NULL" if c else "%s %d" % (hx(x), n)))
        elif op == "SORT":
            lines.append(" ".join(["SORT"] + [str(i) for i in l]))
        elif op == "BUFINIT":
            lines.append("BUFINIT %d %s" % (n, hx(x)))
        elif op == "STRLEN":
            lines.append("STRLEN %s %d" % (hx(x), n))
        elif op == "VALIDRAW":
            lines.append("VALIDRAW %s %d" % (hx(x), n))
        elif op in ("CVALID", "SPACE"):
            lines.append("%s %d" % (op, n))
        else:
            raise ValueError("unknown generated op " + op)
    return lines


# ---------------------------------------------------------------------------------------------------------------------
# seeded random driver. It mirrors liveness/ownership/content only to respect the API obligations and to aim operands at
# the boundaries (equal, equal up to case, one byte off, prefix, one longer); it never predicts a result.

def rand_bytes(rng, maxlen=12):
    n = rng.choice([0, 0, 1, 1, 2, 3, 3, 4, 5, 7, 8, 11, 12, maxlen])
    fam = rng.random()
    if fam < 0.25:
        al = [0x61, 0x41, 0x62, 0x42]                # tiny alphabet: many equal/prefix/case-equal pairs
    elif fam < 0.4:
        al = [0x00, 0x61, 0x41]
    else:
        al = ALPHA
    return bytes(rng.choice(al) for _ in range(n))


def swapcase(c):
    if 0x41 <= c <= 0x5A:
        return c + 32
    if 0x61 <= c <= 0x7A:
        return c - 32
    return c


def variant(rng, x):
    """an operand near x"""
    x = bytes(x)
    r = rng.random()
    if r < 0.22:
        return x
    if r < 0.36:
        return bytes(swapcase(c) for c in x)
    if r < 0.46:
        return bytes(swapcase(c) if rng.random() < 0.5 else c for c in x)
    if r < 0.60 and x:
        i = rng.randrange(len(x)) if rng.random() < 0.5 else len(x) - 1
        c = x[i]
        c2 = rng.choice([(c + 32) % 256, (c - 32) % 256, (c + 1) % 256, (c - 1) % 256, c ^ 0x80, 0])
        return x[:i] + bytes([c2]) + x[i + 1:]
    if r < 0.70 and x:
        return x[:-1]
    if r < 0.80:
        return x + bytes([rng.choice(ALPHA)])
    if r < 0.86:
        i = rng.randrange(len(x) + 1)
        return x[:i] + b"\0" + x[i:]
    if r < 0.90 and x:
        return x[1:]
    return rand_bytes(rng)


class Env:
    def __init__(self, rng):
        self.rng = rng
        self.s = {}            # slot -> (bytes, owned)
        self.dst = None        # (cap, bytes)
        self.lines = ["RESET"]

    def free(self):
        return [i for i in range(1, NS + 1) if i not in self.s]

    def live(self):
        return sorted(self.s)

    def arg(self, pnull=0.08):
        if not self.s or self.rng.random() < pnull:
            return 0
        return self.rng.choice(self.live())

    def near(self, a):
        """operand bytes aimed at the content of slot a"""
        if a and self.rng.random() < 0.85:
            return variant(self.rng, self.s[a][0])
        if self.s and self.rng.random() < 0.5:
            return variant(self.rng, self.s[self.rng.choice(self.live())][0])
        return rand_bytes(self.rng)

    def content(self):
        if self.s and self.rng.random() < 0.55:
            return variant(self.rng, self.s[self.rng.choice(self.live())][0])[:14]
        return rand_bytes(self.rng)

    # ---- operations
    def create(self):
        rng = self.rng
        fr = self.free()
        if not fr:
            return self.destroy()
        d = rng.choice(fr)
        k = rng.random()
        if k < 0.10:
            i = rng.randrange(1, NLIT + 1)
            self.lines.append("STATIC %d %d" % (d, i))
            self.s[d] = (STATICS[i - 1], False)
        elif k < 0.20:
            x = self.content()
            self.lines.append("RAW %d %s" % (d, hx(x)))
            self.s[d] = (x, False)
        elif k < 0.34:
            x = self.content()
            self.lines.append("NEWC %d %s" % (d, hx(x)))
            self.s[d] = (x.split(b"\0")[0], True)
        elif k < 0.48:
            x = self.content()
            self.lines.append("NEWA %d %s" % (d, hx(x, rng.random() < 0.5)))
            self.s[d] = (x, True)
        elif k < 0.60:
            x = self.content()
            self.lines.append("NEWCUR %d %s" % (d, hx(x, rng.random() < 0.5)))
            self.s[d] = (x, True)
        elif k < 0.72:
            x = self.content()
            n = rng.choice([len(x), len(x), max(0, len(x) - 1), 0, rng.randint(0, len(x))])
            self.lines.append("NEWBUF %d %s %d" % (d, hx(x, rng.random() < 0.5), n))
            self.s[d] = (x[:n], True)
        elif k < 0.80 and self.dst is not None:
            self.lines.append("NEWDST %d" % d)
            self.s[d] = (self.dst[1], True)
        elif k < 0.90 and self.s:
            a = rng.choice(self.live())
            self.lines.append("NEWS %d %d" % (d, a))
            self.s[d] = (self.s[a][0], True)
        elif self.s:
            a = rng.choice(self.live())
            self.lines.append("CLONE %d %d" % (d, a))
            self.s[d] = self.s[a]
        else:
            x = self.content()
            self.lines.append("NEWA %d %s" % (d, hx(x)))
            self.s[d] = (x, True)

    def destroy(self):
        rng = self.rng
        a = self.arg(0.1)
        if a == 0:
            self.lines.append(rng.choice(["DESTROY 0", "SECURE 0"]))
            return
        x, owned = self.s[a]
        if owned:
            self.lines.append("%s %d" % (rng.choice(["DESTROY", "SECURE"]), a))
            del self.s[a]
        elif rng.random() < 0.5:
            self.lines.append("DESTROY %d" % a)        # no-op on a string without allocator
        else:
            self.lines.append("FORGET %d" % a)
            del self.s[a]

    def eq(self):
        rng = self.rng
        k = rng.random()
        if k < 0.2:
            self.lines.append("%s %d %d" % (rng.choice(["EQ", "EQI"]), self.arg(), self.arg()))
            return
        a = self.arg()
        x = self.near(a)
        null = rng.random() < 0.06
        if k < 0.45:
            self.lines.append("%s %d %s" % (rng.choice(["EQCUR", "EQCURI"]), a, "NULL" if null else hx(x, rng.random() < 0.5)))
        elif k < 0.72:
            op = rng.choice(["EQBUF", "EQBUFI"])
            if null:
                self.lines.append("%s %d NULL" % (op, a))
            else:
                # the valid part is x; the rest of the capacity continues with bytes that would make a longer match
                tail = b""
                if rng.random() < 0.6:
                    base = self.s[a][0] if a else b""
                    tail = base[len(x):len(x) + 2] or bytes([rng.choice(ALPHA)])
                self.lines.append("%s %d %s %d" % (op, a, hx(x + tail, rng.random() < 0.5), len(x)))
        else:
            self.lines.append("%s %d %s" % (rng.choice(["EQC", "EQCI"]), a, "NULL" if null else hx(x)))

    def order(self):
        rng = self.rng
        k = rng.random()
        if k < 0.35:
            self.lines.append("CMP %d %d" % (self.arg(), self.arg()))
        elif k < 0.6:
            self.lines.append("CMPREF %d %d" % (self.arg(), self.arg()))
        else:
            n = rng.choice([0, 1, 2, 3, 5, 8, 12])
            self.lines.append(" ".join(["SORT"] + [str(self.arg(0.1)) for _ in range(n)]))

    def write(self):
        rng = self.rng
        k = rng.random()
        if self.dst is None or k < 0.2:
            want = None
            if self.s and rng.random() < 0.7:
                # capacity aimed at "exactly fits" / "one byte short" for some live string
                ln = len(self.s[rng.choice(self.live())][0])
                pre = rand_bytes(rng, 4)[:4]
                want = max(0, len(pre) + ln * rng.choice([1, 1, 2, 3]) + rng.choice([-1, 0, 0, 1]))
                if want < len(pre):
                    pre = pre[:want]
            else:
                want = rng.choice([0, 1, 2, 5, 12, 13, 30])
                pre = rand_bytes(rng, 4)[:min(4, want)]
            self.lines.append("BUFINIT %d %s" % (want, hx(pre)))
            self.dst = (want, pre)
        elif k < 0.9:
            a = self.arg(0.05)
            self.lines.append("WRITE %d" % a)
            if a:
                cap, data = self.dst
                x = self.s[a][0]
                if len(data) + len(x) <= cap:       # only to keep NEWDST content guesses useful; TLC is the judge
                    self.dst = (cap, data + x)
        else:
            self.lines.append("WRITENB %d" % self.arg())

    def misc(self):
        rng = self.rng
        k = rng.random()
        if k < 0.2:
            self.lines.append("CURSOR %d" % self.arg())
        elif k < 0.4 and self.s:
            self.lines.append("BYTES %d" % rng.choice(self.live()))
        elif k < 0.62:
            x = self.content()
            r = rng.random()
            if 0 in x:
                first = x.index(0)
                mx = rng.choice([-1, len(x), len(x) + 100, first, first + 1, max(0, first - 1), 0, 1000000])
            elif r < 0.5:
                x = x + b"\0"
                first = len(x) - 1
                mx = rng.choice([-1, len(x), first, first + 1, max(0, first - 1), 4096])
            else:
                mx = rng.choice([len(x), len(x), max(0, len(x) - 1), 0, len(x) // 2])   # unterminated: max within the region
            self.lines.append("STRLEN %s %d" % (hx(x), mx))
        elif k < 0.74:
            self.lines.append("VALID %d" % self.arg(0.3))
        elif k < 0.86:
            self.lines.append("VALIDRAW %s %d" % (hx(self.content()), rng.choice([0, 0, 1, 0x20, 0x30, 0x80, 0xFF])))
        elif k < 0.9:
            self.lines.append("CVALID %d" % rng.choice([0, 1]))
        else:
            self.lines.append("SPACE %d" % rng.choice([8, 9, 10, 11, 12, 13, 14, 31, 32, 33, 0, 0x85, 0xA0, 0xFF, rng.randrange(256)]))


def random_exec(rng, nops):
    e = Env(rng)
    for i in range(nops):
        r = rng.random()
        if i < 3 or r < 0.20:
            e.create()
        elif r < 0.28:
            e.destroy()
        elif r < 0.58:
            e.eq()
        elif r < 0.72:
            e.order()
        elif r < 0.84:
            e.write()
        else:
            e.misc()
    return e.lines


def sort_exec(rng):
    """five closely related strings (prefixes, case variants, embedded 0x00, high bytes), then comparisons of every pair
    and sorts of longer lists with repeats and NULL entries"""
    e = Env(rng)
    base = rand_bytes(rng, 10)
    for d in range(1, NS + 1):
        x = variant(rng, base) if d > 1 else base
        how = rng.random()
        if how < 0.5:
            e.lines.append("NEWA %d %s" % (d, hx(x)))
            e.s[d] = (x, True)
        elif how < 0.75:
            e.lines.append("RAW %d %s" % (d, hx(x)))
            e.s[d] = (x, False)
        else:
            e.lines.append("NEWCUR %d %s" % (d, hx(x)))
            e.s[d] = (x, True)
    for a in range(0, NS + 1):
        for c in range(0, NS + 1):
            if rng.random() < 0.5:
                e.lines.append("%s %d %d" % (rng.choice(["CMP", "CMPREF", "EQ", "EQI"]), a, c))
    for _ in range(rng.randint(3, 8)):
        n = rng.choice([2, 3, 5, 8, 13, 20])
        e.lines.append(" ".join(["SORT"] + [str(rng.randint(0 if rng.random() < 0.3 else 1, NS)) for _ in range(n)]))
    for d in range(1, NS + 1):
        if e.s[d][1]:
            e.lines.append("%s %d" % (rng.choice(["DESTROY", "SECURE"]), d))
    return e.lines[:80]


def write_exec(rng):
    """fill a destination buffer string by string up to, exactly at and past its capacity; then read it back"""
    e = Env(rng)
    for d in range(1, 4):
        x = rand_bytes(rng, 6)
        e.lines.append("NEWA %d %s" % (d, hx(x)))
        e.s[d] = (x, True)
    for _ in range(rng.randint(1, 4)):
        lens = [len(e.s[d][0]) for d in (1, 2, 3)]
        pre = rand_bytes(rng, 3)[:3]
        cap = len(pre) + sum(rng.choice(lens) for _ in range(rng.randint(0, 4))) + rng.choice([-1, 0, 0, 0, 1])
        cap = max(cap, len(pre))
        e.lines.append("BUFINIT %d %s" % (cap, hx(pre)))
        e.dst = (cap, pre)
        for _ in range(rng.randint(2, 9)):
            a = rng.choice([1, 2, 3, 1, 2, 3, 0])
            e.lines.append("WRITE %d" % a)
            if a and len(e.dst[1]) + len(e.s[a][0]) <= cap:
                e.dst = (cap, e.dst[1] + e.s[a][0])
        if rng.random() < 0.7:
            e.lines.append("NEWDST 4")
            e.lines.append("EQBUF 4 %s %d" % (hx(e.dst[1] + b"A"), len(e.dst[1])))
            e.lines.append("SECURE 4")
    return e.lines[:80]


def run(ctx):
    thorough = ctx.tier == "thorough"
    exe = prepare(ctx)
    ctx.rule = ("execution = up to 5 string slots + one destination buffer and a sequence of <= 80 aws_string calls "
                "(constructors, destroy/destroy_secure, eq family, compare/comparator/sort, clone_or_reuse, "
                "write_from_whole_string, cursor/bytes/c_str, secure_strlen, validity); distinct = distinct script text; "
                "non-trivial = contains a constructor, a comparison and a destroy")
    ctx.assumptions += [
        "allocation cannot fail (aws_mem_acquire aborts on OOM): constructors never return NULL",
        "scripts respect the documented obligations: live arguments, destroy_secure only on strings that own their memory, "
        "the region given to aws_secure_strlen has a terminator within max or spans max bytes",
        "NULL operands of eq/compare/write_from_whole_string: two NULLs equal, NULL equals nothing else and sorts first, "
        "nothing is written (taken from the functions' entry conditions; the header text is silent)",
        "case folding is the C locale's: only A-Z/a-z pair up",
    ]
    ctx.mc(SPEC_DIR, "StringMC", "MC.cfg", timeout=3000, xmx="8g", required_actions=["StringMC!" + a for a in MC_ACTIONS])
    if thorough:
        ctx.mc(SPEC_DIR, "StringMC", "MC_thorough.cfg", timeout=3000, xmx="12g", coverage=False)
    want = 250 if not thorough else 3000
    scripts, _ = tlc.gen_scripts(SPEC_DIR, "StringMC", "Gen.cfg", ctx.outdir, num=want, depth=50, seed=ctx.seed, workers=4)
    fam = {}
    for s in scripts:        # simulation prints every candidate last step: keep one script per prefix
        key = repr(s["ops"][:-1])
        fam.setdefault(key, s)
    execs = [from_tlc(s) for s in list(fam.values())[:want * 2]]
    ctx.extra["tlc_generated_scripts"] = len(execs)
    exe = prepare(ctx)       # (the shared build directory may have been pruned while TLC ran)
    rng = random.Random(ctx.seed)
    nrand, nsort, nwrite = (1100, 250, 250) if not thorough else (25000, 5000, 5000)
    for _ in range(nrand):
        execs.append(random_exec(rng, rng.randint(10, 75)))
    for _ in range(nsort):
        execs.append(sort_exec(rng))
    for _ in range(nwrite):
        execs.append(write_exec(rng))
    ctx.extra["random_scripts"] = nrand
    ctx.extra["sort_scripts"] = nsort
    ctx.extra["write_scripts"] = nwrite
    # every execution ends by destroying what is left, call by call, so that a string the library fails to give back
    # is noticed inside the execution that created it
    execs = [ex + ["CLEANUP"] for ex in execs]
    ctors = ("NEW", "CLONE")
    for ex in execs:
        ctx.evaluations += 1
        has_new = any(ln.startswith(ctors) for ln in ex)
        has_cmp = any(ln.startswith(("EQ", "CMP", "SORT")) for ln in ex)
        has_del = any(ln.startswith(("DESTROY", "SECURE")) for ln in ex)
        if has_new and has_cmp and has_del:
            ctx.distinct.add(hash("\n".join(ex)))
    ctx.add_sample({"script": execs[0][:14]})
    ctx.add_sample({"script": execs[-1][:14]})
    pipeline.drive_and_validate(ctx, exe, execs, SPEC_DIR, "StringTrace", "Trace.cfg", label="string")
