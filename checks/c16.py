"""C16 overflow-checked arithmetic and time-unit conversion: MathClock.tla (definitions on unbounded naturals, Wide.tla)
is (1) model-checked at reduced width against plain integer mathematics and against a transcription of the portable
algorithms, and (2) the oracle for events recorded from the real helpers, every implementation variant side by side."""
import random

from vlib import build, pipeline
from vlib.common import CheckError

LEVEL = "exploration"
SPEC_DIR = "MathClock"
UNITS = [1, 1000, 1000000, 1000000000]
PER_EXEC = 60


def prepare(ctx):
    return build.build_harness("math_adapter", ["math_adapter.c"], cflags=["-Wno-unused-function"])


def boundary(w):
    mx = (1 << w) - 1
    s = {0, 1, mx - 1, mx}
    for k in range(1, w):
        s |= {(1 << k) - 1, 1 << k, (1 << k) + 1}
    return sorted(v for v in s if 0 <= v <= mx)


def core(w):
    mx = (1 << w) - 1
    s = {0, 1, 2, 3, mx - 1, mx}
    for k in (w // 2 - 1, w // 2, w // 2 + 1, w - 2, w - 1):
        s |= {(1 << k) - 1, 1 << k, (1 << k) + 1}
    return sorted(v for v in s if 0 <= v <= mx)


def rnd_val(rng, w):
    """boundary-biased random operand of at most w bits"""
    mx = (1 << w) - 1
    r = rng.random()
    if r < 0.3:
        k = rng.randint(0, w)
        return max(0, min(mx, (1 << k) + rng.choice([-2, -1, 0, 1, 2])))
    if r < 0.4:
        return mx - rng.randint(0, 3)
    return rng.getrandbits(rng.randint(1, w))


def arith_lines(rng, thorough):
    lines = []
    for ty, w in (("u32", 32), ("u64", 64), ("size", 64)):
        mx = (1 << w) - 1
        full = boundary(w)
        co = core(w) if not thorough else full
        for op in ("add", "mul", "sub"):
            pairs = set((a, b) for a in co for b in co)
            for b in full:
                if op == "mul" and b >= 1:
                    q = mx // b
                    pairs |= {(q, b), (min(mx, q + 1), b), (b, q), (b, min(mx, q + 1))}
                elif op == "add":
                    pairs |= {(mx - b, b), (min(mx, mx - b + 1), b), (b, mx - b)}
                elif op == "sub":
                    pairs |= {(b, b), (b, min(mx, b + 1)), (max(0, b - 1), b), (min(mx, b + 1), b)}
            nrand = 150 if not thorough else 4000
            for _ in range(nrand):
                a = rnd_val(rng, w)
                r = rng.random()
                if op == "mul" and a >= 1 and r < 0.6:
                    b = max(0, min(mx, mx // a + rng.choice([-1, 0, 1, 2])))
                elif op == "add" and r < 0.6:
                    b = max(0, min(mx, mx - a + rng.choice([-1, 0, 1, 2])))
                elif op == "sub" and r < 0.6:
                    b = max(0, min(mx, a + rng.choice([-1, 0, 1])))
                else:
                    b = rnd_val(rng, w)
                pairs.add((a, b))
            for a, b in sorted(pairs):
                lines.append("AR %s %s %d %d" % (op, ty, a, b))
    # the checked forms expanded inside a loop over 2..8 operand pairs, overflowing and not, in every mix (ARL)
    for ty, w in (("u32", 32), ("u64", 64)):
        mx = (1 << w) - 1
        for op in ("add", "mul"):
            for _ in range(40 if not thorough else 1500):
                prs = []
                for _k in range(rng.randint(2, 8)):
                    a = rnd_val(rng, w)
                    if op == "add":
                        b = max(0, min(mx, mx - a + rng.choice([-3, 0, 1, 2, 5]))) if rng.random() < 0.6 else rnd_val(rng, w)
                    else:
                        b = max(0, min(mx, (mx // a if a else 0) + rng.choice([-1, 0, 1, 2]))) if rng.random() < 0.6 else rnd_val(rng, w)
                    prs.append("%d %d" % (a, b))
                lines.append("ARL %s %s %s" % (op, ty, " ".join(prs)))
    # one operand a compile-time constant (8 constants x both sides, each in an out-of-line function of its own: the
    # situation in which a compiler lets operands of an inline-assembly statement share a register)
    for ty, w in (("u32", 32), ("u64", 64)):
        mx = (1 << w) - 1
        ns = sorted(set([0, 1, 2, 3, mx, mx - 1, mx - 2, mx // 2, mx // 2 + 1, (1 << (w // 2)) - 1, 1 << (w // 2), (1 << (w // 2)) + 1] +
                        [rnd_val(rng, w) for _ in range(6 if not thorough else 200)]))
        for op in ("add", "mul", "sub"):
            for ki in range(8):
                for n in ns:
                    lines.append("ARK %s %s %d %d" % (op, ty, ki, n))
    return lines


def bits_lines(rng, thorough):
    lines = []
    for ty, w in (("u32", 32), ("i32", 32), ("u64", 64), ("i64", 64), ("size", 64)):
        vals = set(boundary(w))
        for _ in range(60 if not thorough else 2000):
            vals.add(rnd_val(rng, w))
            vals.add((rng.getrandbits(w) << rng.randint(0, w - 1)) & ((1 << w) - 1))
        lines += ["BITS %s %d" % (ty, v) for v in sorted(vals)]
    vals = set(boundary(64))
    for _ in range(100 if not thorough else 3000):
        vals.add(rnd_val(rng, 64))
    lines += ["P2 %d" % v for v in sorted(vals)]
    return lines


def minmax_lines(rng, thorough):
    lines = []
    for ty, w in (("u8", 8), ("i8", 8), ("u16", 16), ("i16", 16), ("u32", 32), ("i32", 32), ("int", 32), ("u64", 64),
                  ("i64", 64), ("size", 64)):
        mx = (1 << w) - 1
        vals = sorted({0, 1, 2, (1 << (w - 1)) - 1, 1 << (w - 1), (1 << (w - 1)) + 1, mx - 1, mx})
        pairs = set((a, b) for a in vals for b in vals)
        for _ in range(10 if not thorough else 300):
            pairs.add((rnd_val(rng, w), rnd_val(rng, w)))
        lines += ["MM %s %d %d" % (ty, a, b) for a, b in sorted(pairs)]
    return lines


def conv_lines(rng, thorough):
    mx = (1 << 64) - 1
    lines = []
    tb = boundary(64)
    for fo in UNITS:
        for fn in UNITS:
            ts = set(tb if thorough else core(64)) | {0, 1, 999, 1000, 1001, 999999999, 1000000000, 1000000001}
            # around the saturation point floor((2^64-1) * fo / fn) and whole-second multiples
            sat = mx * fo // fn
            for d in (-2, -1, 0, 1, 2, fo - 1, fo, fo + 1):
                ts.add(max(0, min(mx, sat + d)))
                ts.add(max(0, min(mx, (mx // fn) * fo + d)))
            for _ in range(8 if not thorough else 300):
                ts.add(rnd_val(rng, 64))
            for t in sorted(ts):
                lines.append("CV unit %d %d %d" % (t, fo, fn))
    nrand = 500 if not thorough else 12000
    for _ in range(nrand):
        r = rng.random()
        if r < 0.3:
            fn = rng.randint(1, 1000)
            fo = fn * rng.randint(1, 1000000)          # old a multiple of new: documented remainder
        elif r < 0.5:
            fo = rng.choice([1, 2, 3, 7, 10, 999999937, 1000000000, 999999999, 24000000, 3579545, 19200000])
            fn = rng.choice([1, 2, 3, 7, 10, 999999937, 1000000000, 999999999, 1000, 1000000])
        else:
            fo, fn = rng.randint(1, 10 ** 9), rng.randint(1, 10 ** 9)
        fo = min(fo, 10 ** 9)
        r = rng.random()
        if r < 0.4:
            t = max(0, min(mx, mx * fo // fn + rng.choice([-1, 0, 1, 2, fo])))   # saturation boundary
        elif r < 0.6:
            t = max(0, min(mx, rng.getrandbits(rng.randint(1, 64)) // fo * fo + rng.choice([-1, 0, 1])))
        else:
            t = rnd_val(rng, 64)
        lines.append("CV u64 %d %d %d" % (t, fo, fn))
    return lines


def executions(lines):
    return [["RESET"] + lines[i:i + PER_EXEC] for i in range(0, len(lines), PER_EXEC)]


def run(ctx):
    thorough = ctx.tier == "thorough"
    exe = prepare(ctx)
    ctx.rule = ("evaluation = one helper function of one implementation variant (lib dispatch / fallback / gcc overflow "
                "builtins / x86-64 asm / gcc bit builtins) applied to one operand tuple; distinct = distinct script line "
                "(function family, type, operands); non-trivial = every line (operands are drawn from the boundary set "
                "{0,1,2^k-1,2^k,2^k+1,MAX-1,MAX,floor(MAX/b),floor(MAX/b)+1,MAX-b,MAX-b+1} and seeded boundary-biased "
                "random values)")
    ctx.assumptions += [
        "TLC is the oracle over an enumerated operand set (level exploration): untested operands are not covered",
        "frequencies 1..10^9 (the property's quantifier); beyond that the sub-second product may saturate "
        "(model: exact iff (fOld-1)*fNew <= MAX, checked exhaustively at 6 bits)",
        "float/double min/max are not evaluated (no exact TLC representation)",
        "*r after a failing checked call is unspecified and not compared",
        "remainder when the old frequency is not a multiple of the new one: 0 (clock.inl) or untouched (clock.h) accepted",
        "trusted: the adapter's 15-bit limb split (vh_wide) and the 2^63 bias used to log signed min/max operands",
    ]
    # 1. design level: Wide against native arithmetic; definitions and transcribed portable algorithms at 6 bits
    r = ctx.mc("common", "WideMC", "WideMC_b4.cfg" if not thorough else "WideMC_b4_thorough.cfg", timeout=1500,
               required_actions=[])
    ctx.mc("common", "WideMC", "WideMC_b15.cfg", timeout=600, required_actions=[])
    r = ctx.mc(SPEC_DIR, "MathClockMC", "MC.cfg" if not thorough else "MC_thorough.cfg", timeout=3000,
               required_actions=["MathClockMC!Fan"])
    want = 4096 if not thorough else 16384
    if r.distinct != want:
        raise CheckError("MODEL-BROKEN: MathClockMC explored %d operand pairs, expected %d" % (r.distinct, want))
    # 2. enumerated + seeded random operands through every variant of the real helpers, judged by TLC
    rng = random.Random(ctx.seed)
    lines = arith_lines(rng, thorough) + bits_lines(rng, thorough) + minmax_lines(rng, thorough) + conv_lines(rng, thorough)
    ctx.extra["script_lines"] = len(lines)
    for ln in lines:
        ctx.distinct.add(ln)
    execs = executions(lines)
    ctx.add_sample({"script": execs[0][:6]})
    ctx.add_sample({"script": execs[-1][:6]})
    pipeline.drive_and_validate(ctx, exe, execs, SPEC_DIR, "MathClockTrace", "Trace.cfg", label="math", nbatch=16)
    # the helpers are inline (compiler builtins / inline assembly): what the compiler makes of each call site depends on the
    # compiler and its optimisation level, so the arithmetic lines also run in the release configuration (gcc -O2 -DNDEBUG)
    exe_rel = build.build_harness("math_adapter_rel", ["math_adapter.c"], cflags=["-Wno-unused-function"], variant="rel")
    rel_execs = executions(arith_lines(random.Random(ctx.seed + 1), thorough))
    pipeline.drive_and_validate(ctx, exe_rel, rel_execs, SPEC_DIR, "MathClockTrace", "Trace.cfg", label="math_rel", nbatch=16)
    # evaluations = what the adapter counted (variants x functions), summed over the batch traces
    import glob
    import json
    import os
    ev = 0
    per_kind = {}
    sample_done = False
    for tp in sorted(glob.glob(os.path.join(ctx.outdir, "math", "b*.clean.ndjson"))):
        for line in open(tp):
            e = json.loads(line)
            per_kind[e["e"]] = per_kind.get(e["e"], 0) + 1
            if e["e"] == "End":
                ev += e.get("evals", 0)
            elif e["e"] == "Arith" and not sample_done and e["op"] == "mul" and e["ty"] == "u64" and e["res"][0]["ok"] == 0:
                ctx.add_sample({"event": e})
                sample_done = True
    ctx.evaluations = ev
    ctx.extra["events_by_kind"] = per_kind
