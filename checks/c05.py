"""C05 base64 / hex / UTF-8: Codec.tla (pure definitions) model-checked on small alphabets; enumerated and seeded
vectors run through the real library in two processes (AWS_COMMON_AVX2=1 vectorised, =0 portable); TLC validates every
recorded call of each process against the same definitions (CodecTrace.tla)."""
import base64
import glob
import json
import os
import random
import re

from vlib import build, pipeline, tlc
from vlib.common import VERIF

LEVEL = "model_checking"
SPEC_DIR = "Codec"
CANARY = 0xEE
PER_EXEC = 50
B64ALPHA = b"ABCDEFGHIJKLMNOPQRSTUVWXYZabcdefghijklmnopqrstuvwxyz0123456789+/"

# known_findings.txt records (ctx.known: dicts with status / property / id / commit / what) that enable a relaxation of
# the deviation action Dev_B64DecAccepts in CodecTrace.tla. Only status "known" counts ("fixed" enables nothing):
#   id F4 -> relaxation "F4"  (portable path: final quantum with '=' followed by data, or non-zero unused bits)
#   id F7 -> relaxation "NUL" (portable path: byte 0x00 accepted as a digit)
# The deviation only explains portable-path B64Dec events whose text is well formed once exactly the enabled
# relaxations are applied; every other rejected event is a VIOLATION.
DEV_OF_ID = {"F4": "F4", "F7": "NUL"}
DEV_TEXT = {
    "F4": "portable base64 decoder (AWS_COMMON_AVX2=0) accepts a malformed final quantum: data after '=' or non-zero "
          "unused bits (e.g. 'AB==', 'AAB=', 'AA=A'; the vector path rejects them)",
    "NUL": "portable base64 decoder (AWS_COMMON_AVX2=0) accepts the byte 0x00 as a base64 digit (decoding table entry "
           "0 is 64 instead of invalid; the vector path rejects it)",
}


def prepare(ctx):
    return build.build_harness("codec_adapter", ["codec_adapter.c"], cflags=["-Wno-unused-function"])


def hx(b):
    return bytes(b).hex() if len(b) else "-"


def known_devs(ctx):
    recs = list(ctx.known)
    alt = os.environ.get("VERIF_KNOWN_FILE")          # test seam: an additional file in the known_findings.txt format
    if alt and os.path.exists(alt):
        for line in open(alt):
            m = re.match(r"known: property=(\S+) id=(\S+) (.*)$", line.strip())
            if m and m.group(1) == ctx.pid:
                recs.append({"status": "known", "property": m.group(1), "id": m.group(2), "what": m.group(3), "commit": ""})
    devs = {}
    for r in recs:
        if r.get("status") == "known" and r.get("property") == ctx.pid and r.get("id") in DEV_OF_ID:
            devs[DEV_OF_ID[r["id"]]] = r
    return devs


# ------------------------------------------------------------------------------------------------ vectors
def b64_vectors(rng, thorough):
    L = []
    enc = lambda d: base64.b64encode(bytes(d))
    # known-finding reproductions first (DESIGN 3.3: always executed)
    for t in (b"AB==", b"AAB=", b"AA=A", b"AAAAAB==", b"A" * 32 + b"AAB="):
        L.append("B64DEC %s %d 0 %d" % (hx(t), 3 * len(t) // 4, CANARY))
    # A. every length 0..100 (all residues mod 3 / 4 / 24 / 32): encode, decode, length predictions, hex
    for n in range(0, 101):
        datas = [bytes(rng.getrandbits(8) for _ in range(n))]
        if n in (1, 2, 3, 24, 32, 33, 48, 96, 100) or thorough:
            datas += [b"\x00" * n, b"\xff" * n]
        for d in datas:
            t = enc(d)
            L.append("B64ENC %s %d 0 %d" % (hx(d), len(t), CANARY))
            L.append("B64DEC %s %d 0 %d" % (hx(t), n, CANARY if CANARY not in d else 0x11))
            L.append("B64DLEN %s" % hx(t))
            L.append("HEXENC %s %d 0 %d" % (hx(d), 2 * n, CANARY))
            h = d.hex().encode()
            L.append("HEXDEC %s %d 0 %d" % (hx(h), n, CANARY if CANARY not in d else 0x11))
            if n % 7 == 0:
                L.append("HEXDEC %s %d 0 %d" % (hx(h.upper()), n, CANARY))
                L.append("HEXDEC %s %d 0 %d" % (hx(h[1:]), n, CANARY))           # odd length: leading nibble
                L.append("HEXAPP %s %d %d" % (hx(d), rng.choice([0, 1, 2 * n, 2 * n + 3]), 0))
                L.append("HEXAPP %s %d %d" % (hx(d), 2 * n + 8, 3))
        for fn in ("b64enc", "hexenc", "hexdec"):
            L.append("LEN %s %d" % (fn, n))
    # length predictions near the overflow points
    mx = (1 << 64) - 1
    big = {mx, mx - 1, mx - 2, mx - 3, 1 << 63, (1 << 63) - 1, (1 << 63) + 1, 3 * (1 << 62), 3 * (1 << 62) - 1,
           3 * (1 << 62) - 2, 3 * (1 << 62) - 3, 3 * (1 << 62) - 4, 3 * (1 << 62) + 1, 1 << 62, (1 << 62) - 1, 1 << 32, (1 << 32) - 1}
    for _ in range(20 if not thorough else 400):
        big.add(rng.getrandbits(rng.randint(33, 64)))
    for n in sorted(big):
        for fn in ("b64enc", "hexenc", "hexdec"):
            L.append("LEN %s %d" % (fn, n))
    # B. every byte value at each position of the final quantum, each padding shape; body of 0 / 32 / 64 characters
    for body in (0, 32, 64):
        pre = bytes(rng.choice(B64ALPHA) for _ in range(body))
        for shape in (b"AAAA", b"AAA=", b"AA=="):
            for pos in range(4):
                if body == 0 or thorough:
                    vals = range(256)
                else:
                    vals = sorted(set(B64ALPHA[::3]) | {0, 61, 10, 32, 45, 95, 127, 128, 255, 64, 91, 96, 123, 47, 43, 48, 57}
                                  | {rng.getrandbits(8) for _ in range(6)})
                for v in vals:
                    q = bytearray(shape)
                    q[pos] = v
                    t = pre + bytes(q)
                    L.append("B64DEC %s %d 0 %d" % (hx(t), 3 * len(t) // 4, CANARY))
    # every byte value at each position of the last 1..3 input bytes of the encoder
    for body in (0, 24, 48):
        pre = bytes(rng.getrandbits(8) for _ in range(body))
        for k in (1, 2, 3):
            for pos in range(k):
                vals = range(256) if (body == 0 or thorough) else sorted({0, 1, 3, 4, 15, 16, 63, 64, 127, 128, 252, 255} | {rng.getrandbits(8) for _ in range(8)})
                for v in vals:
                    q = bytearray(rng.getrandbits(8) for _ in range(k))
                    q[pos] = v
                    d = pre + bytes(q)
                    L.append("B64ENC %s %d 0 %d" % (hx(d), 4 * ((len(d) + 2) // 3), CANARY))
    # single hex digits: every byte value in both digit positions and as a lone (leading-nibble) digit
    for v in range(256):
        L.append("HEXDEC %s 1 0 %d" % (hx(bytes([v, 0x37])), CANARY))
        L.append("HEXDEC %s 1 0 %d" % (hx(bytes([0x62, v])), CANARY))
        L.append("HEXDEC %s 1 0 %d" % (hx(bytes([v])), CANARY))
        L.append("HEXENC %s 2 0 %d" % (hx(bytes([v])), CANARY))
    # C. output capacity {need-1, need, need+1} x pre-existing length {0, 1, 5}
    for n in (0, 1, 2, 3, 4, 5, 23, 24, 25, 31, 32, 33, 47, 48, 49, 72):
        d = bytes(rng.getrandbits(8) for _ in range(n))
        t = enc(d)
        for pl in (0, 1, 5):
            for need in sorted({len(t) + pl, len(t)}):
                for cap in (need - 1, need, need + 1):
                    if cap >= pl:
                        L.append("B64ENC %s %d %d %d" % (hx(d), cap, pl, CANARY))
            for need in sorted({n + pl, n}):
                for cap in (need - 1, need, need + 1):
                    if cap >= pl:
                        L.append("B64DEC %s %d %d %d" % (hx(t), cap, pl, 0x11 if CANARY in d else CANARY))
                        L.append("HEXDEC %s %d %d %d" % (hx(d.hex().encode()), cap, pl, 0x11 if CANARY in d else CANARY))
        for cap in (2 * n - 1, 2 * n, 2 * n + 1):
            if cap >= 0:
                L.append("HEXENC %s %d 0 %d" % (hx(d), cap, CANARY))          # header: assumes the buffer is empty
    # D. malformed text: a bad character at every position of 8 / 36 / 68 character texts, wrong lengths
    bad = [61, 0, 32, 45, 95, 128, 255, 10, 64, 91, 96, 123]
    for n in (8, 36, 68):
        base = bytearray(rng.choice(B64ALPHA) for _ in range(n))
        for pos in range(n):
            for c in (bad if (n == 8 or thorough) else [bad[(pos + k) % len(bad)] for k in range(4)] + [61]):
                t = bytearray(base)
                t[pos] = c
                L.append("B64DEC %s %d 0 %d" % (hx(t), 3 * n // 4, CANARY))
    for n in (1, 2, 3, 5, 6, 7, 9, 30, 31, 33, 34, 35, 65, 66, 67):
        t = bytes(rng.choice(B64ALPHA) for _ in range(n))
        L.append("B64DEC %s %d 0 %d" % (hx(t), n, CANARY))
        L.append("B64DEC %s %d 0 %d" % (hx(t[:-1] + b"="), n, CANARY))
        L.append("B64DLEN %s" % hx(t))
    for t in (b"====", b"A===", b"=AAA", b"A=AA", b"AA=A", b"==AA", b"AAAA====", b"AAA=AAAA", b"AA==AAAA", b"=", b"=="):
        L.append("B64DEC %s %d 0 %d" % (hx(t), 3 * len(t) // 4 + 3, CANARY))
        L.append("B64DLEN %s" % hx(t))
    # the appending encoder on buffers that already hold more than 4 GiB (address space only): at, just below and across the
    # 2^32 offset, every input length mod 3, exact fit / one short / spare room
    for k, dd in [(1, 0), (1, 5), (1, 100), (1, 4095), (0, 2 ** 32 - 4), (0, 2 ** 32 - 1), (2, 7), (3, 4000)]:
        for n in ((0, 1, 2, 3, 4, 6, 7, 48, 100) if thorough else rng.sample([1, 2, 3, 4, 6, 7, 48, 100], 3)):
            d = bytes(rng.getrandbits(8) for _ in range(n))
            L.append("B64ENCAT %s %d %d %d" % (hx(d), k, dd, rng.choice([0, 0, 1, 9, -1 if n else 0])))
    # seeded random: valid round trips of random length and randomly damaged texts
    for _ in range(250 if not thorough else 6000):
        n = rng.choice([rng.randint(0, 12), rng.randint(0, 100), rng.randint(90, 220)])
        d = bytes(rng.getrandbits(8) for _ in range(n))
        t = bytearray(enc(d))
        pl = rng.choice([0, 0, 1, 5])
        L.append("B64ENC %s %d %d %d" % (hx(d), len(t) + pl + rng.choice([0, 0, 1, -1 if len(t) else 0]), pl, CANARY))
        r = rng.random()
        if r < 0.5 and t:
            for _k in range(rng.choice([1, 1, 2])):
                t[rng.randrange(len(t))] = rng.choice([rng.getrandbits(8), 61, rng.choice(B64ALPHA)])
        elif r < 0.6 and t:
            t = t[:rng.randrange(len(t))]
        L.append("B64DEC %s %d %d %d" % (hx(t), max(0, 3 * (len(t) // 4) + rng.choice([0, 0, 1, 3, -1])), rng.choice([0, 0, 1]), 0x11 if CANARY in d else CANARY))
        if rng.random() < 0.3:
            h = bytearray(d.hex().encode())
            if h and rng.random() < 0.5:
                h[rng.randrange(len(h))] = rng.choice([rng.getrandbits(8), 71, 103, 47, 58, 64, 96])
            L.append("HEXDEC %s %d 0 %d" % (hx(h), (len(h) + 1) // 2 + rng.choice([0, 0, 1]), 0x11 if CANARY in d else CANARY))
    return L


UTF8_SEQS = [
    "00", "41", "7f", "c280", "c3a9", "dfbf", "e0a080", "e0bfbf", "e18080", "e282ac", "ecbfbf", "ed8080", "ed9fbf", "ee8080",
    "efbfbf", "efbfbd", "f0908080", "f09f9880", "f0bfbfbf", "f1808080", "f3bfbfbf", "f4808080", "f48fbfbf", "efbbbf",
    # over-long forms
    "c080", "c1bf", "e08080", "e09fbf", "f0808080", "f08fbfbf",
    # surrogates
    "eda080", "edbfbf", "edaf80", "edb080",
    # above U+10FFFF (left open by the property: judged for chunking independence only)
    "f4908080", "f5808080", "f7bfbfbf",
    # 5/6-byte leads and bytes that can never appear
    "f888808080", "fc8480808080", "fe", "ff", "f8", "fb",
    # lone continuation bytes, bad continuations, truncated sequences
    "80", "bf", "c2", "c241", "c2c2", "e282", "e28241", "e2", "e241", "f09f98", "f09f", "f0", "f09f9841", "f09f41", "e2c280",
    "c2807f80", "dfc0",
]


def utf8_texts(rng, thorough, tlc_texts):
    texts = []
    seqs = [bytes.fromhex(s) for s in UTF8_SEQS]
    for s in seqs:
        texts.append(s)
        texts.append(b"A" + s + b"B")
    # byte-order-mark family: every sequence (well-formed or not) behind a UTF-8 BOM, and behind the other encodings'
    # marks (which are themselves ill-formed UTF-8): a text is judged as a whole, whatever it starts with
    bom8 = bytes.fromhex("efbbbf")
    for s in seqs:
        texts.append(bom8 + s)
        if thorough or rng.random() < 0.5:
            texts.append(bom8 + b"ok" + s + b"!")
    for mark in ("fffe", "feff", "0000feff", "fffe0000"):
        texts.append(bytes.fromhex(mark) + b"A")
        texts.append(bytes.fromhex(mark) + rng.choice(seqs))
    # insertion family: one foreign byte (ASCII, continuation, lead) inserted at every inner position of a well-formed
    # multi-byte sequence; with every 2-chunking below, the foreign byte also arrives as the first byte of a chunk
    for s in seqs[3:24]:
        for pos in range(1, len(s)):
            for b in (0x41, 0x28, 0x80, 0xc3, 0x00) if thorough or pos == 1 else (rng.choice([0x41, 0x28, 0x7f]),):
                texts.append(s[:pos] + bytes([b]) + s[pos:])
    for _ in range(60 if not thorough else 1500):
        k = rng.choice([2, 2, 3])
        texts.append(b"".join(rng.choice(seqs) for _ in range(k)))
    # ASCII runs as long as and longer than a machine word (and two, and four) before, between and behind multi-byte sequences,
    # whole and cut short: whatever a decoder does several bytes at a time meets every state it can be in
    runs = []
    for _ in range(24 if not thorough else 400):
        pieces = []
        for _k in range(rng.choice([1, 2, 2, 3])):
            s = rng.choice(seqs[:24])
            if rng.random() < 0.4 and len(s) > 1:
                s = s[: rng.randint(1, len(s) - 1)]               # truncated: the ASCII run arrives where a continuation is due
            pieces.append(bytes(rng.choice(b"abcXYZ012 .") for _ in range(rng.choice([7, 8, 9, 15, 16, 17, 31, 32, 33]))) if rng.random() < 0.8 else b"")
            pieces.append(s)
        pieces.append(bytes(rng.choice(b"abcXYZ012 .") for _ in range(rng.choice([0, 7, 8, 9, 16]))))
        runs.append(b"".join(pieces))
    texts.append(b"")
    texts.append(bytes.fromhex("efbbbf") + "héllo € \U0001f600".encode())
    texts += [bytes(t) for t in tlc_texts]
    seen, out = set(), []
    for t in texts:
        if t not in seen and len(t) <= 24:
            seen.add(t)
            out.append(t)
    for t in runs:
        if t not in seen and len(t) <= 120:
            seen.add(t)
            out.append(t)
    return out


def utf8_execution(rng, t, n3):
    """one text: whole, then every 2-chunking and n3 sampled 3-chunkings through one incremental decoder"""
    ex = ["RESET", "U8WHOLE %s" % hx(t)]
    n = len(t)
    splits = [(i, n) for i in range(n + 1)]
    tri = [(i, j) for i in range(n + 1) for j in range(i, n + 1) if 0 < i < j < n]
    rng.shuffle(tri)
    splits += tri[:n3]
    # each chunking is run twice: through a decoder with a code point callback and through one created without
    # (validation only: same verdicts, no code points)
    for new in ("new", "newnocb"):
        hows = [new, "keep", "reset"]
        for k, (i, j) in enumerate(splits if new == "new" else splits[:n + 1]):
            if k > 0 and k % 5 == 0 and n > 1:
                # dirty the decoder with a prefix of the text, then reset explicitly
                ex += ["U8BEGIN reset", "U8UPD %s" % hx(t[:rng.randint(1, n - 1)]), "U8BEGIN reset"]
            else:
                ex.append("U8BEGIN %s" % hows[0 if k == 0 else 1 + (k % 2)])
            for part in (t[:i], t[i:j], t[j:]):
                if len(part) or rng.random() < 0.15:
                    ex.append("U8UPD %s" % hx(part))
            ex.append("U8FIN")
    return ex


# ------------------------------------------------------------------------------------------------ run
def run(ctx):
    thorough = ctx.tier == "thorough"
    exe = prepare(ctx)
    ctx.rule = ("evaluation = one call of a codec function (base64/hex encode, decode, length prediction; UTF-8 whole / "
                "incremental update / finalize) on one CPU path; distinct = distinct script line; non-trivial = lines "
                "with a non-empty input")
    ctx.assumptions += [
        "CPU path is selected per process by AWS_COMMON_AVX2 (read once by the library); the host and the build must "
        "support AVX2 for the vector path to be exercised (recorded in extra.paths)",
        "append-at-len versus store-at-0 is not documented per function: both accepted; error codes are not compared",
        "hex_encode is only called with an empty buffer (documented precondition); upper-case hex digits may be accepted or refused",
        "code points above U+10FFFF: accepted by the pinned library, forbidden by RFC 3629, not decided by the property - "
        "such texts are only required to behave identically for every chunking",
        "'bytes actually written' is observed through a canary fill (a written byte equal to the canary is invisible)",
        "exhaustive only on the model (alphabets of 4-14 byte values, lengths <= 4..8); the code is covered on the enumerated vectors",
    ]
    # 1. design level
    mcs = [("MC_bytes.cfg", 9331), ("MC_text.cfg", 37449), ("MC_text8.cfg", 87381), ("MC_hex.cfg", 4681), ("MC_utf8.cfg", 41371)]
    if thorough:
        mcs = [("MC_bytes_thorough.cfg", None), ("MC_text.cfg", None), ("MC_text8.cfg", None), ("MC_hex.cfg", None), ("MC_utf8_thorough.cfg", None)]
    for cfg, want in mcs:
        r = ctx.mc(SPEC_DIR, "CodecMC", cfg, required_actions=["CodecMC!Extend"], timeout=3000, xmx="8g")
        if want is not None and r.distinct != want:
            from vlib.common import CheckError
            raise CheckError("MODEL-BROKEN: CodecMC %s explored %d strings, expected %d" % (cfg, r.distinct, want))
    # 2. vectors: TLC-generated UTF-8 texts + enumerated + seeded random
    scripts, _ = tlc.gen_scripts(SPEC_DIR, "CodecMC", "Gen.cfg", ctx.outdir, num=60 if not thorough else 1500, depth=10,
                                 seed=ctx.seed, workers=4)
    tlc_texts = sorted({tuple(s["text"]) for s in scripts if 2 <= len(s["text"]) <= 9})
    rng = random.Random(ctx.seed)
    rng.shuffle(tlc_texts)
    tlc_texts = tlc_texts[:150 if not thorough else 4000]
    ctx.extra["tlc_generated_utf8_texts"] = len(tlc_texts)
    lines = b64_vectors(rng, thorough)
    execs = [["RESET"] + lines[i:i + PER_EXEC] for i in range(0, len(lines), PER_EXEC)]
    for t in utf8_texts(rng, thorough, tlc_texts):
        execs.append(utf8_execution(rng, t, 3 if not thorough else 12))
    for ex in execs:
        for ln in ex[1:]:
            if not ln.endswith(" -") and " - " not in ln:
                ctx.distinct.add(ln)
    ctx.add_sample({"script": execs[0][:8]})
    ctx.add_sample({"script": execs[-1][:10]})

    # 3. both CPU paths, same vectors, same specification
    devs = known_devs(ctx)
    tlc_env = {"VERIF_DEV_" + d: "1" for d in devs}
    fired = {}

    def on_fired(info):
        for ln in info.printed:
            m = re.match(r'<<"FIRED", \{([^}]*)\}, <<([0-9, ]*)>>, (-?\d+), (-?\d+)>>', ln)
            if m:
                names = [x.strip().strip('"') for x in m.group(1).split(",")]
                text = bytes(int(x) for x in m.group(2).split(",")) if m.group(2).strip() else b""
                for nm in names:
                    fired.setdefault(nm, set()).add((text, int(m.group(3)), int(m.group(4))))

    probe = pipeline.run_harness(exe, ["RESET", "END"], os.path.join(ctx.outdir, "probe"), "probe", env={"AWS_COMMON_AVX2": "0"})
    hw = bool(probe[2] and probe[2][0].get("hw_avx2"))
    paths = [("portable", "0")] + ([("avx2", "1")] if hw else [])
    ctx.extra["paths"] = [p for p, _ in paths]
    if not hw:
        ctx.inconclusive.append("host CPU has no AVX2: the vectorised path was not executed, only the portable one")
    for label, val in paths:
        pipeline.drive_and_validate(ctx, exe, execs, SPEC_DIR, "CodecTrace", "Trace.cfg", label=label, nbatch=16,
                                    env={"AWS_COMMON_AVX2": val}, tlc_env=tlc_env, on_fired=on_fired)
    # the process-locale family (lib/vlib/locale8.py): a slice of the same executions in a process that called setlocale()
    from vlib import locale8
    locale8.rerun(ctx, exe, execs[::4] if not thorough else execs[::2], SPEC_DIR, "CodecTrace", "Trace.cfg", "codec", nbatch=8,
                  base_env={"AWS_COMMON_AVX2": "0"}, tlc_env=tlc_env, on_fired=on_fired)
    # 4. several threads at once, each on buffers of its own (a stateless API): controlled schedules validated by
    # CodecVsTrace.tla on both paths, and a data-race scan on the ThreadSanitizer build (hidden shared state is a race)
    import base64 as _b64
    exe_vs = build.build_harness("codec_scenario", ["codec_scenario.c"], cflags=["-Wno-unused-function"], wrap=True)
    blocks = []
    for _ in range(100 if not thorough else 2500):
        sc = []
        for k in range(1, rng.randint(2, 3) + 1):
            ops = []
            for _o in range(rng.randint(3, 10)):
                n = rng.choice([0, 1, 2, 3, 5, 11, 21, 22, 23, 24, 25, 31, 32, 33, 47, 48, 49, 71, 72, 96, 100])
                raw = bytes(rng.randrange(256) for _ in range(n))
                kind = rng.choice(["be", "bd", "bd", "he", "hd"])
                if kind == "be":
                    inp, need = raw, 4 * ((n + 2) // 3) + 1
                elif kind == "bd":
                    inp, need = _b64.b64encode(raw), n
                    if inp and rng.random() < 0.15:                     # malformed: must be refused in every thread
                        i = rng.randrange(len(inp))
                        inp = inp[:i] + rng.choice([b"=", b"*", b"\x00"]) + inp[i + 1:]
                elif kind == "he":
                    inp, need = raw, 2 * n + 1
                else:
                    inp, need = raw.hex().encode(), n
                cap = max(0, need + rng.choice([0, 0, 0, 1, 7, -1]))
                pre = rng.choice([0, 0, 1, 5]) if kind in ("be", "he") else 0
                ops.append("%s:%s:%d:%d" % (kind, inp.hex(), cap + pre, pre))
            sc.append("THREAD %d %s" % (k, " ".join(ops)))
        blocks.append((rng.choice(["rand %d", "pct %d 2 60", "pct %d 3 100"]) % rng.randrange(1, 10 ** 6), sc))
    nvs = 0
    for label, val in paths:
        n1, _acc = pipeline.drive_vsched(ctx, exe_vs, blocks if val == "1" or not hw else blocks[::3], SPEC_DIR, "CodecVsTrace",
                                         "VsTrace.cfg", label="vs_" + label, env={"AWS_COMMON_AVX2": val})
        nvs += n1
    # the race scan on both CPU paths too: tables and caches that only one path has are only raced over there
    for label, val in paths:
        pipeline.race_scan(ctx, "codec_scenario", "codec_scenario.c", blocks[: (80 if not thorough else 1500)], label="race_" + label,
                           env={"AWS_COMMON_AVX2": val})
    ctx.extra["threaded_executions"] = nvs
    # evaluations / per-kind counts / event-by-event comparison of the two traces (diagnostic, not a verdict)
    kinds, total = {}, 0
    traces = {}
    for label, _ in paths:
        evs = []
        for tp in sorted(glob.glob(os.path.join(ctx.outdir, label, "b*.clean.ndjson"))):
            evs += pipeline.read_trace(tp)
        traces[label] = evs
        for e in evs:
            if e["e"] not in ("Reset", "End", "U8Begin"):
                kinds[e["e"]] = kinds.get(e["e"], 0) + 1
                total += 1
    ctx.evaluations = total
    ctx.extra["events_by_kind_both_paths"] = kinds
    if len(traces) == 2:
        a, b = traces["portable"], traces["avx2"]
        keys = ("e", "inp", "len", "out", "cps", "r", "n", "fn")       # what the property compares: verdict + reported bytes
        diffs, scratch = [], 0
        for x, y in zip(a, b):
            if x.get("e") == "Reset":
                continue
            # reported bytes only exist for a successful call: after a refusal out is the caller's old content, which a
            # store-from-0 decoder may already have overwritten (scratch, counted separately below)
            px = [x.get(k) for k in keys if k != "out" or x.get("rc", 0) == 0] + [x.get("rc", 0) == 0]
            py = [y.get(k) for k in keys if k != "out" or y.get("rc", 0) == 0] + [y.get("rc", 0) == 0]
            if px != py:
                diffs.append({"portable": {k: x.get(k) for k in ("e", "inp", "rc", "len", "out", "wrote")},
                              "avx2": {k: y.get(k) for k in ("e", "inp", "rc", "len", "out", "wrote")}})
            elif x.get("wrote") != y.get("wrote") or x.get("out") != y.get("out"):
                scratch += 1       # same verdict and bytes, different extent of (unreported) scratch writes
        ctx.extra["path_comparison"] = {"events_compared": min(len(a), len(b)), "same_length": len(a) == len(b),
                                        "differing_verdict_or_bytes": len(diffs), "examples": diffs[:6],
                                        "same_result_different_scratch_writes": scratch}
    # known findings that fired (only inputs matching the record's structural signature reach this point)
    for nm in sorted(fired):
        rec = devs.get(nm, {})
        ex = sorted(fired[nm], key=lambda t: (len(t[0]), t[0]))
        ctx.known_finding(rec.get("id", nm), "id=%s %s" % (rec.get("id", nm), rec.get("what", DEV_TEXT[nm])))
        ctx.extra.setdefault("known_finding_inputs", {})[nm] = {
            "count": len(ex),
            "examples": [{"text": t.decode("latin-1"), "reported_len": ln, "bytes_written": w} for t, ln, w in ex[:12]]}
