"""X03 allocator front-end: Alloc.tla (live blocks in slots, content patterns, layout of acquire_many, fallbacks for
allocators without mem_realloc / mem_calloc, documented alignment of the aligned allocator) model-checked;
TLC-generated and seeded random call sequences replayed on the real aws_mem_* functions over six allocator flavours
(four adapter-owned malloc-backed ones with/without the optional callbacks, aws_default_allocator,
aws_aligned_allocator); traces validated by AllocTrace.tla."""
import random

from vlib import build, pipeline, tlc

LEVEL = "model_checking"
SPEC_DIR = "Alloc"
FLAVOURS = ["rc", "r", "c", "n", "def", "aln"]
NSLOT = 8
# around multiples of the 8-byte acquire_many alignment, the 16/64-byte alignments and the 4 KiB page boundary
SIZES = [1, 2, 3, 7, 8, 9, 15, 16, 17, 24, 31, 32, 33, 63, 64, 65, 100, 127, 128, 129, 255, 256, 257, 1000,
         4088, 4095, 4096, 4097, 4104, 5000, 8191, 8192, 8193, 12000]
SMALL = [1, 2, 3, 5, 7, 8, 9, 12, 15, 16, 17, 23, 24, 25, 40, 64, 100]
REQUIRED = ["AllocMC!MCAcquire", "AllocMC!MCCalloc", "AllocMC!MCOverflow", "AllocMC!MCMany", "AllocMC!MCRelease",
            "AllocMC!MCReleaseNull", "AllocMC!MCRealloc", "AllocMC!MCReallocNull", "AllocMC!MCValid"]


def prepare(ctx):
    return build.build_harness("alloc_adapter", ["alloc_adapter.c"], cflags=["-Wno-unused-function"])


def from_tlc(s, rng):
    lines = ["RESET"]
    for o in s["ops"]:
        op = o["op"]
        if op == "ACQ":
            lines.append("ACQ %d %s %d %d" % (o["slot"], o["fl"], o["a"], o["tag"]))
        elif op == "CAL":
            lines.append("CAL %d %s %d %d %d %d" % (o["slot"], o["fl"], o["a"], o["b"], o["fill"], o["tag"]))
        elif op == "OVF":
            lines.append(ovf_line(rng, o["fl"], o["a"], o["b"]))
        elif op == "MANY":
            lines.append("MANY %d %s %d %d %s" % (o["slot"], o["fl"], o["tag"], len(o["sizes"]), " ".join(str(x) for x in o["sizes"])))
        elif op == "REL":
            lines.append("REL %d" % o["slot"])
        elif op == "RELNULL":
            lines.append("RELNULL %s" % o["fl"])
        elif op == "REALLOC":
            lines.append("REALLOC %d %d %d %d" % (o["slot"], o["a"], o["fill"], o["tag"]))
        elif op == "REALLOCNULL":
            lines.append("REALLOCNULL %d %s %d %d" % (o["slot"], o["fl"], o["a"], o["tag"]))
        elif op == "VALID":
            lines.append("VALID %s" % o["fl"])
    return lines


def ovf_line(rng, fl, a, b):
    """num = 2^a + c, size = 2^b + d with a + b >= 64. Only operand pairs whose WRAPPED product is small are used: a
    library that lost its overflow check would otherwise go and allocate (and zero) gigabytes on this machine."""
    cands = [(c, d) for c in (0, 1, 3, 7) for d in (0, 1, 2, 5)
             if (((1 << a) + c) * ((1 << b) + d)) % (1 << 64) < (1 << 16)]
    c, d = rng.choice(cands) if cands else (0, 0)
    return "OVF %s %d %d %d %d" % (fl, a, c, b, d)


BIG = [4095, 4096, 4097, 4100, 4104, 5000, 6000, 8191, 8192, 8193, 12000]


def pick_size(rng, big=False):
    if big and rng.random() < 0.6:
        return rng.choice(BIG)
    r = rng.random()
    if r < 0.5:
        return rng.choice(SMALL)
    if r < 0.9:
        return rng.choice(SIZES)
    return rng.randint(1, 9000)


def random_exec(rng, nops, allow_ovf, fls=None, big=False):
    """the driver knows the slot table exactly (the API is deterministic); it only has to respect the obligations
    'release / realloc what is live' and 'acquire into an empty slot'"""
    lines = ["RESET"]
    slots = {}                      # slot -> ("plain", size) | ("many",)
    # a script concentrates on one or two flavours so that chains (grow, shrink, grow ...) stay on one allocator
    fls = fls or rng.sample(FLAVOURS, rng.choice([1, 2, 2, 3, 6]))
    for _ in range(nops):
        free = [s for s in range(1, NSLOT + 1) if s not in slots]
        plain = [s for s, v in slots.items() if v[0] == "plain"]
        r = rng.random()
        fl = rng.choice(fls)
        tag = rng.randint(1, 200)
        if r < 0.17 and free:
            s = rng.choice(free)
            n = pick_size(rng, big)
            lines.append("ACQ %d %s %d %d" % (s, fl, n, tag))
            slots[s] = ("plain", n)
        elif r < 0.29 and free:
            s = rng.choice(free)
            n = pick_size(rng, big)
            shape = rng.random()
            if shape < 0.3:
                num, size = 1, n
            elif shape < 0.6:
                num, size = n, 1
            else:
                num = rng.choice([2, 3, 4, 7, 8, 16, 64])
                size = max(1, n // num)
            fill = 1 if rng.random() < 0.5 else 0
            lines.append("CAL %d %s %d %d %d %d" % (s, fl, num, size, fill, tag if fill else 0))
            slots[s] = ("plain", num * size)
        elif r < 0.41 and free:
            s = rng.choice(free)
            k = rng.choice([1, 2, 2, 3, 3, 4, 5])
            sizes = [rng.choice(SMALL) for _ in range(k)]
            if rng.random() < (0.6 if big else 0.15):
                sizes[rng.randrange(k)] = rng.choice([4090, 4096, 4100, 6001])
            lines.append("MANY %d %s %d %d %s" % (s, fl, tag, k, " ".join(str(x) for x in sizes)))
            slots[s] = ("many",)
        elif r < 0.57 and slots:
            s = rng.choice(list(slots))
            lines.append("REL %d" % s)
            del slots[s]
        elif r < 0.60:
            lines.append("RELNULL %s" % fl)
        elif r < 0.90 and plain:
            s = rng.choice(plain)
            old = slots[s][1]
            c = rng.random()
            if c < 0.05:
                n = 0
            elif c < 0.55:
                n = max(1, rng.choice([old - 1, old + 1, old, old // 2, old * 2, old + 8, old - 8, old + 7, old * 3]))
                n = min(n, 20000)
            else:
                n = pick_size(rng, big)
            fill = 1 if rng.random() < 0.45 else 0
            lines.append("REALLOC %d %d %d %d" % (s, n, fill, tag if fill else 0))
            if n == 0:
                del slots[s]
            else:
                slots[s] = ("plain", n)
        elif r < 0.94 and free:
            s = rng.choice(free)
            n = 0 if rng.random() < 0.15 else pick_size(rng, big)
            lines.append("REALLOCNULL %d %s %d %d" % (s, fl, n, tag))
            if n:
                slots[s] = ("plain", n)
        elif r < 0.98:
            lines.append("VALID %s" % rng.choice(FLAVOURS + ["null", "noacq", "norel", "noacq", "norel"]))
        elif allow_ovf:
            bits = 64
            a = rng.choice([bits - 1, bits // 2, bits - 8, 40, 62, 1, 3])
            b = rng.choice([x for x in (1, 2, 8, 24, bits // 2, bits - 1, bits - 3) if a + x >= bits])
            lines.append(ovf_line(rng, fl, a, b))
    if rng.random() < 0.7:          # most executions release everything themselves; the rest leave it to the teardown
        for s in list(slots):
            lines.append("REL %d" % s)
    return lines


def chain_exec(rng):
    """one block taken through a long realloc chain without refilling: what survives is the minimum over the chain"""
    fl = rng.choice(FLAVOURS)
    n = pick_size(rng)
    lines = ["RESET"]
    if rng.random() < 0.5:
        lines.append("ACQ 1 %s %d %d" % (fl, n, rng.randint(1, 200)))
    else:
        lines.append("CAL 1 %s %d 1 0 0" % (fl, n))
    for _ in range(rng.randint(4, 25)):
        c = rng.random()
        if c < 0.6:
            n = max(1, min(20000, rng.choice([n - 1, n + 1, n // 2, n * 2, n + 8, n + 4096, max(1, n - 4096), n])))
        else:
            n = pick_size(rng)
        fill = 1 if rng.random() < 0.15 else 0
        lines.append("REALLOC 1 %d %d %d" % (n, fill, rng.randint(1, 200) if fill else 0))
    lines.append("REALLOC 1 0 0 0" if rng.random() < 0.3 else "REL 1")
    return lines


def run(ctx):
    thorough = ctx.tier == "thorough"
    exe = prepare(ctx)
    ctx.rule = ("execution = a sequence of aws_mem_acquire / calloc / acquire_many / release / realloc / is_valid calls over "
                "up to 8 live blocks and six allocator flavours; distinct = distinct script text; non-trivial = contains a "
                "realloc and (a calloc or an acquire_many)")
    ctx.assumptions += [
        "allocation cannot fail (the front-end aborts on OOM), so every call with valid arguments succeeds",
        "scripts respect the API obligations: size > 0, realloc is told the true old size, only live blocks are released",
        "64-bit platform facts (pointer size, sizeof(intmax_t)) are logged by the adapter and checked against the constants",
        "contents are compared through a position-dependent byte pattern (a coincidence can only make the adapter report more "
        "intact bytes, which the specification allows)",
    ]
    ctx.mc(SPEC_DIR, "AllocMC", "MC.cfg", timeout=600, xmx="6g", required_actions=REQUIRED)
    if thorough:
        # all six flavours, sizes on both sides of the page boundary; the vacuity guard already ran on the small config
        ctx.mc(SPEC_DIR, "AllocMC", "MC_thorough.cfg", timeout=3000, xmx="12g", coverage=False)
    scripts, _ = tlc.gen_scripts(SPEC_DIR, "AllocMC", "Gen.cfg", ctx.outdir, num=400 if not thorough else 3000, depth=30,
                                 seed=ctx.seed, workers=4)
    rng = random.Random(ctx.seed)
    # the simulator reports every successor of the last-but-one state: keep at most three scripts per common prefix
    byprefix = {}
    for s in scripts:
        byprefix.setdefault(repr(s["ops"][:-1]), []).append(s)
    scripts = []
    for k in sorted(byprefix):
        grp = byprefix[k]
        scripts += grp if len(grp) <= 3 else rng.sample(grp, 3)
    execs = [from_tlc(s, rng) for s in scripts]
    # the forked overflow probes are comparatively slow: keep a bounded number of them
    novf = 0
    kept = []
    for ex in execs:
        if any(l.startswith("OVF") for l in ex):
            novf += 1
            if novf > (60 if not thorough else 600):
                ex = [l for l in ex if not l.startswith("OVF")]
        kept.append(ex)
    execs = kept
    ctx.extra["tlc_generated_scripts"] = len(execs)
    nrand = 3000 if not thorough else 20000
    for i in range(nrand):
        execs.append(random_exec(rng, rng.randint(8, 60), allow_ovf=(i % 8 == 0)))
    nchain = 800 if not thorough else 5000
    for _ in range(nchain):
        execs.append(chain_exec(rng))
    ctx.extra["random_scripts"] = nrand
    ctx.extra["realloc_chain_scripts"] = nchain
    for ex in execs:
        ctx.evaluations += 1
        has_re = any(l.startswith("REALLOC ") for l in ex)
        has_cm = any(l.startswith("CAL") or l.startswith("MANY") for l in ex)
        if has_re and has_cm:
            ctx.distinct.add(hash("\n".join(ex)))
    ctx.add_sample({"script": execs[0][:14]})
    ctx.add_sample({"script": execs[len(scripts)][:14] if len(execs) > len(scripts) else []})
    ctx.add_sample({"script": execs[-1][:14]})
    pipeline.drive_and_validate(ctx, exe, execs, SPEC_DIR, "AllocTrace", "Trace.cfg", label="alloc")
    # the sanitizer's allocator happens to hand out 64-byte aligned addresses for every block beyond a page, whatever
    # alignment was asked for: the documented alignment of aws_aligned_allocator is only put to the test on the plain
    # C library allocator, i.e. in the configuration users run (gcc -O2, no sanitizer). Same scripts, same trace spec.
    exe_rel = build.build_harness("alloc_adapter_rel", ["alloc_adapter.c"], cflags=["-Wno-unused-function"], variant="rel")
    nrel = 300 if not thorough else 4000
    rel_execs = [random_exec(rng, rng.randint(8, 40), False, fls=["aln", "aln", "aln", "def", "n"], big=True) for _ in range(nrel)]
    ctx.evaluations += nrel
    ctx.extra["plain_libc_alignment_scripts"] = nrel
    ctx.add_sample({"script (no sanitizer build)": rel_execs[0][:10]})
    pipeline.drive_and_validate(ctx, exe_rel, rel_execs, SPEC_DIR, "AllocTrace", "Trace.cfg", label="alloc_rel")
