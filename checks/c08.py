"""C08 thread scheduler: executions of the real aws_thread_scheduler under the controlled scheduler (every lock,
condition-variable, atomic, create/join and clock operation is a schedule point; virtual time), systematic
bounded-preemption exploration + PCT/random schedules; each execution's user-visible trace is validated by TLC
against ThreadSchedAbs (the property). ThreadSched.tla (implementation-shaped) is model-checked at design level."""
import random

from vlib import build, pipeline

LEVEL = "model_checking"
SPEC_DIR = "ThreadSched"


def prepare(ctx):
    return build.build_harness("threadsched_scenario", ["threadsched_scenario.c"], cflags=["-Wno-unused-function"], wrap=True)


CORE = [
    ["NT 1", "CLIENT 0 N1 R"],
    ["NT 1", "CLIENT 0 N1 X1 R"],
    ["NT 1", "CLIENT 0 F1:5 R"],
    ["NT 1", "CLIENT 0 F1:7200000 R"],            # a task two hours ahead must not delay the final release
    ["NT 2", "CLIENT 0 N1 F2:86400000 R", "CLIENT 1 X2 R"],
    ["NT 1", "CLIENT 0 F1:0 X1 R"],
    ["NT 2", "CLIENT 0 N1 F2:3 X2 R"],
    ["NT 2", "CLIENT 0 N1 P P P P N2 R"],
    ["NT 1", "CLIENT 0 N1 R", "CLIENT 1 X1 R"],
    ["NT 2", "CLIENT 0 N1 R", "CLIENT 1 F2:2 X2 R"],
    ["NT 2", "CLIENT 0 F1:4 X1 R", "CLIENT 1 N2 X2 R"],
    # the last references dropped by several threads at once
    ["NT 1", "CLIENT 0 R", "CLIENT 1 R"],
    ["NT 1", "CLIENT 0 N1 R", "CLIENT 1 R"],
    ["NT 1", "CLIENT 0 R", "CLIENT 1 R", "CLIENT 2 R"],
    # task functions that use the scheduler from inside an invocation (RUN or CANCELED while it is alive)
    ["NT 2", "TASKFN 1 N2", "CLIENT 0 N1 X1 R"],
    ["NT 2", "TASKFN 1 N2", "CLIENT 0 F1:5 X1 P P P R"],
    ["NT 3", "TASKFN 1 X2", "TASKFN 2 N3", "CLIENT 0 F2:3 N1 P P R"],
    # quiet moments while tasks are outstanding (the client sleeps): whatever is due must have run by then
    ["NT 2", "CLIENT 0 N1 Z10 R", "CLIENT 1 F2:5 Z10 Z10 R"],
    # a task object handed over again after its function ran (no second aws_task_init), also after a cancel
    ["NT 1", "CLIENT 0 N1 W1 F1:20 W1 N1 W1 R"],
    ["NT 1", "CLIENT 0 F1:3600000 X1 W1 N1 Z50 Z50 R"],
    ["NT 2", "CLIENT 0 F1:3600000 F2:10 X1 W1 W2 F1:5 N2 Z20 Z20 R"],
    # tasks parked at the far end of the clock next to ordinary ones
    ["NT 2", "CLIENT 0 A1:max F2:100 Z200 Z200 X1 R"],
    ["NT 2", "CLIENT 0 F2:100 A1:half Z150 Z150 R"],
    ["NT 3", "CLIENT 0 A1:half N3 F2:30 Z50 Z50 R", "CLIENT 1 Z10 X1 R"],
]


def random_scenario(rng):
    nclients = rng.choice([1, 2, 2, 3])
    ntasks = rng.randint(1, 4)
    ops = {k: [] for k in range(nclients)}
    for t in range(1, ntasks + 1):
        k = rng.randrange(nclients)
        if rng.random() < 0.5:
            ops[k].append("N%d" % t)
        else:
            ops[k].append("F%d:%d" % (t, rng.choice([0, 1, 2, 5, 40000, 7200000])))
        if rng.random() < 0.5:
            kc = k if rng.random() < 0.6 else rng.randrange(nclients)
            ops[kc].append("X%d" % t)
    if rng.random() < 0.45:
        # quiet moments, parked tasks and task objects that are handed over a second time
        for k in range(nclients):
            o = ops[k]
            mine = [int(x[1:].split(":")[0]) for x in o if x[0] in "NF"]
            for t in mine:
                if rng.random() < 0.4:
                    o.append("W%d" % t)
                    o.append(rng.choice(["N%d" % t, "F%d:%d" % (t, rng.choice([0, 3, 50]))]))
            for _ in range(rng.choice([1, 2, 2, 3])):
                o.insert(rng.randrange(len(o) + 1), "Z%d" % rng.choice([1, 5, 20, 100, 1000]))
        if ntasks < 6 and rng.random() < 0.5:
            ntasks += 1
            k = rng.randrange(nclients)
            ops[k].insert(rng.randrange(len(ops[k]) + 1), "A%d:%s" % (ntasks, rng.choice(["max", "half"])))
            if rng.random() < 0.5:
                ops[rng.randrange(nclients)].append("X%d" % ntasks)
    lines = ["NT %d" % ntasks]
    spare = ntasks
    for t in range(1, ntasks + 1):
        if rng.random() < 0.25 and spare < 8:
            spare += 1                       # a follow-up task only ever scheduled from inside task t
            lines.append("TASKFN %d %s" % (t, rng.choice(["N%d" % spare, "F%d:%d" % (spare, rng.choice([0, 2, 40000])), "X%d" % rng.randint(1, ntasks)])))
    lines[0] = "NT %d" % spare
    # references taken while the scheduler is in use: a client acquires one more (and releases it again at the end); in some
    # scenarios every client does so at once, first thing
    together = nclients > 1 and rng.random() < 0.25
    for k in range(nclients):
        o = ops[k]
        if rng.random() < 0.3:
            o.insert(rng.randrange(len(o) + 1), "P")
        extra = 0
        if together:
            o.insert(0, "G")
            extra += 1
        for _ in range(rng.choice([0, 0, 0, 1, 2])):
            o.insert(rng.randrange(len(o) + 1), "G")
            extra += 1
        lines.append("CLIENT %d %s R%s" % (k, " ".join(o), " R" * extra))
    return lines


def run(ctx):
    thorough = ctx.tier == "thorough"
    exe = prepare(ctx)
    ctx.rule = ("execution = scenario (1-3 client threads issuing schedule_now / schedule_future / cancel / release) x "
                "schedule (sequence of thread choices at lock/condvar/atomic/create/join points + timer firings); "
                "distinct = distinct (scenario, schedule policy) pairs; non-trivial = schedule with at least one "
                "context switch chosen by the exploration (every execution here has several)")
    ctx.assumptions += [
        "sequentially consistent, serialised execution: one thread runs between schedule points (no weak-memory effects)",
        "condition variables: no spurious wake-ups; signal wakes one waiter chosen by the schedule",
        "virtual clock: time advances only by timer firings (earliest timed wait / sleep deadline)",
        "clients cancel only tasks whose schedule call has started and whose function they have not yet seen run",
        "bounded exploration: preemption bound 2 (quick) / 3 (thorough) on the core scenarios, PCT/random beyond",
    ]
    req = ["ThreadSched!T_Wait", "ThreadSched!T_RunOne", "ThreadSched!T_Timeout", "ThreadSched!T_Reacquire"]
    ctx.mc(SPEC_DIR, "MCThreadSched", "MC.cfg", timeout=1500, xmx="8g", required_actions=req)
    ctx.mc(SPEC_DIR, "MCThreadSched", "MC2.cfg", timeout=1500, xmx="8g", required_actions=req)
    ctx.mc(SPEC_DIR, "MCThreadSched", "MC_live.cfg", timeout=1500, xmx="8g", coverage=False)
    # the quiescence rule at design level: with a clock that only advances while everybody is blocked (QuietClock) no due
    # task is waiting at a quiescent moment, for every interleaving; with a free clock the same invariant is refuted
    # (why ThreadSchedAbs!Idle only judges executions whose clock never jumped under a runnable thread)
    ctx.mc(SPEC_DIR, "MCThreadSched", "MC_quiet.cfg", timeout=1500, xmx="8g", required_actions=["ThreadSched!C_Sleep", "ThreadSched!C_Wake"])
    # self-test of the model (not a verdict): the pinned, unrepaired algorithm must violate ExactlyOnce in the model
    from vlib import tlc as _tlc
    r = _tlc.run_tlc(SPEC_DIR, "MCThreadSched", "MC_nofix.cfg", ctx.outdir, timeout=600, xmx="4g")
    ctx.extra["model_of_unrepaired_algorithm_violates"] = r.violated
    r2 = _tlc.run_tlc(SPEC_DIR, "MCThreadSched", "MC_quiet_freeclock.cfg", ctx.outdir, timeout=600, xmx="4g")
    if "NoDueTaskWhenQuiet" not in r2.violated:
        from vlib.common import CheckError
        raise CheckError("MODEL-BROKEN (sensitivity): NoDueTaskWhenQuiet holds although the clock may jump under runnable threads")
    ctx.extra["quiescence_rule_needs_quiet_clock"] = True
    rng = random.Random(ctx.seed)
    blocks = []
    budget, bound = (350, 2) if not thorough else (6000, 3)
    for sc in CORE:
        blocks.append(("dfs %d %d" % (budget, bound), sc))
    nrand = 250 if not thorough else 6000
    for i in range(nrand):
        sc = random_scenario(rng)
        pol = rng.choice(["pct %d 2 60", "pct %d 3 90", "rand %d", "pct %d 1 40"]) % rng.randrange(1, 10 ** 6)
        blocks.append((pol, sc))
    for pol, sc in blocks:
        ctx.distinct.add(hash(pol + "|" + "\n".join(sc)))
    ctx.add_sample({"policy": blocks[0][0], "scenario": blocks[0][1]})
    ctx.add_sample({"policy": blocks[-1][0], "scenario": blocks[-1][1]})
    rng.shuffle(blocks)
    n, acc = pipeline.drive_vsched(ctx, exe, blocks, SPEC_DIR, "ThreadSchedTrace", "Trace.cfg", label="ts")
    # data-race scan on the ThreadSanitizer build (what a serialising scheduler cannot see)
    scan = [b for b in blocks if not b[0].startswith("dfs")][: (120 if not thorough else 1500)]
    pipeline.race_scan(ctx, "threadsched_scenario", "threadsched_scenario.c", scan)
    ctx.evaluations += n
    ctx.distinct_extra += max(0, n - len(blocks))   # every DFS execution is a distinct schedule by construction
    ctx.extra["executions"] = n
