"""X10 (extra) readers-writer lock (aws/common/rw_lock.h, source/posix/rw_lock.c): RwLockMC.tla (the library's wrappers
transcribed over a POSIX-level readers-writer lock, every interleaving of three threads) model-checked against the
contract RwLock.tla, with five wrong-mapping variants that must be refuted; the real code executed under the controlled
scheduler (pthread_rwlock_* redirected at link time like the other pthread calls); traces validated against RwLock.tla."""
import random

from vlib import build, pipeline, tlc
from vlib.common import CheckError

LEVEL = "model_checking"
SPEC_DIR = "RwLock"
HARNESS = "rwlock_scenario"


def prepare(ctx):
    return build.build_harness(HARNESS, [HARNESS + ".c"], cflags=["-Wno-unused-function"], wrap=True)


CORE = [
    # readers and writers mixed
    ["INIT dyn", "THREAD 1 RL R RU WL W WU", "THREAD 2 WL W WU RL R RU", "THREAD 3 RL R RU"],
    ["INIT static", "THREAD 1 WL W WU", "THREAD 2 WL W WU", "THREAD 3 RL R RU RL R RU", "MAIN WL W WU"],
    # read locks are shared: two readers meet inside their critical sections
    ["INIT dyn", "THREAD 1 RL M1 R RU", "THREAD 2 RL M1 R RU", "THREAD 3 WL W WU"],
    ["INIT static", "THREAD 1 RL M1 R M2 RU", "THREAD 2 RL M1 M2 R RU", "MAIN TR WL W WU"],
    # the try forms against a held read lock / a held write lock: never block, fail exactly when they must
    ["INIT dyn", "THREAD 1 RL M1 M2 RU", "THREAD 2 M1 TW TR M2"],
    ["INIT static", "THREAD 1 WL M1 M2 WU", "THREAD 2 M1 TW TR M2"],
    ["INIT dyn", "THREAD 1 TW", "THREAD 2 TR", "THREAD 3 TW TR", "MAIN TR TW"],
    # a writer waits for two readers; a reader arriving meanwhile
    ["INIT dyn", "THREAD 1 RL M1 R RU", "THREAD 2 RL M1 R RU", "THREAD 3 WL W WU", "MAIN TR RL R RU"],
    # main holds the write lock while a thread only tries
    ["INIT dyn", "THREAD 1 TR TW TR", "MAIN WL J1 W WU"],
    ["INIT static", "THREAD 1 TW TR TW", "MAIN RL J1 R RU"],
]

REQUIRED = ["RwLockMC!" + a for a in ("IWLockBegin", "IWLockRet", "IRLock", "ITryR", "ITryW", "IRUnlock", "IWUnlock",
                                       "IWriteEnter", "IWriteLeave", "IReadFirst", "IReadSecond", "IArrive", "IDepart")]
BUGS = {"rl_is_wl": "deadlock", "wl_is_rl": "NotBad", "tryw_is_tryr": "NotBad", "tryr_is_tryw": "NotBad", "wu_noop": "deadlock"}


def random_scenario(rng):
    """Deadlock-free by construction: programs are lock-balanced and never nest locks; a rendezvous has exactly two
    participants and the rendezvous of one thread are numbered in ascending order (no cycles among them); a thread waits
    at a rendezvous holding nothing - or holding a read lock, but then only in scenarios in which nobody ever blocks
    for the write lock (the partner, or a thread the partner waits for, could otherwise need it to get there)."""
    nthr = rng.randint(1, 5)
    inlock = rng.random() < 0.5
    actors = list(range(0, nthr + 1))
    progs = {a: [] for a in actors}

    def seg():
        r = rng.random()
        if r < 0.30:
            return ["RL"] + ["R"] * rng.choice([0, 1, 1, 2]) + ["RU"]
        if r < 0.55:
            return ["TW"] if inlock else ["WL"] + ["W"] * rng.choice([0, 1, 1, 2]) + ["WU"]
        if r < 0.70:
            return ["TR"]
        if r < 0.85:
            return ["TW"]
        if r < 0.92:
            return ["P"]
        return ["RL", "P", "R", "RU"]

    for a in actors:
        for _ in range(rng.randint(1, 4)):
            progs[a] += seg()
    # rendezvous: pairs of distinct actors, inserted at ascending positions, optionally inside a read section
    nrv = rng.choice([0, 0, 1, 1, 2, 3]) if nthr >= 1 else 0
    pos = {a: 0 for a in actors}
    for b in range(1, nrv + 1):
        x, y = rng.sample(actors, 2)
        for a in (x, y):
            toks = progs[a]
            # split points at top level (not inside a lock) at or after pos[a]
            cuts, depth = [], 0
            for i in range(len(toks) + 1):
                if depth == 0 and i >= pos[a]:
                    cuts.append(i)
                if i < len(toks):
                    if toks[i] in ("RL", "WL"):
                        depth += 1
                    elif toks[i] in ("RU", "WU"):
                        depth -= 1
            i = rng.choice(cuts)
            ins = ["M%d" % b] if (not inlock or rng.random() < 0.4) else ["RL", "M%d" % b] + ["R"] * rng.choice([0, 1]) + ["RU"]
            progs[a] = toks[:i] + ins + toks[i:]
            pos[a] = i + len(ins)
    lines = ["INIT " + rng.choice(["dyn", "static"])]
    for a in actors[1:]:
        lines.append(("THREAD %d %s" % (a, " ".join(progs[a]))).rstrip())
    lines.append(("MAIN " + " ".join(progs[0])).rstrip())
    return lines


def _wellformed(lines):
    """generator self-check (the script, not the library, is at fault for an unbalanced program)"""
    seen = {}
    for ln in lines:
        toks = ln.split()[2:] if ln.startswith("THREAD") else ln.split()[1:] if ln.startswith("MAIN") else []
        held = None
        for t in toks:
            if t in ("RL", "WL"):
                if held:
                    return False
                held = t[0]
            elif t in ("RU", "WU"):
                if held != t[0]:
                    return False
                held = None
            elif t == "R" and held != "R":
                return False
            elif t == "W" and held != "W":
                return False
            elif t in ("TR", "TW") and held:
                return False
            elif t[0] == "M":
                if held == "W":
                    return False
                seen[t] = seen.get(t, 0) + 1
        if held:
            return False
    haswl = any(" WL" in ln for ln in lines)
    inlock = any(" RL M" in ln for ln in lines)
    return all(v == 2 for v in seen.values()) and not (haswl and inlock)


def run(ctx):
    thorough = ctx.tier == "thorough"
    exe = prepare(ctx)
    ctx.rule = ("execution = scenario (1-5 threads + main: read sections that read the protected value twice, write sections "
                "that update it in two steps, try_rlock / try_wlock, rendezvous of two threads inside read sections, static "
                "and dynamic initialisation) x schedule at every lock / unlock / schedule point; distinct = distinct "
                "(scenario, schedule policy); non-trivial = at least two threads use the lock")
    ctx.assumptions += [
        "sequentially consistent serialised execution; the POSIX readers-writer lock itself is modelled by the scheduler "
        "(readers admitted whenever no writer holds the lock, no writer preference; RwLockMC.tla also explores a "
        "try_rlock refused because a writer is queued) - what is judged is the library's wrappers: which primitive each "
        "function reaches, the return values and the error translation",
        "a failed try must raise AWS_ERROR_MUTEX_TIMEOUT (what source/posix/rw_lock.c raises for EBUSY; rw_lock.h names no "
        "code)",
        "bounded exploration: preemption bound 2 (quick) / 3 (thorough) on the core scenarios + PCT/random schedules",
        "scenarios respect the documented preconditions (no recursive locking, unlock only what is held)",
    ]
    ctx.mc(SPEC_DIR, "RwLockMC", "MC.cfg", timeout=900, xmx="4g", workers=4, required_actions=REQUIRED)
    ctx.mc(SPEC_DIR, "RwLockMC", "MC_live.cfg", timeout=900, xmx="4g", workers=4, coverage=False)
    for bug, want in sorted(BUGS.items()):
        res = tlc.run_tlc(SPEC_DIR, "RwLockMC", "MC_bug_%s.cfg" % bug, ctx.outdir, workers=4, timeout=300, xmx="2g")
        got = "deadlock" if "<deadlock>" in res.violated else ("NotBad" if "NotBad" in res.violated else "")
        if not got:
            raise CheckError("MODEL-BROKEN (sensitivity): MC_bug_%s.cfg was not refuted: %s" % (bug, res.summary()))
        ctx.extra.setdefault("model_sensitivity", []).append({"cfg": "MC_bug_%s.cfg" % bug, "refuted_by": got, "expected": want})

    rng = random.Random(ctx.seed)
    blocks = []
    budget, bound = (200, 2) if not thorough else (4000, 3)
    for sc in CORE:
        blocks.append(("dfs %d %d" % (budget, bound), sc))
    nrand = 300 if not thorough else 8000
    made = 0
    while made < nrand:
        sc = random_scenario(rng)
        if any(len(ln.split()) > 58 for ln in sc):
            continue
        if not _wellformed(sc):
            raise CheckError("scenario generator produced an ill-formed program: %r" % sc)
        pol = rng.choice(["pct %d 2 80", "pct %d 3 120", "rand %d", "pct %d 1 60", "rand %d"]) % rng.randrange(1, 10 ** 6)
        blocks.append((pol, sc))
        made += 1
    for sc in CORE:
        for _ in range(4 if not thorough else 60):
            blocks.append((rng.choice(["pct %d 3 60", "rand %d"]) % rng.randrange(1, 10 ** 6), sc))
    for pol, sc in blocks:
        ctx.distinct.add(hash(pol + "|" + "\n".join(sc)))
    ctx.add_sample({"policy": blocks[2][0], "scenario": blocks[2][1]})
    ctx.add_sample({"policy": blocks[len(CORE)][0], "scenario": blocks[len(CORE)][1]})
    rng.shuffle(blocks)
    n, acc = pipeline.drive_vsched(ctx, exe, blocks, SPEC_DIR, "RwLockTrace", "Trace.cfg", label="rw")
    scan = [b for b in blocks if not b[0].startswith("dfs")][: (100 if not thorough else 1500)]
    pipeline.race_scan(ctx, HARNESS, HARNESS + ".c", scan)
    ctx.evaluations += n
    ctx.distinct_extra += max(0, n - len(blocks))
    ctx.extra["executions"] = n
