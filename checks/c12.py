"""C12 XML traversal: Xml.tla (element trees, Render, Expected) + XmlImpl.tla (xml_parser.c transcribed) compared by
TLC for all small trees x callback programs; TLC-enumerated and driver-generated documents x programs executed by the
real aws_xml_parse with a scripted callback; every callback invocation validated by XmlTrace.tla."""
import json
import random
import re

from vlib import build, pipeline, tlc
from vlib.common import CheckError

LEVEL = "model_checking"
SPEC_DIR = "Xml"
EV_CAP = 70            # events per execution (guide: <= ~80)


def prepare(ctx):
    return build.build_harness("xml_adapter", ["xml_adapter.c"], cflags=["-Wno-unused-function"])


# ------------------------------------------------------------------------------------------------ trees and documents
def B(s):
    return list(s.encode("latin-1")) if isinstance(s, str) else list(s)


def node(name, attrs=(), items=()):
    return {"n": B(name), "a": [{"n": B(n), "v": B(v), "q": q} for n, v, q in attrs], "c": list(items)}


def text(s):
    return {"t": B(s)}


NOPRE = {"lead": [], "items": [], "tail": []}


def pre(lead="", items=(), tail=""):
    return {"lead": B(lead), "items": [{"k": ord(k), "c": B(c), "ws": B(ws)} for k, c, ws in items], "tail": B(tail)}


def render_node(nd, out):
    out.append(60)
    out += nd["n"]
    for a in nd["a"]:
        out.append(32)
        out += a["n"]
        out.append(61)
        out += ([34] + a["v"] + [34]) if a["q"] else a["v"]
    out.append(62)
    for it in nd["c"]:
        if "t" in it:
            out += it["t"]
        else:
            render_node(it, out)
    out += [60, 47]
    out += nd["n"]
    out.append(62)


def render_doc(tree, p):
    out = list(p["lead"])
    for it in p["items"]:
        out += [60, it["k"]] + it["c"] + [62] + it["ws"]
    head = len(out)
    render_node(tree, out)
    out += p["tail"]
    return bytes(out), head


def size(nd):
    return 1 + sum(size(k) for k in nd["c"] if "t" not in k)


class Doc:
    __slots__ = ("tree", "pre", "prog", "md", "cut", "fam")

    def __init__(self, tree, prog, md=0, p=None, cut=0, fam=""):
        self.tree, self.prog, self.md, self.pre, self.cut, self.fam = tree, prog, md, p or NOPRE, cut, fam

    def line(self):
        doc, head = render_doc(self.tree, self.pre)
        if self.cut:
            doc = doc[:len(doc) - self.cut]
        return "XML %s %s %d %d %s %s" % (doc.hex() or "-", self.prog or "-", self.md, self.cut,
                                          json.dumps(self.tree, separators=(",", ":")),
                                          json.dumps(self.pre, separators=(",", ":")))

    def events(self):
        return 2 * size(self.tree) + 3


def pack(docs):
    execs, cur, n = [], ["RESET"], 0
    for d in docs:
        e = d.events()
        if n and n + e > EV_CAP:
            execs.append(cur)
            cur, n = ["RESET"], 0
        cur.append(d.line())
        n += e
    if n:
        execs.append(cur)
    return execs


# ------------------------------------------------------------------------------------------------ driver families
NAMES = ["a", "ab", "abc", "b", "ba", "aa", "a.b", "a-b", "Key", "Keys", "Contents", "x:a", "A", "a1"]
ANAMES = ["k", "id", "xmlns", "ab", "a", "x:y", "K2"]
VCHARS = "xyz019:/._-'&;#%+*="
TCHARS = "xy \n\t/=\"'?!&;#[]()ab01\x00\xff\x7f"
PRES = [
    NOPRE,
    pre(items=[("?", "xml version=\"1.0\" encoding=\"UTF-8\"?", "")]),
    pre(items=[("?", "xml version=\"1.0\"?", "\n")], tail="\n"),
    pre(lead=" \n", items=[("?", "xml?", "\r\n"), ("!", "DOCTYPE a", "\n  ")], tail=" \n"),
    pre(items=[("!", "-- a comment --", ""), ("?", "pi a=\"/b\"?", " ")]),
    pre(lead="\t", tail="\n\n"),
]


def rand_text(rng, lo=0, hi=6):
    return "".join(rng.choice(TCHARS) for _ in range(rng.randint(lo, hi)))


def rand_attrs(rng, n):
    out = []
    for i in range(n):
        q = 1 if rng.random() < 0.6 else 0
        # values are mostly short; now and then as long as and longer than the limits that exist for names (a signature, a URL)
        vlen = rng.choice([0, 1, 1, 2, 5]) if rng.random() > 0.06 else rng.choice([120, 245, 250, 251, 255, 256, 257, 300, 1000])
        v = "".join(rng.choice(VCHARS) for _ in range(vlen))
        if not q and v.endswith("/"):
            v += "x"
        out.append((rng.choice(ANAMES) + (str(i) if rng.random() < 0.5 else ""), v, q))
    return out


def rand_tree(rng, budget, depth, maxdepth, names):
    """-> (node, nodes used)"""
    items, used = [], 1
    if rng.random() < 0.5:
        items.append(text(rand_text(rng)))
    while used < budget and depth < maxdepth and rng.random() < 0.7:
        k, u = rand_tree(rng, min(budget - used, rng.randint(1, 5)), depth + 1, maxdepth, names)
        items.append(k)
        used += u
        if rng.random() < 0.4:
            items.append(text(rand_text(rng)))
    na = rng.choice([0, 0, 0, 1, 1, 2, 3])
    return node(rng.choice(names), rand_attrs(rng, na), items), used


def rand_prog(rng, n):
    w = rng.choice(["DDDDDDBS", "DDBSA", "DBS", "DDDBSSA", "BS", "DdDdBS", "ddddBSA"])
    return "".join(rng.choice(w) for _ in range(n))


def fam_random(rng, count):
    docs = []
    for _ in range(count):
        names = rng.choice([NAMES, ["a", "ab", "b"], ["a", "ab", "abc"], ["a", "aa"], ["Key", "Keys", "Contents"]])
        t, n = rand_tree(rng, rng.randint(1, 12), 1, rng.choice([2, 3, 4, 6]), names)
        docs.append(Doc(t, rand_prog(rng, n), md=rng.choice([0, 0, 0, 0, 2, 3, 4, 30]), p=rng.choice(PRES), fam="random"))
    return docs


def chain(depth, name_of, leaf_items=(), width=0):
    nd = node(name_of(depth), (), leaf_items)
    for d in range(depth - 1, 0, -1):
        sibs = [node("b", (), [text("x")]) for _ in range(width)]
        nd = node(name_of(d), (), sibs + [nd] + sibs[:1])
    return nd


def fam_depth(rng):
    docs = []
    for md in (0, 1, 2, 3, 5, 25):
        lim = 20 if md == 0 else md
        for depth in (lim - 1, lim, lim + 1):
            if depth < 1:
                continue
            for name_of in (lambda d: "a", lambda d: "a" + "b" * (d % 3), lambda d: "n%d" % d):
                for width in (0, 1):
                    if width and depth > 6:
                        continue
                    t = chain(depth, name_of, [text("xy")], width)
                    n = size(t)
                    progs = {"D" * n, "D" * (depth - 1) + "B", "D" * (depth - 1) + "S", "D" * max(0, depth - 2) + "B",
                             "D" * max(0, depth - 2) + "S" + "D", rand_prog(rng, n),
                             # callbacks that do not hand the nested result back, at every level / at the limit / above it
                             "d" * n, "D" * max(0, lim - 1) + "d" * n, "D" * max(0, lim - 2) + "d" + "D" * n,
                             "".join(rng.choice("Dd") for _ in range(n))}
                    for p in sorted(progs):
                        docs.append(Doc(t, p, md=md, p=rng.choice(PRES[:3]), fam="depth"))
    return docs


def fam_names(rng):
    docs = []
    for ln in (1, 2, 254, 255, 256, 257, 258, 300, 700):
        nm = "".join(rng.choice("abcn") for _ in range(ln))
        shorter = nm[:-1] if ln > 1 else "a"
        longer = nm + "b"
        trees = [
            node(nm, (), [text("body")]),
            node(nm, [("k", "v", 1)], [node(nm, (), [text("x")]), node(longer, (), []), node(shorter, (), [text("y")])]),
            node("r", (), [node(nm, (), [node(shorter, (), [node(nm, (), [])])]), node("t", (), [text("after")])]),
            node(longer, (), [node(nm, (), [text("1")]), node(nm, (), [text("2")])]),
        ]
        for t in trees:
            n = size(t)
            for p in sorted({"D" * n, "B", "S", "DB" + "S" * n, "DS" + "B" * n, "DDB", "DDS", "DD" + "D" * n, rand_prog(rng, n)}):
                docs.append(Doc(t, p, fam="names"))
    return docs


def fam_attrs(rng):
    docs = []
    for na in (0, 1, 2, 9, 10, 11, 12, 20):
        for q in (0, 1, 2):
            attrs = [("k%d" % i, "v%d" % i if i % 4 else "", (q == 1) or (q == 2 and i % 2 == 0)) for i in range(na)]
            attrs = [(n, v, 1 if qq else 0) for n, v, qq in attrs]
            if na in (1, 2, 10):      # '=' inside values (query strings, base64 padding)
                attrs = [(n, ("http://h/p?q=%d&r=s" % i, "=", "a=b=c", "QQ==")[i % 4], 1 if (qq or i % 4 == 0) else 0) for i, (n, v, qq) in enumerate(attrs)]
            t1 = node("a", attrs, [text("x")])
            t2 = node("r", [("id", "1", 1)], [node("b", (), [text("0")]), node("a", attrs, [node("a", (), [])]), node("c", (), [text("t")])])
            for t in (t1, t2):
                n = size(t)
                for p in sorted({"D" * n, "B", "S", "DSB", "DSD", "DBS", "DSSS", rand_prog(rng, n)}):
                    docs.append(Doc(t, p, fam="attrs"))
    return docs


def fam_text(rng):
    docs = []
    allb = bytes(b for b in range(256) if b not in (60, 62))
    longt = bytes(rng.choice(b"xy \n/=\"ab") for _ in range(3000))
    for body in (allb, longt, b"", b" ", b"/", b"/a", b"a/", b"=\"", b"?", b"!", b"\x00"):
        t = node("a", (), [text(body), node("ab", (), [text(body)]), text(body), node("a", (), [text(body[:50])]), text(body[:7])])
        for p in ("B", "S", "DBB", "DSS", "DBS", "DDD", "DSB"):
            docs.append(Doc(t, p, fam="text"))
    return docs


def fam_siblings(rng):
    """same-name siblings, nested same names, prefix names: the closing-tag search"""
    docs = []
    A = lambda *k: node("a", (), k)
    AB = lambda *k: node("ab", (), k)
    Aat = lambda *k: node("a", [("k", "1", 0)], k)
    shapes = [
        A(A(), A()), A(A(A()), A()), A(A(A(A()))), A(AB(), A()), A(AB(A()), A(AB())), A(Aat(), A()), A(Aat(Aat()), Aat()),
        AB(A(), AB(A())), A(text("x"), A(text("y")), text("z"), A(text("w")), text("v")), A(A(), A(), A(), A(), A(), A()),
        A(AB(AB(AB())), AB()), node("aa", (), [A(), node("aa", (), [A()]), A()]), A(node("a-", (), []), node("a.", (), []), A()),
    ]
    for t in shapes:
        n = size(t)
        progs = {"D" * n, "B", "S"}
        for i in range(n):
            progs.add("D" * i + "S" + "D" * n)
            progs.add("D" * i + "B" + "D" * n)
            progs.add("D" * i + "A")
        for p in sorted(progs):
            docs.append(Doc(t, p, p=rng.choice(PRES), fam="siblings"))
    return docs


def fam_cut(rng, base):
    docs = []
    for d in base:
        doc, head = render_doc(d.tree, d.pre)
        lo = len(d.pre["tail"]) + 1
        hi = len(doc) - head - 1
        if hi < lo:
            continue
        close = len(d.tree["n"]) + 3 + len(d.pre["tail"])
        for cut in sorted({lo, min(hi, lo + 1), min(hi, close), min(hi, close + 1), rng.randint(lo, hi), rng.randint(lo, hi), hi}):
            docs.append(Doc(d.tree, d.prog, md=d.md, p=d.pre, cut=cut, fam="cut"))
    return docs


# ------------------------------------------------------------------------------------------------ TLC-generated
def tlc_bfs_scripts(ctx, cfg, timeout=600):
    res = tlc.run_tlc(SPEC_DIR, "XmlMC", cfg, ctx.outdir, workers=4, timeout=timeout, deadlock=False, xmx="4g")
    if res.timed_out or res.errors:
        raise CheckError("MODEL-BROKEN (gen %s): %s" % (cfg, res.errors[:3]))
    out, seen = [], set()
    for line in res.text.splitlines():
        m = re.match(r'<<"SCRIPT", "(.*)">>$', line.strip())
        if m:
            js = m.group(1).encode().decode("unicode_escape")
            if js not in seen:
                seen.add(js)
                out.append(json.loads(js))
    return out, res


def c_size(t):
    return size(t)


def prog_str(p):
    return "".join(chr(c) for c in p)


def run(ctx):
    thorough = ctx.tier == "thorough"
    exe = prepare(ctx)
    ctx.rule = ("evaluation = one aws_xml_parse of one document (rendered from an element tree) under one callback program; "
                "distinct = distinct (document bytes, program, max_depth); non-trivial = at least two elements")
    ctx.assumptions += [
        "dialect: explicit start/end tags, names without markup/space/'/'/'='/quote/'?'/'!', attributes name=value or "
        "name=\"value\" separated by single spaces, values without space/quote/markup (unquoted values not ending in '/'), "
        "text of any bytes except '<' and '>', preamble items '<?...?>' / '<!...>' without '<' '>' inside, white space around them",
        "the callback program is indexed by callback invocation; the callback returns what traverse / as_body returned "
        "(action 'd': descends and returns success whatever the nested traversal returned - the observations must be those of 'D', "
        "a failure is the parser's to remember), Abort raises an error and returns AWS_OP_ERR",
        "descending into an element at depth = max_depth that has no child elements may be refused or accepted (the statement "
        "does not say which side of the limit it is on); a name longer than 256 must be refused by skip / body, descending into "
        "it is reported normally",
        "missing closing tag is exercised as truncation of the document (the root's end tag is damaged); a missing inner end tag "
        "inside a region the callback skips cannot be noticed by a pull parser and is not demanded",
        "error codes are not documented for this API and are not compared",
        "exhaustive only on the model (trees <= 4-5 elements, height <= 3, names {a, ab, b}); the code is covered on the executed documents",
    ]
    # 1. design level: transcribed algorithm == property on all small trees x programs
    # (coverage instrumentation slows these recursion-heavy evaluations ~10x; the vacuity guard is the exact number of
    # (tree, program) states instead: Next has the single action AddNode)
    def mc(cfg, want, timeout=900, xmx="8g"):
        r = ctx.mc(SPEC_DIR, "XmlMC", cfg, coverage=False, timeout=timeout, xmx=xmx)
        if want is not None and r.distinct != want:
            raise CheckError("MODEL-BROKEN: XmlMC %s explored %d (tree, program) states, expected %d" % (cfg, r.distinct, want))
    if thorough:
        mc("MC.cfg", 137181, 3000, "12g")
        mc("MC_thorough.cfg", 173712, 3000, "12g")
        mc("MC_deco_thorough.cfg", 754389, 3000, "12g")
    else:
        mc("MC.cfg", 137181)
        mc("MC_deco.cfg", 5892)
    mc("MC_limits.cfg", 5892)
    # self-test of the comparison: the closing-tag search of the pinned tree (prefix names, F6) must be told apart
    pin = tlc.run_tlc(SPEC_DIR, "XmlMC", "MC_pinned.cfg", ctx.outdir, workers=4, timeout=300, deadlock=False, xmx="4g")
    ctx.extra["model_level_F6"] = {"cfg": "MC_pinned.cfg (FixF6 = FALSE)", "invariant_violated": pin.violated,
                                   "states": pin.distinct}
    if "ImplMeetsSpec" not in pin.violated:
        raise CheckError("MODEL-BROKEN: XmlImpl with the pinned closing-tag search is not distinguished from the property")

    # 2. documents x programs
    rng = random.Random(ctx.seed)
    docs = []
    bfs, _ = tlc_bfs_scripts(ctx, "Gen_bfs.cfg")
    ctx.extra["tlc_enumerated_small"] = len(bfs)
    small = [s for s in bfs if c_size(s["tree"]) <= 3]
    four = [s for s in bfs if c_size(s["tree"]) > 3]
    rng.shuffle(four)
    bfs = small + four[:2500 if not thorough else len(four)]
    ctx.extra["tlc_enumerated_executed"] = len(bfs)
    for s in bfs:
        docs.append(Doc(s["tree"], prog_str(s["prog"]), fam="tlc-bfs"))
    sim, _ = tlc.gen_scripts(SPEC_DIR, "XmlMC", "Gen.cfg", ctx.outdir, num=40 if not thorough else 400, depth=6,
                             seed=ctx.seed, workers=4)
    # TLC evaluates Emit on every successor it generates, not only on the one the walk follows: sample
    sim = [s for s in sim if len(s["prog"]) >= 3]
    rng.shuffle(sim)
    sim = sim[:700 if not thorough else 20000]
    for i, s in enumerate(sim):
        docs.append(Doc(s["tree"], prog_str(s["prog"]), md=(0, 0, 2, 3)[i % 4], p=PRES[i % len(PRES)], fam="tlc-sim"))
    ctx.extra["tlc_simulated"] = len(sim)
    fams = fam_siblings(rng) + fam_depth(rng) + fam_names(rng) + fam_attrs(rng) + fam_text(rng)
    fams += fam_random(rng, 1500 if not thorough else 25000)
    docs += fams
    cut_base = [d for d in fams if d.fam in ("siblings", "random")]
    rng.shuffle(cut_base)
    docs += fam_cut(rng, cut_base[:150 if not thorough else 3000] + [Doc(s["tree"], prog_str(s["prog"])) for s in bfs[::40]])
    byfam = {}
    for d in docs:
        byfam[d.fam] = byfam.get(d.fam, 0) + 1
    ctx.extra["documents_by_family"] = byfam
    execs = pack(docs)
    ctx.evaluations = len(docs)
    for d in docs:
        if size(d.tree) >= 2:
            ctx.distinct.add((render_doc(d.tree, d.pre)[0], d.prog, d.md, d.cut))
    ctx.add_sample({"script": [ln[:300] for ln in execs[0][:3]]})
    ctx.add_sample({"script": [ln[:300] for ln in execs[-1][:3]]})
    pipeline.drive_and_validate(ctx, exe, execs, SPEC_DIR, "XmlTrace", "Trace.cfg", label="xml", nbatch=16)
    # the process-locale family (lib/vlib/locale8.py): a slice of the same executions in a process that called setlocale()
    from vlib import locale8
    locale8.rerun(ctx, exe, execs[::4] if not thorough else execs[::2], SPEC_DIR, "XmlTrace", "Trace.cfg", "xml", nbatch=8)
    # the same parsers on several threads at once (Stateless.tla): one outcome per operation whoever performs it, and a
    # ThreadSanitizer pass over the same scenarios (hidden shared state is a data race whatever the schedule)
    from checks import stateless_common
    stateless_common.drive(ctx, ["xml"], thorough, n=40 if not thorough else 1000)
