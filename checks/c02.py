"""C02 hash table as a map.
HashMap.tla (abstract map with key objects, destructor accounting, iterator/foreach) is model-checked on its own;
RobinHood.tla (slot array, probing, victim swapping, rehash, backward shift, iterator slot/limit arithmetic) is
checked by TLC to refine it for all hash functions over small code sets; behaviours of RobinHood (with their hash
assignments) and seeded random scripts with adversarial hash assignments are replayed on the real aws_hash_table
through a table-driven hash callback; the recorded traces are validated by HashMapTrace.tla against the abstract
map only. The library's own hash/equality pairs are covered by HashEq events and by table scripts on real keys.
Extension: aws_hash_table_eq (Eq action; comparators identity / value class / everything-equal; tables with different
hash functions, sizes, insertion orders), tables that own aws_string keys and values through
aws_hash_callback_string_destroy (destruction observed at the allocator), aws_hash_combine, the documented agreement
of the C-string / aws_string / cursor hashes, aws_hash_table_is_valid / aws_hash_iter_is_valid after every call, and
allocator traffic of put / create (no growth while the table holds fewer entries than it has held before)."""
import random

from vlib import build, pipeline, tlc

LEVEL = "model_checking"
SPEC_DIR = "HashTable"
U64 = (1 << 64) - 1
REAL_MODES = ["cstr", "string", "cursor", "cursor_ic", "ptr", "u64"]
OWN = "string_own"
EQ_KINDS = ["id", "m3", "all"]


def prepare(ctx):
    return build.build_harness("hashtable_adapter", ["hashtable_adapter.c"], cflags=["-Wno-unused-function"])


# ------------------------------------------------------------------ model -> code
def from_tlc(s, rng):
    """One RobinHood behaviour -> script. The model has one table; the script randomly relocates it with
    swap / move (which must not matter) while no iteration is in progress."""
    codes = s["hash"]
    lines = ["RESET tab %d %s" % (len(codes), " ".join(str(c) for c in codes))]
    cur = 1
    relocate = rng.random() < 0.5
    for o in s["ops"]:
        n = o["name"]
        if relocate and n not in ("IterNext", "IterDelete", "Find", "Init") and rng.random() < 0.12:
            oth = 3 - cur
            if rng.random() < 0.5:
                lines.append("SWAP %d %d" % (cur, oth))
            else:
                lines.append("MOVE %d %d" % (oth, cur))
            cur = oth
        if n != "Init" and rng.random() < 0.04:   # non-mutating, also legal while an iteration is in progress
            lines.append("EQ %d %d %s" % (cur, cur, rng.choice(EQ_KINDS)))
        if n == "Init":
            lines.append("INIT %d %d %d %d" % (cur, o["isz"], int(o["k"]), int(o["v"])))
        elif n == "Put":
            lines.append("PUT %d %d %d %d 1" % (cur, o["c"], o["p"], o["v"]))
        elif n == "Create":
            lines.append("CREATE %d %d %d %d 1" % (cur, o["c"], o["p"], o["setv"]))
        elif n == "Find":
            lines.append("FIND %d %d 0" % (cur, o["c"]))
        elif n == "Remove":
            lines.append("REMOVE %d %d 0 %d 1" % (cur, o["c"], int(o["out"])))
        elif n == "RemoveElement":
            lines.append("REMELEM %d %d 0" % (cur, o["c"]))
        elif n == "Clear":
            lines.append("CLEAR %d" % cur)
        elif n == "CleanUp":
            lines.append("CLEANUP %d" % cur)
        elif n == "IterBegin":
            lines.append("ITBEGIN %d" % cur)
        elif n == "IterNext":
            lines.append("ITNEXT")
        elif n == "IterDelete":
            lines.append("ITDEL %d" % int(o["destroy"]))
        elif n == "ForEach":
            lines.append("FOREACH %d %s" % (cur, " ".join(str(f) for f in o["flags"])))
    lines += ["CLEANUP 1", "CLEANUP 2"]
    return lines


# ------------------------------------------------------------------ seeded random driver
def adversarial_codes(rng, ncls, isz):
    size = 2
    while size < max(2, isz):
        size *= 2
    kind = rng.choice(["const", "last", "seq", "zero", "max", "two", "highbits", "rand", "lastseq", "big"])
    if kind == "const":
        k = rng.choice([1, 2, 3, size - 1, size, 42, 7])
        return [k] * ncls
    if kind == "last":           # everything at the last slot of the initial array
        return [size - 1] * ncls
    if kind == "seq":
        b = rng.choice([0, 1, size - 2, size - 1])
        return [b + i for i in range(ncls)]
    if kind == "zero":           # 0 is remapped by the library
        return [rng.choice([0, 0, 1]) for _ in range(ncls)]
    if kind == "max":
        return [rng.choice([U64, U64 - 1, U64, (1 << 63)]) for _ in range(ncls)]
    if kind == "two":            # two clusters, one at the end
        return [rng.choice([size - 1, size // 2]) for _ in range(ncls)]
    if kind == "highbits":       # collide in small arrays, separate after growth
        low = rng.choice([0, 1, size - 1])
        return [low + size * rng.randrange(0, 8) for _ in range(ncls)]
    if kind == "lastseq":        # a run that starts just before the end and wraps
        return [size - 2 + (i % 3) for i in range(ncls)]
    if kind == "big":
        return [rng.choice([U64, 42, 0, 1, size - 1, 2 * size - 1, 4 * size - 1, 8 * size - 1]) for _ in range(ncls)]
    return [rng.randrange(0, 4 * size) for _ in range(ncls)]


def random_exec(rng, nops, mode="tab"):
    ncls = rng.choice([2, 3, 4, 5, 6, 8])
    isz = rng.choice([0, 1, 2, 2, 3, 4, 4, 5, 8, 16])
    if mode == "tab":
        codes = adversarial_codes(rng, ncls, isz)
        lines = ["RESET tab %d %s" % (ncls, " ".join(str(c) for c in codes))]
    else:
        lines = ["RESET %s %d" % (mode, ncls)]
    # string_own: aws_hash_callback_string_destroy requires a valid aws_string, so no NULL key and no value left NULL
    nullkey = rng.random() < 0.3 and mode != OWN
    classes = list(range(1, ncls + 1)) + ([0] if nullkey else [])
    ptrs = [1] if mode == "ptr" else [1, 2, 3]
    live = {1: False, 2: False}     # exact: init / clean_up / swap / move are deterministic
    # string_own: the table frees the key objects it is given, so a key object must never be inside two tables at once.
    # The three objects of a class are split into two pools; the two tables alive at one time use different pools
    # (pools travel with swap / move). Values are fresh ids throughout, hence never shared either.
    own = mode == OWN
    pool = {1: None, 2: None}
    nv = [0]
    fill = rng.choice([0.35, 0.5, 0.65])   # share of inserting calls: decides how full the table runs

    def val():
        nv[0] += 1
        return nv[0]

    def key(t=None):
        c = rng.choice(classes)
        return c, (0 if c == 0 else rng.choice(pool[t] if (own and t) else ptrs))

    def init(t):
        d = rng.choice([(1, 1), (1, 1), (0, 0), (1, 0), (0, 1)])
        if own:
            d = rng.choice([(1, 1), (1, 1), (1, 1), (1, 0), (0, 1), (0, 0)])
            o = 3 - t
            pool[t] = ([1, 2] if pool[o] == [3] else [3]) if live[o] else rng.choice([[1, 2], [3]])
        # tab mode: now and then a table with the second hash function (hash functions are per table)
        alt = 1 if (mode == "tab" and rng.random() < 0.25) else 0
        lines.append("INIT %d %d %d %d %d" % (t, isz if t == 1 else rng.choice([0, 2, 4, 8]), d[0], d[1], alt))
        live[t] = True

    def eq_line():
        a, b = rng.choice([(1, 2), (2, 1), (1, 2), (2, 1), (1, 1), (2, 2)])
        if live[a] and live[b]:
            lines.append("EQ %d %d %s" % (a, b, rng.choice(EQ_KINDS)))

    init(1)
    while len(lines) < nops:
        lv = [t for t in (1, 2) if live[t]]
        if not lv:
            init(rng.choice((1, 2)))
            continue
        t = rng.choice(lv)
        r = rng.random()
        if r < fill:
            c, p = key(t)
            if rng.random() < 0.85:
                lines.append("PUT %d %d %d %d %d" % (t, c, p, val(), rng.choice([1, 1, 1, 0])))
            else:
                lines.append("CREATE %d %d %d %d %d" % (t, c, p, val() if (own or rng.random() < 0.6) else -1, rng.choice([1, 1, 0])))
        elif r < fill + 0.04:
            c, p = key()
            lines.append("FIND %d %d %d" % (t, c, 0 if c == 0 else rng.choice([0] + ptrs)))
        elif r < fill + 0.20:
            c, p = key()
            lines.append("REMOVE %d %d %d %d %d" % (t, c, 0 if c == 0 else rng.choice([0] + ptrs), rng.choice([0, 1]), rng.choice([1, 1, 0])))
        elif r < fill + 0.24:
            c, p = key()
            lines.append("REMELEM %d %d 0" % (t, c))
        elif r < fill + 0.36:
            # an iteration: next / delete with random choices; sometimes run to the end (and past it)
            lines.append("ITBEGIN %d" % t)
            pdel = rng.choice([0.0, 0.3, 0.6, 1.0])
            for _ in range(rng.choice([1, 2, 4, 6, 9, 12])):
                if rng.random() < pdel:
                    lines.append("ITDEL %d" % rng.choice([0, 1]))
                if rng.random() < 0.05:
                    eq_line()       # non-mutating calls are allowed while an iteration is in progress
                lines.append("ITNEXT")
        elif r < fill + 0.42:
            k = rng.choice([0, 1, 2, 3, 5, 9])
            pal = rng.choice([[1, 3], [3], [1, 1, 3], [1, 3, 3, 0], [1, 3, 4], [1, 3, 2, 7, 5]])
            lines.append("FOREACH %d %s" % (t, " ".join(str(rng.choice(pal)) for _ in range(k))))
        elif r < fill + 0.44:
            lines.append("CLEAR %d" % t)
        elif r < fill + 0.47:
            lines.append("SWAP 1 2")
            live[1], live[2] = live[2], live[1]
            pool[1], pool[2] = pool[2], pool[1]
        elif r < fill + 0.50:
            o = 3 - t
            if not live[o]:
                lines.append("MOVE %d %d" % (o, t))
                live[o], live[t] = True, False
                pool[o], pool[t] = pool[t], None
            else:
                lines.append("CLEANUP %d" % o)
                live[o] = False
        elif r < fill + 0.52:
            o = 3 - t
            if not live[o]:
                init(o)
        elif r < fill + 0.53:
            lines.append("CLEANUP %d" % t)
            live[t] = False
        elif r < fill + 0.58:
            eq_line()
    lines += ["CLEANUP 1", "CLEANUP 2"]
    if rng.random() < 0.1:
        lines.append("CLEANUP %d" % rng.choice((1, 2)))   # idempotent
    return lines


def iter_wrap_family(rng, per_config):
    """Bounded-exhaustive family around the iterator's slot/limit arithmetic: a probe cluster whose home slot is one of
    the last three slots of an 8- or 16-slot array (so it wraps), optionally followed by entries homed at slot 0 / 1,
    then one full iteration with a chosen subset of entries deleted through the iterator (all subsets for small
    clusters, sampled for larger ones)."""
    out = []
    for size in (8, 16):
        for home in (size - 3, size - 2, size - 1):
            for m in (3, 4, 5, 6):
                for extra in (0, 1, 2):
                    n = m + extra
                    if n > 8 or n >= size - 1:
                        continue
                    codes = [home] * m + [size, size + 1][:extra]
                    masks = list(range(1 << n))
                    if len(masks) > per_config:
                        first_two = [k for k in masks if bin(k).count("1") == 2][:per_config // 3]
                        masks = first_two + rng.sample(masks, per_config - len(first_two))
                    for mask in masks:
                        lines = ["RESET tab %d %s" % (n, " ".join(str(c) for c in codes)), "INIT 1 %d 1 1" % size]
                        order = list(range(1, n + 1))
                        rng.shuffle(order)
                        for v, c in enumerate(order):
                            lines.append("PUT 1 %d 1 %d 1" % (c, v + 1))
                        lines.append("ITBEGIN 1")
                        for i in range(n + 2):
                            if (mask >> i) & 1:
                                lines.append("ITDEL %d" % (i & 1))
                            lines.append("ITNEXT")
                        lines += ["FIND 1 1 1", "CLEANUP 1", "CLEANUP 2"]
                        out.append(lines)
    return out


def eq_family(rng, n, mode="tab"):
    """aws_hash_table_eq: two tables built to stand in a chosen relation - the same entries (other key objects, other
    insertion order, other initial size, other hash function, other destructors), one value different (really, or only
    as an object: equal under the coarser comparators), one key more / fewer / exchanged, NULL values on one or both
    sides, one or both empty - compared both ways round under every comparator, then again after an edit that makes or
    breaks the equality, and each table with itself."""
    out = []
    own = mode == OWN
    for _ in range(n):
        ncls = rng.choice([1, 2, 3, 4, 6, 8])
        if mode == "tab":
            size = rng.choice([2, 4, 8])
            codes = adversarial_codes(rng, ncls, size)
            lines = ["RESET tab %d %s" % (ncls, " ".join(str(c) for c in codes))]
        else:
            lines = ["RESET %s %d" % (mode, ncls)]
        pa, pb = ([1, 2], [3]) if (own or rng.random() < 0.5) else ([1, 2, 3], [1, 2, 3])
        if mode == "ptr":
            pa = pb = [1]
        classes = list(range(1, ncls + 1)) + ([0] if (rng.random() < 0.3 and not own) else [])
        keys = [c for c in classes if rng.random() < rng.choice([0.5, 0.8, 1.0])]
        rel = rng.choice(["same", "same", "value", "value3", "null_a", "null_both", "extra", "missing", "exchanged", "empty_b",
                          "both_empty"])
        if own and rel.startswith("null"):      # the string destructor must not be handed NULL
            rel = "value3"
        if rel == "both_empty":
            keys = []
        d = rng.choice([(1, 1), (0, 0), (1, 0)])
        lines.append("INIT 1 %d %d %d 0" % (rng.choice([0, 2, 4, 8, 16]), d[0], d[1]))
        d = rng.choice([(1, 1), (0, 0), (0, 1)])
        lines.append("INIT 2 %d %d %d %d" % (rng.choice([0, 2, 4, 8, 16]), d[0], d[1], rng.choice([0, 1])))
        nv = [0]

        def fresh(like=None, same_class=True):
            # value ids are never reused (a table may own them); ids congruent mod 3 are "equal" for comparator m3
            nv[0] += 1
            if like is not None:
                while (nv[0] % 3 == like % 3) != same_class:
                    nv[0] += 1
            return nv[0]

        def put(t, c, v):
            lines.append("PUT %d %d %d %d 1" % (t, c, 0 if c == 0 else rng.choice(pa if t == 1 else pb), v))

        va = {}
        order = list(keys)
        rng.shuffle(order)
        for c in order:
            va[c] = fresh()
            put(1, c, va[c])
        kb = list(keys)
        if rel == "missing" and kb:
            kb.remove(rng.choice(kb))
        if rel == "empty_b":
            kb = []
        absent = [c for c in classes if c not in keys]
        if rel == "extra" and absent:
            kb.append(rng.choice(absent))
        if rel == "exchanged" and absent and kb:
            kb.remove(rng.choice(kb))
            kb.append(rng.choice(absent))
        rng.shuffle(kb)
        odd = rng.choice(kb) if kb else None
        identical = rng.random() < 0.5
        for c in kb:
            if c in va and own:
                v = fresh(va[c], not (rel == "value3" and c == odd))     # another object; equal as a string or not
            elif c in va and rel in ("value", "value3") and c == odd:
                v = fresh(va[c], rel == "value")                        # "value": differs as an object only
            elif c in va and not own:
                # the very same value (ids are carried in the pointer), or another one of its class: the comparator decides
                v = va[c] if identical else fresh(va[c], True)
            else:
                v = fresh()
            if rel in ("null_a", "null_both") and c == odd:
                lines.append("CREATE 2 %d %d -1 1" % (c, 0 if c == 0 else rng.choice(pb)))   # value NULL
                if rel == "null_both" and c in va:
                    lines.append("REMOVE 1 %d 0 0 1" % c)
                    lines.append("CREATE 1 %d %d -1 1" % (c, 0 if c == 0 else rng.choice(pa)))
            else:
                put(2, c, v)

        def compare():
            for k in rng.sample(EQ_KINDS, rng.choice([2, 3, 3])):
                a, b = rng.choice([(1, 2), (2, 1)])
                lines.append("EQ %d %d %s" % (a, b, k))
                if rng.random() < 0.3:
                    lines.append("EQ %d %d %s" % (b, a, k))
        compare()
        lines.append("EQ %d %d %s" % (1, 1, rng.choice(EQ_KINDS)))
        # an edit, then again
        for _ in range(rng.choice([1, 1, 2])):
            t = rng.choice([1, 2])
            c = rng.choice(classes)
            how = rng.choice(["remove", "put", "put_like", "foreach_del", "swap", "iter_del"])
            if how == "remove":
                lines.append("REMOVE %d %d 0 %d 1" % (t, c, rng.choice([0, 1])))
            elif how == "put":
                put(t, c, fresh())
            elif how == "put_like" and c in va:
                put(t, c, fresh(va[c], True))
            elif how == "foreach_del":
                lines.append("FOREACH %d %s" % (t, " ".join(str(rng.choice([1, 3])) for _ in range(rng.choice([1, 2, 9])))))
            elif how == "swap":
                lines.append("SWAP 1 2")
                pa, pb = pb, pa
            elif how == "iter_del":
                lines += ["ITBEGIN %d" % t, "ITDEL %d" % rng.choice([0, 1]), "ITNEXT", "EQ 1 2 %s" % rng.choice(EQ_KINDS)]
            compare()
        lines.append("EQ %d %d %s" % (2, 2, rng.choice(EQ_KINDS)))
        lines += ["CLEANUP 1", "EQ 1 2 id", "CLEANUP 2"]
        out.append(lines)
    return out


def room_family(rng, n):
    """Storage is kept: a table that has held k entries takes k entries again without asking the allocator for memory -
    after clear, after removals of every kind, after travelling through swap / move - and overwriting never grows it."""
    out = []
    for _ in range(n):
        ncls = 8
        isz = rng.choice([0, 2, 3, 4, 5, 8, 9, 16])
        codes = adversarial_codes(rng, ncls, isz)
        lines = ["RESET tab %d %s" % (ncls, " ".join(str(c) for c in codes)), "INIT 1 %d 1 1 %d" % (isz, rng.choice([0, 0, 1]))]
        classes = list(range(0, ncls + 1))
        rng.shuffle(classes)
        k = rng.choice([1, 2, 3, 4, 5, 7, 8, 9])
        v = 0
        t = 1
        for rnd in range(rng.choice([2, 3])):
            for c in classes[:k]:
                v += 1
                lines.append("%s %d %d %d %d 1" % ("PUT", t, c, 0 if c == 0 else rng.choice([1, 2, 3]), v))
                if rng.random() < 0.15:       # overwrite at once
                    v += 1
                    lines.append("PUT %d %d %d %d 1" % (t, c, 0 if c == 0 else rng.choice([1, 2, 3]), v))
            how = rng.choice(["clear", "remove", "iter", "foreach", "remelem", "some"])
            if how == "clear":
                lines.append("CLEAR %d" % t)
            elif how == "remove":
                lines += ["REMOVE %d %d 0 %d 1" % (t, c, rng.choice([0, 1])) for c in classes[:k]]
            elif how == "remelem":
                lines += ["REMELEM %d %d 0" % (t, c) for c in classes[:k]]
            elif how == "iter":
                lines.append("ITBEGIN %d" % t)
                for _ in range(k):
                    lines += ["ITDEL %d" % rng.choice([0, 1]), "ITNEXT"]
            elif how == "foreach":
                lines.append("FOREACH %d %s" % (t, " ".join(["3"] * k)))
            else:
                lines += ["REMOVE %d %d 0 0 1" % (t, c) for c in classes[:k] if rng.random() < 0.5]
            if rng.random() < 0.4:
                if rng.random() < 0.5:
                    lines.append("SWAP 1 2")
                else:
                    lines.append("MOVE %d %d" % (3 - t, t))
                t = 3 - t
            rng.shuffle(classes)
            k = rng.choice([k, k, max(1, k - 1), min(9, k + 1)])
        lines += ["CLEANUP 1", "CLEANUP 2"]
        out.append(lines)
    return out


# ------------------------------------------------------------------ the library's own hash / equality pairs
def _hex(b):
    return b.hex() if b else "-"


def _flipcase(b, rng):
    out = bytearray(b)
    idx = [i for i, x in enumerate(out) if chr(x).isalpha() and x < 128]
    if not idx:
        return None
    for i in rng.sample(idx, rng.randint(1, len(idx))):
        out[i] ^= 0x20
    return bytes(out)


def hasheq_exec(rng, n):
    lines = ["RESET tab 1 0"]
    alpha = b"abcXYZ019-_ \xc3\xa9\xff\x80@[`{"
    edge = [0, 1, 2, 0xFF, 0xFFFFFFFF, 0x100000000, (1 << 63), U64, U64 - 1, 0x0123456789ABCDEF]
    while len(lines) < n:
        fam = rng.choice(REAL_MODES + ["combine", "xhash"])
        if fam == "combine":
            # aws_hash_combine: a function of (item1, item2) - no more is documented
            a1 = rng.choice(edge + [rng.getrandbits(64)])
            b1 = rng.choice(edge + [rng.getrandbits(64)])
            rel = rng.choice(["copy", "copy", "diff"])
            a2, b2 = a1, b1
            if rel == "diff":
                how = rng.choice(["a", "b", "swap", "both"])
                if how in ("a", "both"):
                    a2 = a1 ^ (1 << rng.randrange(64))
                if how in ("b", "both"):
                    b2 = b1 ^ (1 << rng.randrange(64))
                if how == "swap":
                    a2, b2 = b1, a1
                    if (a2, b2) == (a1, b1):
                        rel = "copy"
            lines.append("COMBINE %d %d %d %d %s" % (a1, b1, a2, b2, rel))
            continue
        if fam == "xhash":
            ln = rng.choice([0, 1, 2, 3, 4, 7, 8, 11, 12, 13, 16, 23, 24, 25, 31, 43])
            lines.append("XHASH %s" % _hex(bytes(rng.choice(alpha) for _ in range(ln))))
            continue
        if fam == "ptr":
            a = bytes([rng.randrange(0, 200)])
            rel = rng.choice(["copy", "diff"])
            b = a if rel == "copy" else bytes([(a[0] + rng.randint(1, 50)) % 256])
            lines.append("HASHEQ ptr %s %s 0 0 %s" % (_hex(a), _hex(b), rel))
            continue
        if fam == "u64":
            a = bytes(rng.choice([0, 0, 1, 255, rng.randrange(256)]) for _ in range(8))
            rel = rng.choice(["copy", "diff"])
            b = a
            if rel == "diff":
                i = rng.randrange(8)
                b = a[:i] + bytes([a[i] ^ (1 << rng.randrange(8))]) + a[i + 1:]
            lines.append("HASHEQ u64 %s %s 0 0 %s" % (_hex(a), _hex(b), rel))
            continue
        ln = rng.choice([0, 0, 1, 2, 3, 4, 5, 6, 7, 7, 8, 9, 10, 11, 12, 13, 16, 19, 19, 23, 24, 25, 31, 31, 43])
        a = bytes(rng.choice(alpha) for _ in range(ln))
        rel = rng.choice(["copy", "copy", "case", "diff"])
        b = a
        if rel == "case":
            b = _flipcase(a, rng)
            if b is None:
                rel, b = "copy", a
        elif rel == "diff":
            how = rng.choice(["byte", "len", "len", "bit5", "bit5"]) if ln else "len"
            nonalpha = [i for i, x in enumerate(a) if not (chr(x).isalpha() and x < 128)]
            if how == "bit5" and nonalpha:
                # a non-letter byte with bit 5 flipped ('[' / '{', '@' / '`', '0' / DLE): never equal, not even ignoring case
                i = rng.choice(nonalpha)
                b = a[:i] + bytes([a[i] ^ 0x20]) + a[i + 1:]
            elif how == "byte" or how == "bit5":
                i = rng.randrange(ln)
                x = a[i]
                y = rng.choice([c for c in alpha if c != x and (c | 0x20) != (x | 0x20)])
                b = a[:i] + bytes([y]) + a[i + 1:]
            else:
                b = a + bytes([rng.choice(alpha)]) if (rng.random() < 0.5 or ln == 0) else a[:-1]
        na = nb = 0
        if fam in ("cursor", "cursor_ic"):
            # zero-length cursors: NULL pointer or not; key bytes at every offset from a 4-aligned address, followed by
            # nothing (exact-size block), ':' or 0xff: where a key lies and what follows it must not matter
            na = rng.choice([0, 1]) | (rng.randrange(4) << 1) | (rng.choice([0, 0, 58, 255]) << 3)
            nb = rng.choice([0, 1]) | (rng.randrange(4) << 1) | (rng.choice([0, 0, 58, 255]) << 3)
        lines.append("HASHEQ %s %s %s %d %d %s" % (fam, _hex(a), _hex(b), na, nb, rel))
    return lines


def nontrivial(ex):
    ins = sum(1 for ln in ex if ln.startswith("PUT") or ln.startswith("CREATE"))
    rem = any(ln.startswith(("REMOVE", "REMELEM", "ITDEL")) or (ln.startswith("FOREACH") and any(int(f) & 2 for f in ln.split()[2:]))
              for ln in ex)
    eq = sum(1 for ln in ex if ln.startswith("EQ "))
    return (ins >= 3 and rem) or (ins >= 2 and eq >= 2) or any(ln.startswith("HASHEQ") for ln in ex)


def run(ctx):
    thorough = ctx.tier == "thorough"
    exe = prepare(ctx)
    ctx.rule = ("execution = one hash assignment (64-bit code per key class, or one of the library's own hash/eq pairs) + "
                "initial size + destructor configuration + a sequence of init/put/create/find/remove/remove_element/"
                "iterator begin-next-delete/foreach(flag script)/clear/swap/move/eq(comparator)/clean_up calls on two table "
                "structs (or a batch of HashEq key pairs, aws_hash_combine pairs and cross-type hash comparisons); distinct = "
                "distinct script text; non-trivial = at least three inserting calls and one removal of any kind, or two "
                "inserting calls and two table comparisons (or a HashEq batch)")
    ctx.assumptions += [
        "the hash callback is a function of the key class (consistent with equality), as the header requires",
        "allocation cannot fail (aws_mem_acquire aborts on OOM); initial sizes near SIZE_MAX are not exercised",
        "no mutating call while a user iterator is in use other than aws_hash_iter_delete (header: undefined behaviour)",
        "RobinHood model constants: <= 4-5 key classes, arrays of 2..16 slots, hash codes from small sets; refinement "
        "checked on the complete reachable state space of each configuration (quick) / larger ones (thorough)",
        "foreach DELETE without CONTINUE: the header is ambiguous whether iteration goes on; both are accepted",
        "aws_hash_table_eq: the value comparator is an equivalence in which NULL equals only NULL (whether the library "
        "consults it for NULL or identical pointers is left open); both tables use the same key equality",
        "tables owning aws_strings (aws_hash_callback_string_destroy): the driver never hands one key or value object to "
        "two tables at once, nor a value object twice; objects a table gives back undestroyed are freed by the adapter",
        "allocator traffic: put/create must not allocate when they add no entry or the table has held more entries "
        "before (storage is kept until clean_up); the header's promise for the size given to aws_hash_table_init is "
        "NOT part of the verdict (Trace_initsize.cfg turns it on: the library breaks it for sizes at or just below a power of two)",
        "aws_hash_combine: only that it is a function of its two arguments (nothing else is documented)",
    ]
    # 1. design level -------------------------------------------------------------------------------------
    ctx.mc(SPEC_DIR, "HashMapMC", "MC_abs_thorough.cfg" if thorough else "MC_abs.cfg", timeout=3000, xmx="16g",
           required_actions=["HashMapMC!MCPut", "HashMapMC!MCRemove", "HashMapMC!MCSwap", "HashMapMC!MCMove",
                             "HashMapMC!MCIterDelete", "HashMapMC!MCForEach", "HashMapMC!MCCleanUp", "HashMapMC!MCEq"])
    # vacuity guard: every named action of the implementation-shaped model (including the split-off internal
    # branches: growth, backward shift across the end of the array, iterator limit--, step back from slot 0) is
    # taken in a small complete configuration run with -coverage; the large configurations run without it
    # (coverage collection costs TLC more than twice the time).
    ctx.mc(SPEC_DIR, "RobinHoodMC", "MC_cov.cfg", timeout=3000, xmx="8g", required_actions=[
        "RobinHoodMC!MCReInit", "RobinHoodMC!MCPut", "RobinHoodMC!MCPutGrow", "RobinHoodMC!MCCreate", "RobinHoodMC!MCFind",
        "RobinHoodMC!MCRemove", "RobinHoodMC!MCRemoveWrap", "RobinHoodMC!MCRemoveElement", "RobinHoodMC!MCClear",
        "RobinHoodMC!MCCleanUp", "RobinHoodMC!MCIterBegin", "RobinHoodMC!MCIterNext", "RobinHoodMC!MCIterDelete",
        "RobinHoodMC!MCIterDeleteShrink", "RobinHoodMC!MCIterDeleteSlot0", "RobinHoodMC!MCForEach"])
    cfgs = ["MC.cfg", "MC_grow.cfg", "MC_cluster.cfg", "MC_obj.cfg"]
    if thorough:
        cfgs += ["MC_grow4.cfg", "MC_grow_thorough.cfg", "MC_cluster_thorough.cfg"]
    for cfg in cfgs:
        ctx.mc(SPEC_DIR, "RobinHoodMC", cfg, timeout=6000, xmx="16g", coverage=False)
    # 2. model -> code ------------------------------------------------------------------------------------
    rng = random.Random(ctx.seed)
    scripts, _ = tlc.gen_scripts(SPEC_DIR, "RobinHoodMC", "Gen.cfg", ctx.outdir, num=120 if not thorough else 1200, depth=40,
                                 seed=ctx.seed, workers=4, timeout=600)
    scripts.sort(key=lambda s: repr(s))
    rng.shuffle(scripts)
    scripts = scripts[:700 if not thorough else 10000]
    execs = [from_tlc(s, rng) for s in scripts]
    ctx.extra["tlc_generated_scripts"] = len(execs)
    # 3. seeded random driver: adversarial hash assignments on the table-driven hash --------------------------
    nrand = 1500 if not thorough else 40000
    for _ in range(nrand):
        execs.append(random_exec(rng, rng.randint(12, 75)))
    ctx.extra["random_scripts"] = nrand
    # 4. the library's own hash / equality pairs: key pairs, and table scripts on real keys --------------------
    nreal = 20 if not thorough else 400
    for mode in REAL_MODES:
        for _ in range(nreal):
            execs.append(random_exec(rng, rng.randint(12, 60), mode=mode))
    nheq = 40 if not thorough else 600
    for _ in range(nheq):
        execs.append(hasheq_exec(rng, 60))
    fam = iter_wrap_family(rng, 24 if not thorough else 256)
    execs += fam
    ctx.extra["iterator_wrap_family_scripts"] = len(fam)
    # 5. extension: tables that own aws_strings, table comparison, kept storage -----------------------------------
    nown = 160 if not thorough else 4000
    for _ in range(nown):
        execs.append(random_exec(rng, rng.randint(12, 70), mode=OWN))
    ctx.extra["string_owning_table_scripts"] = nown
    eqf = eq_family(rng, 150 if not thorough else 4000)
    for mode in REAL_MODES + [OWN, OWN]:
        eqf += eq_family(rng, 10 if not thorough else 200, mode=mode)
    execs += eqf
    ctx.extra["table_eq_family_scripts"] = len(eqf)
    rf = room_family(rng, 60 if not thorough else 1500)
    execs += rf
    ctx.extra["kept_storage_family_scripts"] = len(rf)
    ctx.extra["real_hash_table_scripts"] = nreal * len(REAL_MODES)
    ctx.extra["hasheq_pairs"] = nheq * 59
    calls = {}
    for ex in execs:
        ctx.evaluations += 1
        if nontrivial(ex):
            ctx.distinct.add(hash("\n".join(ex)))
        for ln in ex:
            w = ln.split(" ", 1)[0]
            calls[w] = calls.get(w, 0) + 1
    ctx.extra["script_calls"] = calls
    ctx.add_sample({"script": execs[0][:16]})
    ctx.add_sample({"script": execs[len(scripts) + 1][:16]})
    ctx.add_sample({"script": execs[-1][:4]})
    pipeline.drive_and_validate(ctx, exe, execs, SPEC_DIR, "HashMapTrace", "Trace.cfg", label="ht")
    # the process-locale family (lib/vlib/locale8.py): a slice of the same executions in a process that called setlocale()
    # (the case-insensitive hash and equality must keep agreeing with each other whatever <ctype.h> says about a byte)
    from vlib import locale8
    locale8.rerun(ctx, exe, execs[::5], SPEC_DIR, "HashMapTrace", "Trace.cfg", "ht")
