"""C03 small block allocator: SbaBin.tla (pages / free list / purge, every history) model-checked; the real
allocator driven single-threaded and multi-threaded (controlled scheduler); traces validated against Sba.tla."""
import random
import re

from vlib import build, pipeline

LEVEL = "model_checking"
SPEC_DIR = "Sba"
ENV = {"ASAN_OPTIONS": "abort_on_error=0:detect_leaks=1:leak_check_at_exit=0:allocator_may_return_null=1:handle_abort=0:"
                       "detect_stack_use_after_return=0:malloc_context_size=4"}


def prepare(ctx):
    return build.build_harness("sba_scenario", ["sba_scenario.c"], cflags=["-Wno-unused-function"], wrap=True)


SIZES = [1, 16, 31, 32, 33, 63, 64, 65, 127, 128, 129, 255, 256, 257, 500, 511, 512, 513, 600, 1100, 5000]


def rand_ops(rng, n, nslots=16, fill_heavy=False):
    ops = []
    for _ in range(n):
        r = rng.random()
        s = rng.randrange(nslots)
        if r < (0.55 if fill_heavy else 0.4):
            ops.append("A%d:%d" % (s, rng.choice(SIZES)))
        elif r < 0.5:
            k = rng.choice([1, 2, 3, 8])
            ops.append("C%d:%dx%d" % (s, k, rng.choice([1, 10, 16, 32, 64, 170, 200, 513, 700, 5000])))
        elif r < 0.7:
            ops.append("R%d:%d" % (s, rng.choice(SIZES + [0])))
        elif r < 0.93:
            ops.append("F%d" % s)
        elif r < 0.97:
            ops.append("Q")
        else:
            ops.append("P")
    return ops


def page_cycle(rng, size, cpp):
    """fill more than two pages of one class, drain one page completely (in random order), refill: exercises the purge
    loop, page give-back and reuse with the real chunks-per-page geometry"""
    n = min(15, cpp + rng.randint(1, 3))
    ops = ["A%d:%d" % (i, size) for i in range(n)]
    order = list(range(n))
    rng.shuffle(order)
    ops += ["F%d" % i for i in order[: rng.randint(1, n)]]
    ops += ["Q"]
    ops += ["A%d:%d" % (i, size) for i in range(n)]
    ops += ["Q"]
    return ops


def page_survivors(rng):
    """a full page that is no longer the working page is drained down to one or two survivors, which are then resized inside
    their class, across classes and to the parent, or released - with the page's other chunks, the working page and the
    retired-page bookkeeping all in play (real chunks-per-page geometry)"""
    (lo, hi), cpp = rng.choice([((257, 512), 7), ((129, 256), 15), ((65, 128), 31)])
    size = rng.randint(lo, hi)
    n = cpp + rng.randint(1, 3)                      # the first page is full, a second one is the working page
    ops = ["A%d:%d" % (i, size) for i in range(n)]
    first = list(range(cpp))
    rng.shuffle(first)
    keep = first[: rng.choice([1, 1, 2])]
    ops += ["F%d" % i for i in first if i not in keep] + ["Q"]
    for s in keep:
        ops.append(rng.choice(["R%d:%d" % (s, rng.randint(size, hi)), "R%d:%d" % (s, rng.randint(lo, size)), "R%d:%d" % (s, hi),
                               "R%d:%d" % (s, lo - 1), "R%d:%d" % (s, 513), "R%d:%d" % (s, rng.randint(lo, hi)), "F%d" % s]))
        ops.append("Q")
    ops += ["A%d:%d" % (40 + i, rng.randint(lo, hi)) for i in range(rng.randint(0, 3))] + ["Q"]
    return ops


def exact_pages(rng):
    """exactly k full pages of one class (so the last acquire retires the working page), everything released in random
    order, query: exercises the give-back of pages when the class has no working page"""
    size, cpp = rng.choice([(512, 7), (400, 7), (256, 15), (200, 15), (128, 31), (100, 31), (64, 63), (40, 63), (32, 127), (9, 127)])
    k = rng.choice([1, 2, 3]) if cpp * 3 <= 256 else rng.choice([1, 2])
    n = cpp * k
    ops = ["A%d:%d" % (i, size) for i in range(n)] + ["Q"]
    order = list(range(n))
    rng.shuffle(order)
    ops += ["F%d" % i for i in order] + ["Q"]
    if rng.random() < 0.5:
        ops += ["A0:%d" % size, "F0", "Q"]
    return ops


def page_reuse(rng):
    """pages are filled and given back, then blocks served by the parent allocator (> 512 bytes) come to lie inside the
    memory of those pages (the harness allocator recycles retired pages the way malloc recycles freed memory), are
    released again, and small blocks follow: whatever the allocator left behind in a page it gave back must not matter"""
    size, cpp = rng.choice([(512, 7), (256, 15), (128, 31), (64, 63)])
    k = rng.choice([1, 2])
    n = cpp * k + rng.choice([0, 0, 1])
    ops = ["A%d:%d" % (i, size) for i in range(n)]
    order = list(range(n))
    rng.shuffle(order)
    ops += ["F%d" % i for i in order] + ["Q"]
    big = rng.randint(1, 4)
    ops += ["A%d:%d" % (200 + i, rng.choice([513, 600, 1100, 3000])) for i in range(big)] + ["Q"]
    rel = list(range(big))
    rng.shuffle(rel)
    ops += ["F%d" % (200 + i) for i in rel[: rng.randint(1, big)]] + ["Q"]
    ops += ["A%d:%d" % (i, rng.choice([size, size, 32, 512])) for i in range(rng.randint(1, cpp + 1))] + ["Q"]
    return ops


def handover(rng):
    """main fills k pages of one class completely, part of the blocks in slots owned by the worker threads, releases its
    own share (the pages are retired and nearly empty), then the workers release the last blocks of those pages while
    others acquire and release in the same class: exercises the give-back of a page against concurrent use of its chunks"""
    size, cpp = rng.choice([(512, 7), (400, 7), (256, 15), (130, 15), (128, 31)])
    nthr = rng.choice([2, 2, 3])
    k = rng.choice([1, 1, 2])
    total = cpp * k
    held = {t: rng.randint(0 if t > 1 else 1, 3) for t in range(1, nthr + 1)}     # blocks handed to each worker
    main_ops, idx = [], 0
    mine = []
    order = list(range(total))
    owner = {}
    give = [(t, i) for t in held for i in range(held[t])]
    rng.shuffle(give)
    give = give[:total]
    held = {t: sum(1 for g in give if g[0] == t) for t in held}
    give = [(t, i) for t in held for i in range(held[t])]
    pos = sorted(rng.sample(order, len(give)))
    for j in order:
        if j in pos:
            t, i = give[pos.index(j)]
            main_ops.append("A%d:%d" % (t * 16 + i, size))
        else:
            main_ops.append("A%d:%d" % (64 + len(mine), size))
            mine.append(64 + len(mine))
    rng.shuffle(mine)
    main_ops += ["F%d" % m for m in mine] + ["Q"]
    lines = ["SBA 1", "MAIN " + " ".join(main_ops)]
    for t in range(1, nthr + 1):
        ops = ["F%d" % i for i in range(held[t])]
        extra = []
        for _ in range(rng.randint(0, 3)):
            sl = rng.randint(8, 12)
            extra += ["A%d:%d" % (sl, rng.choice([size, size, size - 1])), "F%d" % sl]
        # interleave: keep each A before its F, releases of handed-over blocks anywhere
        merged, a, b = [], 0, 0
        while a < len(ops) or b < len(extra):
            if b >= len(extra) or (a < len(ops) and rng.random() < 0.5):
                merged.append(ops[a]); a += 1
            else:
                merged += extra[b:b + 2]; b += 2
        lines.append("THREAD %d %s" % (t, " ".join(merged)))
    lines.append("POST Q")
    return lines


G4 = 1 << 32
HUGE = [G4, G4 + 1, G4 + 32, G4 + 100, G4 + 512, G4 + 513, 2 * G4 + 64, 3 * G4 + 500, (1 << 31) + 40, (1 << 30) + 7, (1 << 33) + 128]


def huge_ops(rng):
    """requests of a gigabyte and more (address space only, see vh_core.h VH_HUGE): acquired, grown to from a small block,
    shrunk back to one, released, between ordinary small traffic that must not be disturbed"""
    ops = rand_ops(rng, rng.randint(3, 10))
    for _ in range(rng.randint(1, 3)):
        s = rng.randrange(16, 30)
        h = rng.choice(HUGE)
        kind = rng.random()
        if kind < 0.4:
            ops += ["A%d:%d" % (s, h)]
        elif kind < 0.7:
            ops += ["A%d:%d" % (s, rng.choice([1, 32, 100, 512])), "R%d:%d" % (s, h)]
        else:
            ops += ["A%d:%d" % (s, rng.choice([513, 600, 5000])), "R%d:%d" % (s, h)]
        ops += rand_ops(rng, rng.randint(1, 5)) + ["Q"]
        ops += [rng.choice(["F%d" % s, "R%d:%d" % (s, rng.choice([0, 16, 512, 513, 4000])), "R%d:%d" % (s, rng.choice([0, 100]))])]
        ops += rand_ops(rng, rng.randint(0, 4)) + ["Q"]
    return ops


def scenario(rng):
    sc = scenario0(rng)
    # the parent's optional entry points (calloc, realloc) are left out in some executions: the allocator must not need them
    if rng.random() < 0.3:
        # (aws_mem_realloc's emulation for a parent without realloc zero-fills the grown part: gigabytes are not grown there)
        huge = any(int(x) >= 1 << 30 for x in re.findall(r":(\d+)", " ".join(sc)))
        sc[0] = sc[0] + " %d" % (2 if huge else rng.choice([1, 1, 2, 3]))
    return sc


def scenario0(rng):
    r = rng.random()
    if r < 0.08:
        return handover(rng)
    if r < 0.14:
        return ["SBA %d" % rng.choice([0, 1]), "MAIN " + " ".join(huge_ops(rng))]
    if r < 0.22:
        return ["SBA %d" % rng.choice([0, 1]), "MAIN " + " ".join(page_survivors(rng))]
    r = rng.random()
    if r < 0.35:
        return ["SBA %d" % rng.choice([0, 1]), "MAIN " + " ".join(rand_ops(rng, rng.randint(10, 38)))]
    if r < 0.45:
        size, cpp = rng.choice([(512, 7), (256, 15), (300, 7), (129, 15)])
        return ["SBA 0", "MAIN " + " ".join(page_cycle(rng, size, cpp))]
    if r < 0.55:
        return ["SBA %d" % rng.choice([0, 1]), "MAIN " + " ".join(exact_pages(rng))]
    if r < 0.63:
        return ["SBA %d" % rng.choice([0, 1]), "MAIN " + " ".join(page_reuse(rng))]
    lines = ["SBA 1", "MAIN " + " ".join(rand_ops(rng, rng.randint(0, 8)))]
    for k in range(1, rng.randint(2, 3) + 1):
        lines.append("THREAD %d %s" % (k, " ".join(rand_ops(rng, rng.randint(4, 14), nslots=6, fill_heavy=True))))
    lines.append("POST " + " ".join(rand_ops(rng, rng.randint(0, 6))))
    return lines


CORE = [
    ["SBA 1", "THREAD 1 A0:32 F0 A0:32", "THREAD 2 A0:32 F0"],
    ["SBA 1", "MAIN A0:512 A1:512", "THREAD 1 F0 A2:512 R2:100", "THREAD 2 A0:500 F0 A0:300 R0:513"],
    ["SBA 1", "THREAD 1 A0:64 A1:64 F0 F1", "THREAD 2 A0:64 R0:0 A1:40", "THREAD 3 A0:33 F0"],
    # a retired page with one live block: its release races with an acquire + release of the same class
    ["SBA 1", "MAIN A16:512 A64:512 A65:512 A66:512 A67:512 A68:512 A69:512 F64 F65 F66 F67 F68 F69", "THREAD 1 F0",
     "THREAD 2 A0:512 F0", "POST Q"],
    # two live blocks of a retired page released by two threads
    ["SBA 1", "MAIN A16:500 A32:500 A65:512 A66:512 A67:512 A68:512 A69:512 F65 F66 F67 F68 F69", "THREAD 1 F0 A1:512 F1",
     "THREAD 2 F0", "POST Q"],
]


def run(ctx):
    thorough = ctx.tier == "thorough"
    exe = prepare(ctx)
    ctx.rule = ("execution = acquire/calloc/realloc/release history on one allocator (sizes 1..5000 around every class "
                "boundary, page fill/drain/refill cycles with the real chunks-per-page geometry), single-threaded or 2-3 "
                "threads under a controlled schedule; distinct = distinct (scenario, schedule policy); non-trivial = "
                "history with at least one release followed by an acquire of the same class")
    ctx.assumptions += [
        "sequentially consistent serialised execution for the multi-threaded scenarios (data races on plain memory invisible)",
        "a block counts as small when a size class serves it (acquired / grown to n <= 512; shrinking in place keeps its class)",
        "byte counts are compared only at quiescent points (no call in progress on another thread)",
        "overlap is judged per 4096-byte page on [offset, offset + requested size); leak check by LeakSanitizer after destroy",
    ]
    ctx.mc(SPEC_DIR, "SbaBin", "MC.cfg", timeout=600, xmx="4g",
           required_actions=["SbaBin!AllocFromFree", "SbaBin!AllocFromCursor", "SbaBin!AllocNewPage"])
    ctx.mc(SPEC_DIR, "SbaBin", "MC3.cfg" if not thorough else "MC4.cfg", timeout=1500, xmx="8g")
    rng = random.Random(ctx.seed)
    blocks = []
    budget, bound = (200, 2) if not thorough else (3000, 3)
    for sc in CORE:
        blocks.append(("dfs %d %d" % (budget, bound), sc))
    nrand = 700 if not thorough else 15000
    for _ in range(nrand):
        sc = scenario(rng)
        pol = rng.choice(["pct %d 2 80", "pct %d 3 150", "rand %d", "fixed -"])
        pol = pol % rng.randrange(1, 10 ** 6) if "%d" in pol else pol
        blocks.append((pol, sc))
    for pol, sc in blocks:
        ctx.distinct.add(hash(pol + "|" + "\n".join(sc)))
    ctx.add_sample({"policy": blocks[1][0], "scenario": blocks[1][1]})
    ctx.add_sample({"policy": blocks[-1][0], "scenario": blocks[-1][1]})
    rng.shuffle(blocks)
    n, acc = pipeline.drive_vsched(ctx, exe, blocks, SPEC_DIR, "SbaTrace", "Trace.cfg", label="sba", env=ENV)
    # the same histories on the configuration users run (gcc -O2 -DNDEBUG, no sanitizer): behaviour that depends on what
    # the optimiser does (a store dropped as dead before free) only exists there
    exe_rel = build.build_harness("sba_scenario_rel", ["sba_scenario.c"], cflags=["-Wno-unused-function"], wrap=True, variant="rel")
    rel_blocks = [b for b in blocks if not b[0].startswith("dfs")][: (300 if not thorough else 4000)]
    n2, acc2 = pipeline.drive_vsched(ctx, exe_rel, rel_blocks, SPEC_DIR, "SbaTrace", "Trace.cfg", label="sbarel", env={"TZ": "UTC"})
    ctx.extra["executions_on_release_configuration"] = n2
    # data-race scan on the ThreadSanitizer build (what a serialising scheduler cannot see)
    scan = [b for b in blocks if not b[0].startswith("dfs")][: (120 if not thorough else 1500)]
    pipeline.race_scan(ctx, "sba_scenario", "sba_scenario.c", scan)
    ctx.evaluations += n
    ctx.distinct_extra += max(0, n - len(blocks))
    ctx.extra["executions"] = n
