"""Shared by C04, C10, C11, C12, C13 and C19: the 'stateless APIs on several threads at once' family
(spec/Stateless/Stateless.tla, harness/stateless_scenario.c).  Parsers and codecs take their whole input as an argument, so
an operation has one outcome whichever thread performs it and whatever the other threads do; 2-3 real threads perform
operations of the kinds a check asks for under the controlled scheduler, the main thread repeats them alone afterwards,
StatelessTrace.tla validates every event, and the same scenarios run on the ThreadSanitizer build (hidden shared state -
a static scratch buffer, a lazily filled table - is a data race whatever the schedule)."""
import random
import struct

from vlib import build, pipeline, tlc
from vlib.common import CheckError

SPEC_DIR = "Stateless"
HARNESS = "stateless_scenario"
NAMES = ["a", "ab", "b", "Contents", "CommonPrefixes", "Key", "k", "item", "x-y_z"]


def _xml_tree(rng, depth, names):
    nm = rng.choice(names)
    attrs = "".join(' %s="%s"' % (rng.choice(["k", "id", "a-b"]), rng.choice(["v", "1", "x=y", "'q'", ""])) for _ in range(rng.choice([0, 0, 1, 2])))
    if depth <= 0 or rng.random() < 0.3:
        body = rng.choice(["", "t", "some text", "x y", "0123456789" * rng.choice([1, 3])])
        return "<%s%s>%s</%s>" % (nm, attrs, body, nm)
    kids = "".join(_xml_tree(rng, depth - 1, names) for _ in range(rng.randint(1, 5)))
    return "<%s%s>%s</%s>" % (nm, attrs, kids, nm)


def xml_doc(rng):
    names = rng.sample(NAMES, rng.randint(2, 4))
    doc = rng.choice(["", '<?xml version="1.0" encoding="UTF-8"?>', "<!DOCTYPE x>"]) + _xml_tree(rng, rng.randint(1, 3), names)
    if rng.random() < 0.15:                          # damaged: the verdict must be the same on every thread as well
        i = rng.randrange(len(doc))
        doc = doc[:i] + rng.choice(["<", ">", "/", ""]) + doc[i + 1:]
    return doc.encode()


def uri_text(rng):
    s = rng.choice(["", "http://", "https://", "s3://", "a+b://"])
    s += rng.choice(["", "u@", "user:pw@", ":@"])
    s += rng.choice(["host", "example.com", "[::1]", "[fe80::1%25eth0]", "a.b-c", "", "127.0.0.1"])
    s += rng.choice(["", ":80", ":0", ":65536", ":4294967295", ":x"])
    s += rng.choice(["", "/", "/a/b", "/a%20b/c", "//x"])
    s += rng.choice(["", "?", "?k=v", "?k=v&&x&y=&=z", "?a=b/c?d", "?%41=%zz"])
    return s.encode()


def json_text(rng, depth=3):
    def val(d):
        r = rng.random()
        if d <= 0 or r < 0.35:
            return rng.choice(['"s"', '"a\\"b\\\\c"', '"\\u00e9\\ud83d\\ude00"', "0", "-1.5", "1e300", "12345678901234567890", "true", "false", "null", '""'])
        if r < 0.7:
            return "[" + ",".join(val(d - 1) for _ in range(rng.randint(0, 4))) + "]"
        keys = rng.sample(["a", "b", "key", "K", "x y", ""], rng.randint(0, 4))
        return "{" + ",".join('"%s":%s' % (k, val(d - 1)) for k in keys) + "}"
    t = val(depth)
    if rng.random() < 0.15:
        i = rng.randrange(len(t))
        t = t[:i] + rng.choice(["{", "]", ",", '"', ""]) + t[i + 1:]
    return (rng.choice(["", " ", "\n\t"]) + t).encode()


def _cbor_head(major, n):
    if n < 24:
        return bytes([(major << 5) | n])
    if n < 256:
        return bytes([(major << 5) | 24, n])
    if n < 65536:
        return bytes([(major << 5) | 25]) + struct.pack(">H", n)
    if n < 2 ** 32:
        return bytes([(major << 5) | 26]) + struct.pack(">I", n)
    return bytes([(major << 5) | 27]) + struct.pack(">Q", n)


def cbor_item(rng, depth=3):
    r = rng.random()
    if depth <= 0 or r < 0.4:
        k = rng.randrange(8)
        if k == 0:
            return _cbor_head(0, rng.choice([0, 23, 24, 255, 256, 65535, 65536, 2 ** 32, 2 ** 64 - 1]))
        if k == 1:
            return _cbor_head(1, rng.choice([0, 23, 24, 1000, 2 ** 63]))
        if k == 2:
            b = bytes(rng.randrange(256) for _ in range(rng.choice([0, 1, 23, 24, 40])))
            return _cbor_head(2, len(b)) + b
        if k == 3:
            t = rng.choice(["", "a", "text" * 7, "h\u00e9"]).encode()
            return _cbor_head(3, len(t)) + t
        if k == 4:
            return bytes([rng.choice([0xf4, 0xf5, 0xf6, 0xf7])])
        if k == 5:
            return b"\xfb" + struct.pack(">d", rng.choice([0.0, 1.5, -2.25, 1e300, float("inf")]))
        if k == 6:
            return b"\xfa" + struct.pack(">f", rng.choice([0.5, -1.0, 3.0]))
        return _cbor_head(6, rng.choice([0, 1, 2, 55799])) + cbor_item(rng, 0)
    if r < 0.65:
        n = rng.randint(0, 4)
        return _cbor_head(4, n) + b"".join(cbor_item(rng, depth - 1) for _ in range(n))
    if r < 0.85:
        n = rng.randint(0, 3)
        return _cbor_head(5, n) + b"".join(cbor_item(rng, 0) + cbor_item(rng, depth - 1) for _ in range(n))
    if r < 0.93:
        return b"\x9f" + b"".join(cbor_item(rng, depth - 1) for _ in range(rng.randint(0, 3))) + b"\xff"
    return b"\x5f" + b"".join(_cbor_head(2, 2) + b"ab" for _ in range(rng.randint(0, 2))) + b"\xff"


def cbor_bytes(rng):
    b = b"".join(cbor_item(rng) for _ in range(rng.randint(1, 4)))
    if rng.random() < 0.15:
        b = b[:rng.randrange(len(b) + 1)]            # truncated: same refusal everywhere
    return b


DATES = ["Thu, 01 Jan 1970 00:00:00 GMT", "Wed, 02 Oct 2002 08:05:09 UT", "12 Oct 2000 10:00:00 GMT", "Sat, 29 Feb 2020 23:59:59 +0530",
         "2002-10-02T08:05:09Z", "2002-10-02T08:05:09.123Z", "20021002T080509Z", "2002-10-02", "9999-12-31T23:59:59Z", "2020-02-30T00:00:00Z",
         "Mon, 32 Dec 2001 00:00:00 GMT", "not a date", ""]


def date_op(rng):
    t = rng.choice(DATES)
    return t.encode(), rng.choice("riba")


def make_op(rng, kind):
    if kind == "xml":
        return "%s:%s" % (rng.choice(["xs", "xb", "xd"]), xml_doc(rng).hex())
    if kind == "uri":
        return "uri:%s" % uri_text(rng).hex()
    if kind == "pct":
        b = bytes(rng.choice([rng.randrange(256), ord(rng.choice("az09-._~/ %+&=?"))]) for _ in range(rng.choice([0, 1, 5, 20, 60])))
        if rng.random() < 0.5:
            return "pe:%s" % b.hex()
        return "pd:%s" % "".join(rng.choice(["%41", "%2f", "%zz", "%4", "a", "+", "%E2%82%AC"]) for _ in range(rng.randint(0, 8))).encode().hex()
    if kind == "json":
        return "js:%s" % json_text(rng).hex()
    if kind == "cbor":
        return "cb:%s" % cbor_bytes(rng).hex()
    if kind == "date":
        t, f = date_op(rng)
        return "dt:%s:%s" % (t.hex(), f)
    if kind in ("qp", "la"):
        isz = rng.choice([1, 2, 8, 24, 127, 128, 129, 200, 300, 1000])
        return "%s:%s" % (kind, (struct.pack(">HB", isz, rng.randint(8, 60)) + bytes(rng.getrandbits(8) for _ in range(4))).hex())
    raise ValueError(kind)


def scenario(rng, kinds):
    nops = rng.randint(3, 10)
    lines = ["OP %d %s" % (i + 1, make_op(rng, rng.choice(kinds))) for i in range(nops)]
    for k in range(1, rng.randint(2, 3) + 1):
        lst = [rng.randint(1, nops) for _ in range(rng.randint(3, 12))]
        lines.append("THREAD %d %s" % (k, " ".join(map(str, lst))))
    return lines


def drive(ctx, kinds, thorough, n=None, with_model=True):
    """kinds: subset of xml / uri / pct / json / cbor / date. Returns the number of executions."""
    if with_model:
        ctx.mc(SPEC_DIR, "StatelessMC", "MC.cfg", timeout=300, xmx="2g", workers=4, required_actions=["StatelessMC!Stage", "StatelessMC!Compute"])
        res = tlc.run_tlc(SPEC_DIR, "StatelessMC", "MC_shared.cfg", ctx.outdir, workers=4, timeout=300, xmx="2g")
        if "NotBad" not in res.violated:
            raise CheckError("MODEL-BROKEN (sensitivity): a shared scratch area was not refuted: %s" % res.summary())
        ctx.extra.setdefault("model_sensitivity", []).append({"cfg": "Stateless/MC_shared.cfg", "violated": "NotBad"})
    exe = build.build_harness(HARNESS, [HARNESS + ".c"], cflags=["-Wno-unused-function"], wrap=True)
    rng = random.Random(ctx.seed * 131 + 7)
    n = n or (60 if not thorough else 1500)
    blocks = []
    for _ in range(n):
        sc = scenario(rng, kinds)
        blocks.append((rng.choice(["rand %d", "pct %d 2 60", "pct %d 3 100"]) % rng.randrange(1, 10 ** 6), sc))
    for pol, sc in blocks:
        ctx.distinct.add(hash("stateless|" + pol + "|" + "\n".join(sc)))
    nvs, _acc = pipeline.drive_vsched(ctx, exe, blocks, SPEC_DIR, "StatelessTrace", "Trace.cfg", label="stateless")
    pipeline.race_scan(ctx, HARNESS, HARNESS + ".c", blocks[: (50 if not thorough else 1200)], label="stateless_race")
    ctx.extra["stateless_threaded_executions"] = nvs
    ctx.assumptions.append("threaded family: an operation's outcome is compared through a 30-bit digest of everything the call "
                           "reported; schedule points inside an operation exist at allocations and between the calls of one "
                           "operation only - interference within a call is what the ThreadSanitizer pass of the same scenarios is for")
    return nvs
