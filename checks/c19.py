"""C19 date-time: DateTime.tla (proleptic Gregorian calendar arithmetic, the library's six output formats, rendering of
foreign date-times with designators / offsets / fractions, the instant they denote) model-checked against the defining
calendar rules; TLC-enumerated boundary instants and seeded random instants are formatted and parsed by the real library
(TZ=UTC) and TLC validates every recorded call, including all accessor and epoch views (DateTimeTrace.tla)."""
import glob
import json
import os
import random
import re

from vlib import build, pipeline, tlc
from vlib.common import CheckError

LEVEL = "model_checking"
SPEC_DIR = "DateTime"
MAXDAY = 2932896
FMTS = ("rfc822", "iso", "isobasic")
FMTLEN = {("rfc822", 0): 29, ("rfc822", 1): 16, ("iso", 0): 20, ("iso", 1): 10, ("isobasic", 0): 16, ("isobasic", 1): 8}
DAYN = ["Sun", "Mon", "Tue", "Wed", "Thu", "Fri", "Sat"]
MONN = ["Jan", "Feb", "Mar", "Apr", "May", "Jun", "Jul", "Aug", "Sep", "Oct", "Nov", "Dec"]

# known_findings.txt records (status "known" only) that enable a deviation action of DateTimeTrace.tla
DEV_OF_ID = {"F13": "Rfc822DateOnly"}
DEV_TEXT = {
    "Rfc822DateOnly": "the RFC 822 date-only text written by aws_date_time_to_utc_time_short_str (e.g. 'Thu, 01 Jan 1970') is "
                      "refused by aws_date_time_init_from_str with AWS_DATE_FORMAT_RFC822 and with AUTO_DETECT "
                      "(AWS_ERROR_INVALID_DATE_STR): no round trip for that format",
}


def prepare(ctx):
    return build.build_harness("datetime_adapter", ["datetime_adapter.c"], cflags=["-Wno-unused-function"])


def known_devs(ctx):
    recs = list(ctx.known)
    alt = os.environ.get("VERIF_KNOWN_FILE")          # test seam: an additional file in the known_findings.txt format
    if alt and os.path.exists(alt):
        for line in open(alt):
            m = re.match(r"known: property=(\S+) id=(\S+) (.*)$", line.strip())
            if m and m.group(1) == ctx.pid:
                recs.append({"status": "known", "property": m.group(1), "id": m.group(2), "what": m.group(3), "commit": ""})
    devs = {}
    for r in recs:
        if r.get("status") == "known" and r.get("property") == ctx.pid and r.get("id") in DEV_OF_ID:
            devs[DEV_OF_ID[r["id"]]] = r
    return devs


# ------------------------------------------------------------------------------------------------ driver-side calendar
# (only used to choose inputs and to render texts; the specification re-derives everything from the logged fields)
def civil(days):
    z = days + 719468
    era = z // 146097
    doe = z - era * 146097
    yoe = (doe - doe // 1460 + doe // 36524 - doe // 146096) // 365
    doy = doe - (365 * yoe + yoe // 4 - yoe // 100)
    mp = (5 * doy + 2) // 153
    m = mp + 3 if mp < 10 else mp - 9
    return yoe + era * 400 + (1 if m <= 2 else 0), m, doy - (153 * mp + 2) // 5 + 1


def init_line(rng, d, s, ms):
    if rng.random() < 0.5:
        return "INITMS %d" % ((d * 86400 + s) * 1000 + ms)
    return "INITSEC %d %d" % (d * 86400 + s, ms)


def roundtrip_lines(rng, d, s, heavy):
    """one instant through every format, parsed back with the explicit format and with auto-detection"""
    L = [init_line(rng, d, s, rng.choice([0, 1, 500, 999, rng.randrange(1000)]))]
    for f in FMTS:                                            # full forms keep the instant: no re-initialisation needed
        other = {"iso": "isobasic", "isobasic": "iso"}.get(f, f)
        L += ["FMT %s 0 100 0" % f, "PARSELAST %s" % f, "FMT %s 0 %d %d" % (f, rng.choice([100, FMTLEN[(f, 0)] + 1 + 3]), rng.choice([0, 3])),
              "PARSELAST auto"]
        if heavy and other != f:                              # date_time.h: either ISO argument accepts both ISO forms
            L += ["FMT %s 0 100 0" % f, "PARSELAST %s" % other]
    for f in FMTS:
        for arg in (f, "auto"):
            L += [init_line(rng, d, s, rng.randrange(1000)), "FMT %s 1 %d 0" % (f, rng.choice([100, FMTLEN[(f, 1)] + 1])),
                  "PARSELAST %s" % arg]
    return L


def capacity_lines(rng, d, s):
    L = [init_line(rng, d, s, 0)]
    for f in FMTS:
        for sh in (0, 1):
            n = FMTLEN[(f, sh)]
            for pl in (0, 5):
                for cap in (n + pl - 1, n + pl, n + pl + 1, pl, 0):
                    if cap >= pl:
                        L.append("FMT %s %d %d %d" % (f, sh, cap, pl))
    return L


ZL_RFC = ["Z", "z", "UT", "ut", "Ut", "uT", "UTC", "utc", "Utc", "uTC", "GMT", "gmt", "Gmt", "gMt"]
ZL_ISO = ["Z", "z"]


def hx(b):
    return bytes(b).hex() if len(b) else "X"


def parse_text_line(rng, d, s, style=None, arg=None, zone=None):
    """a foreign rendering of the instant (d, s): designator or numeric offset, optional fraction"""
    style = style or rng.choice(FMTS)
    zlit, sign, zh, zm = "", 0, 0, 0
    if zone is not None:
        sign, zh, zm = zone
    elif rng.random() < 0.4:
        zlit = rng.choice(ZL_RFC if style == "rfc822" else ZL_ISO)
    else:
        sign = rng.choice([1, -1])
        zh, zm = rng.choice([(0, 0), (0, 1), (1, 0), (5, 30), (5, 45), (9, 30), (12, 0), (13, 59), (14, 0), (23, 59),
                             (rng.randrange(24), rng.randrange(60))])
    off = sign * (zh * 3600 + zm * 60)
    loc = d * 86400 + s + off                     # local fields = instant + offset
    # the local fields may lie on the last day of 1969 (an instant of 1970 seen from west of Greenwich), not beyond 9999
    if loc < -86400 or loc >= (MAXDAY + 1) * 86400:
        sign, off = -sign, -off
        loc = d * 86400 + s + off
    ld, ls = divmod(loc, 86400)
    Y, M, D = civil(ld)
    hh, mm, ss = ls // 3600, (ls % 3600) // 60, ls % 60
    fsep, frac = 0, ""
    if style != "rfc822" and rng.random() < 0.5:
        fsep = rng.choice([46, 46, 44])
        frac = "".join(rng.choice("0123456789") for _ in range(rng.choice([1, 2, 3, 3, 4, 6, 9])))
    zcolon = 1 if (sign != 0 and style == "iso") else 0
    if sign:
        ztxt = ("+" if sign > 0 else "-") + "%02d" % zh + (":" if zcolon else "") + "%02d" % zm
    else:
        ztxt = zlit
    nowd = 1 if style == "rfc822" and rng.random() < 0.3 else 0          # the week day is optional in RFC 822
    if style == "rfc822":
        t = "%s, %02d %s %04d %02d:%02d:%02d %s" % (DAYN[(ld + 4) % 7], D, MONN[M - 1], Y, hh, mm, ss, ztxt)
        t = t[5:] if nowd else t
    elif style == "iso":
        t = "%04d-%02d-%02dT%02d:%02d:%02d%s%s" % (Y, M, D, hh, mm, ss, (chr(fsep) + frac) if fsep else "", ztxt)
    else:
        t = "%04d%02d%02dT%02d%02d%02d%s%s" % (Y, M, D, hh, mm, ss, (chr(fsep) + frac) if fsep else "", ztxt)
    if arg is None:
        arg = rng.choice([style, "auto", "auto"] + (["iso", "isobasic"] if style != "rfc822" else []))
    return "PARSE %s %s %s 0 %d %d %d %d %d %d %d %s %s %d %d %d %d %d" % (
        arg, t.encode().hex(), style, Y, M, D, hh, mm, ss, fsep, hx(frac.encode()), hx(zlit.encode()), sign, zh, zm, zcolon, nowd)


def bfs_picks(ctx):
    res = tlc.run_tlc(SPEC_DIR, "DateTimeMC", "Gen.cfg", ctx.outdir, workers=4, timeout=900, deadlock=False, tag="DateTimeMC_Gen")
    out, seen = [], set()
    for line in res.text.splitlines():
        m = re.match(r'<<"SCRIPT", "(.*)">>$', line.strip())
        if m:
            js = m.group(1).encode().decode("unicode_escape")
            if js not in seen:
                seen.add(js)
                out.append(json.loads(js))
    if res.errors or not out:
        raise CheckError("MODEL-BROKEN (gen): %s\n%s" % (res.errors[:3], res.text[-2000:]))
    return out


def run(ctx):
    thorough = ctx.tier == "thorough"
    exe = prepare(ctx)
    ctx.rule = ("evaluation = one call of init_epoch_millis / init_epoch_secs / to_utc_time_str / to_utc_time_short_str / "
                "init_from_str whose result, output text and all accessor / epoch views TLC compared with DateTime.tla; distinct "
                "= distinct (script line, instant it applies to); non-trivial = all")
    ctx.assumptions += [
        "harness children run with TZ=UTC and, for a third of the executions, three other zones (logged in every Reset event); local-time accessors and mktime are not judged",
        "64-bit values are projected by the adapter with fixed mixed-radix splits (seconds -> day + second of day, millis -> day + "
        "ms of day, nanos -> day + second + ns); trusted",
        "as_nanos is compared only for instants up to day 213502 (2554-07-20): later ones do not fit 64 bits and the header says "
        "nothing (the library saturates and, with non-zero milliseconds, wraps)",
        "formatting into a buffer with exactly strlen free bytes may succeed or fail (strftime needs room for a NUL); one more byte "
        "must succeed, one less must fail",
        "foreign texts: weekday and month names capitalised as the library writes them, 4-digit years, 'T' separator, designators "
        "Z/UT/UTC/GMT in any case (RFC 822) and Z/z (ISO 8601), offsets +-hhmm (RFC 822, ISO basic) and +-hh:mm (ISO extended) "
        "with hh 00-23 mm 00-59, fraction '.' or ',' + 1-9 digits (ISO 8601 only); the fraction may be dropped or kept as milliseconds",
        "not generated because not stated: RFC 822 texts without weekday, 2-digit years, lower-case 't', texts for the other grammar "
        "family with an explicit format argument",
        "calendar exhaustive on the model (every day of the configured years); the library is covered on the enumerated instants",
    ]
    acts = ["DateTimeMC!Step", "DateTimeMC!DoInit", "DateTimeMC!DoFormat", "DateTimeMC!DoParseBack", "DateTimeMC!DoParseText"]
    for cfg in (["MC_thorough_a.cfg", "MC_thorough_b.cfg", "MC_thorough_c.cfg"] if thorough else ["MC.cfg"]):
        ctx.mc(SPEC_DIR, "DateTimeMC", cfg, required_actions=acts, timeout=3400, xmx="8g")
    rng = random.Random(ctx.seed)
    picks = bfs_picks(ctx)                       # TLC: first / last second of every month, leap days, extremes
    ctx.extra["tlc_boundary_instants"] = len(picks)
    by_kind = {}
    for p in picks:
        by_kind[p["kind"]] = by_kind.get(p["kind"], 0) + 1
    ctx.extra["tlc_boundary_instants_by_kind"] = by_kind
    ctx.extra["tlc_boundary_instants_executed"] = len(picks)
    rnd = [(rng.randrange(MAXDAY + 1), rng.randrange(86400)) for _ in range(1500 if not thorough else 40000)]
    # reproduction of the listed finding first (DESIGN 3.3: always executed): RFC 822 date-only text parsed back
    execs = [["RESET", "INITMS 0", "FMT rfc822 1 100 0", "PARSELAST rfc822", "INITMS 0", "FMT rfc822 1 100 0", "PARSELAST auto"]]
    inst = [(p["d"], p["s"]) for p in picks]
    for i in range(0, len(inst), 2):
        ex = ["RESET"]
        for d, s in inst[i:i + 2]:
            ex += roundtrip_lines(rng, d, s, heavy=(i % 8 == 0))
        execs.append(ex)
    for i in range(0, len(rnd), 2):
        ex = ["RESET"]
        for d, s in rnd[i:i + 2]:
            ex += roundtrip_lines(rng, d, s, heavy=True)[:38]
        execs.append(ex)
    # foreign texts: every boundary instant once, random instants, all designators / offset shapes on a few fixed instants
    lines = []
    for d, s in inst:
        lines.append(parse_text_line(rng, d, s))
    for d, s in rnd:
        lines.append(parse_text_line(rng, d, s))
        lines.append(parse_text_line(rng, d, s))
    for d, s in ((0, 0), (11016, 3599), (19782, 86399), (MAXDAY, 86399), (47540, 0), (213502, 43200)):
        for style in FMTS:
            for _ in range(60):
                lines.append(parse_text_line(rng, d, s, style=style))
    # the first hours of 1970 seen from west of Greenwich: local fields on 1969-12-31, in particular 23:59:59 (the second
    # before the epoch) with the offset that puts the instant inside the range again
    for k in (1, 30, 60, 90, 330, 720, 839, 1439):
        for style in FMTS:
            lines.append(parse_text_line(rng, 0, k * 60 - 1, style=style, zone=(-1, k // 60, k % 60)))
            lines.append(parse_text_line(rng, 0, k * 60 - 1, style=style, zone=(-1, 23, 59)))
            lines.append(parse_text_line(rng, 0, rng.randrange(0, k * 60), style=style, zone=(-1, k // 60, k % 60)))
    execs += [["RESET"] + lines[i:i + 70] for i in range(0, len(lines), 70)]
    # instants finer than the millisecond grid (aws_date_time_init_epoch_secs takes a double): fractions next to the grid
    # points and next to a full second
    lines = []
    for d, s in [(0, 0), (11962, 31509), (11016, 86398), (30000, 12345)] + [(dd, ss) for dd, ss in rnd[:12] if ss < 86399 and dd < 60000]:
        for us in (0, 1, 499, 500, 501, 999, 1000, 1499, 1500, 499999, 500000, 999000, 999400, 999499, 999500, 999501, 999600, 999999):
            lines.append("INITSECU %d %d" % (d * 86400 + s, us))
    execs += [["RESET"] + lines[i:i + 70] for i in range(0, len(lines), 70)]
    caps = []
    for d, s in [(0, 0), (MAXDAY, 86399)] + rnd[:20]:
        caps.append(["RESET"] + capacity_lines(rng, d, s))
    execs += caps
    for ex in execs:
        cur = ""
        for ln in ex[1:]:
            if ln.startswith("INIT"):
                cur = ln
            ctx.distinct.add((cur, ln))
    ctx.add_sample({"script": execs[0][:8]})
    ctx.add_sample({"script": execs[-len(caps) - 1][:4]})
    devs = known_devs(ctx)
    fired = {}

    def on_fired(info):
        for ln in info.printed:
            m = re.match(r'<<"FIRED", "(\w+)", "(\w+)">>', ln)
            if m:
                fired.setdefault(m.group(1), []).append(m.group(2))

    pipeline.drive_and_validate(ctx, exe, execs, SPEC_DIR, "DateTimeTrace", "Trace.cfg", label="dt", nbatch=16,
                                env={"TZ": "UTC"}, tlc_env={"VERIF_DEV_" + d: "1" for d in devs}, on_fired=on_fired)
    # the process-locale family (lib/vlib/locale8.py): a slice of the same executions in a process that called setlocale()
    # - an 8-bit character set with accented letters, and day / month names that are not the English ones
    from vlib import locale8
    locale8.rerun(ctx, exe, execs[::4] if not thorough else execs[::2], SPEC_DIR, "DateTimeTrace", "Trace.cfg", "dt", names=("xx_XX", "zz_ZZ"),
                  base_env={"TZ": "UTC"}, nbatch=8, tlc_env={"VERIF_DEV_" + d: "1" for d in devs}, on_fired=on_fired)
    # the UTC views, formatters and the parser must not depend on the zone the process runs in: every third execution
    # again under zones west and east of Greenwich, with half-hour offsets and with daylight-saving rules
    zones = ["EST5EDT,M3.2.0,M11.1.0", "IST-5:30", "NZST-12NZDT,M9.5.0,M4.1.0/3", "<-11>11"]
    for zi, tz in enumerate(zones if thorough else zones[:3]):
        sub = execs[zi::(3 if not thorough else 2) * len(zones)] + caps[:2]
        pipeline.drive_and_validate(ctx, exe, sub, SPEC_DIR, "DateTimeTrace", "Trace.cfg", label="dt_tz%d" % zi, nbatch=8,
                                    env={"TZ": tz}, tlc_env={"VERIF_DEV_" + d: "1" for d in devs}, on_fired=on_fired)
    # several threads at once, each on date-time objects of its own (a stateless API): controlled schedules validated by
    # DateTimeVsTrace.tla, and a data-race scan on the ThreadSanitizer build (shared hidden state shows as a race)
    exe_vs = build.build_harness("datetime_scenario", ["datetime_scenario.c"], cflags=["-Wno-unused-function"], wrap=True)
    blocks = []
    for _ in range(120 if not thorough else 3000):
        sc = []
        for k in range(1, rng.randint(2, 3) + 1):
            ops = []
            for _o in range(rng.randint(2, 10)):
                d, s2 = rng.choice(inst) if rng.random() < 0.4 else (rng.randint(0, MAXDAY), rng.randint(0, 86399))
                f = rng.choice("rib")
                sh = rng.randint(0, 1) if f != "r" else 0
                pf = rng.choice([f, "a"] if f == "r" else [f, "a", "i" if f == "b" else "b"])
                ops.append("%d:%d:%s:%d:%s" % (d, s2, f, sh, pf))
            sc.append("THREAD %d %s" % (k, " ".join(ops)))
        blocks.append((rng.choice(["rand %d", "pct %d 2 60", "pct %d 3 100"]) % rng.randrange(1, 10 ** 6), sc))
    nvs, _acc = pipeline.drive_vsched(ctx, exe_vs, blocks, SPEC_DIR, "DateTimeVsTrace", "VsTrace.cfg", label="dtvs")
    pipeline.race_scan(ctx, "datetime_scenario", "datetime_scenario.c", blocks[: (100 if not thorough else 1500)])
    ctx.extra["threaded_executions"] = nvs
    ctx.extra["time_zones"] = ["UTC"] + (zones if thorough else zones[:3])
    for nm in sorted(fired):
        rec = devs.get(nm, {})
        ctx.known_finding(rec.get("id", nm), "id=%s %s" % (rec.get("id", nm), rec.get("what", DEV_TEXT[nm])))
        ctx.extra.setdefault("known_finding_events", {})[nm] = {"count": len(fired[nm])}
    kinds = {}
    for tp in sorted(glob.glob(os.path.join(ctx.outdir, "dt", "b*.clean.ndjson"))):
        for e in pipeline.read_trace(tp):
            if e["e"] not in ("Reset", "End"):
                kinds[e["e"]] = kinds.get(e["e"], 0) + 1
    ctx.evaluations = sum(kinds.values())
    ctx.extra["events_by_kind"] = kinds
