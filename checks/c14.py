"""C14 logging: LogChannel.tla (background channel, every interleaving) model-checked; the real pipeline logger
(standard formatter, foreground/background channel, recording writer), the no-alloc logger and the fixed-buffer
formatter executed under the controlled scheduler; traces validated against LogAbs.tla."""
import random

from vlib import build, pipeline

LEVEL = "model_checking"
SPEC_DIR = "Logging"


def prepare(ctx):
    return build.build_harness("logging_scenario", ["logging_scenario.c"], cflags=["-Wno-unused-function"], wrap=True)


CORE = [
    ["LOGGER bg 6", "PRODUCER 1 L3:4:0"],
    ["LOGGER bg 6", "PRODUCER 1 L3:4:0 L2:0:1", "PRODUCER 2 L4:9:2"],
    ["LOGGER bg 3", "PRE L3:1:0", "PRODUCER 1 L3:4:0 L5:2:0 L1:3:3", "POST S6 L6:2:0"],
    ["LOGGER fg 6", "PRODUCER 1 L3:4:0 L2:1:1", "PRODUCER 2 L4:9:2 L6:0:0"],
    ["LOGGER bg 6", "PRODUCER 1 L1:1:0 L1:2:0 L1:3:0", "PRODUCER 2 L2:1:0 L2:2:0", "PRODUCER 3 L3:1:0"],
    ["LOGGER bg 0", "PRE L1:1:0", "POST S1 L1:2:0 L2:1:0"],
    ["LOGGER na 6", "PRODUCER 1 L3:4:0 L2:1:1", "PRODUCER 2 L4:9:2 L6:0:0"],
    ["LOGGER std 5", "PRE L3:1:0", "PRODUCER 1 L3:4:0 L6:2:0", "PRODUCER 2 L4:9:2", "POST S2 L3:2:0 L1:0:0"],
    ["LOGGER stdf 6", "PRODUCER 1 L3:4:0 L2:1:1", "PRODUCER 2 L4:9:2 L6:0:0"],
    ["LOGGER na 4", "PRE L3:1:0", "PRODUCER 1 L3:40:0 L5:2:0 L1:3:3", "PRODUCER 2 L2:300:1", "PRODUCER 3 L4:0:2", "POST S6 L6:2:0"],
]


def rand_ops(rng, n, with_set):
    ops = []
    for _ in range(n):
        r = rng.random()
        if with_set and r < 0.25:
            ops.append("S%d" % rng.randint(0, 6))
        elif r < 0.3:
            ops.append("P")
        else:
            ops.append("L%d:%d:%d:%d" % (rng.randint(1, 6), rng.choice([0, 0, 1, 5, 40, 300, 2000]), rng.randint(0, 3),
                                         rng.choice([0, 0, 0] + list(range(1, NSUBJ)))))
    return ops


NSUBJ = 11   # log subjects of the harness: 0 built-in, 1..9 registered with names of 1..300 characters, 10 unregistered
SUBJ_LEN = [12, 1, 13, 40, 80, 88, 89, 90, 120, 300, 7]


def burst_scenario(rng):
    """many short lines from several threads at once: the background thread has batches in flight while the pending
    list keeps growing past its initial capacity"""
    lines = ["LOGGER bg 6 %s" % rng.choice(["iso", "rfc"])]
    for k in range(1, rng.randint(2, 3) + 1):
        lines.append("PRODUCER %d %s" % (k, " ".join("L%d:%d:0:%d" % (rng.randint(1, 6), rng.choice([0, 1, 3]), rng.choice([0, 0, 2]))
                                                     for _ in range(rng.randint(10, 30)))))
    return lines


def big_burst_scenario(rng):
    """more than a thousand lines accepted before the background thread gets to run (it is starved, or the writer is slow),
    then producers that keep sending while that batch is being written"""
    n = rng.choice([1025, 1030, 1100, 1500, 2100])
    lines = ["LOGGER bg 6 %s" % rng.choice(["iso", "rfc"]), "PRE B%d:%d:%d" % (n, rng.randint(1, 6), rng.choice([0, 1, 3]))]
    for k in range(1, rng.randint(1, 3) + 1):
        lines.append("PRODUCER %d %s" % (k, " ".join("L%d:%d:0:0" % (rng.randint(1, 6), rng.choice([0, 1, 3])) for _ in range(rng.randint(2, 8)))))
    if rng.random() < 0.5:
        lines.append("POST L3:2:0")
    return lines


def random_scenario(rng):
    df = rng.choice(["iso", "iso", "rfc"])
    lines = ["LOGGER %s %d %s%s" % (rng.choice(["bg", "bg", "fg", "fg", "na", "std", "stdf"]), rng.randint(0, 6), df,
                                    rng.choice(["", "", " wf1", " wf2", " wf3"]))]
    if rng.random() < 0.35:
        # the same thread (main) formats a line with the other date format just before it uses the logger
        lines.append("FMT 400 %d %d 0 13 %s" % (rng.randint(1, 6), rng.choice([0, 7]), "rfc" if df == "iso" else "iso"))
    if rng.random() < 0.6:
        lines.append("PRE " + " ".join(rand_ops(rng, rng.randint(1, 4), True)))
    for k in range(1, rng.randint(0, 3) + 1):
        lines.append("PRODUCER %d %s" % (k, " ".join(rand_ops(rng, rng.randint(1, 5), False))))
    if rng.random() < 0.6:
        lines.append("POST " + " ".join(rand_ops(rng, rng.randint(1, 4), True)))
    return lines


def formatter_scenarios(rng, thorough):
    """sequential: direct formatter calls with buffers from tiny to ample, no-alloc logger around its 8 KB buffer,
    all 7 filter settings x 6 levels"""
    out = []
    lines = []
    totals = list(range(2, 140, 3 if not thorough else 1)) + [150, 200, 256, 400, 1000]
    for t in totals:
        for plen in (0, 7, 100) if not thorough else (0, 1, 7, 50, 100, 500):
            lines.append("FMT %d %d %d %d 13 %s" % (t, rng.randint(1, 6), plen, rng.choice([0, 1, 3]), rng.choice(["iso", "rfc"])))
        if len(lines) > 60:
            out.append(lines)
            lines = []
    if lines:
        out.append(lines)
    lines = []
    for f in range(0, 7):
        for lv in range(1, 7):
            lines.append("NOALLOC %d %d %d %d" % (f, lv, rng.choice([0, 3, 50]), rng.randint(0, 3)))
    out.append(lines)
    # the default destination (neither stream nor file name: the process's stderr), two loggers in a row
    out.append(["NADEF %d %d %d" % (f, lv, rng.choice([0, 3, 50])) for f, lv in ((6, 3), (3, 3), (2, 3), (0, 1), (6, 6), (4, 1))])
    lines = []
    for nm in ["NONE", "FATAL", "ERROR", "WARN", "INFO", "DEBUG", "TRACE"]:
        for v in {nm, nm.lower(), nm.capitalize(), nm[:-1], nm + "X", nm[1:], "".join(rng.choice([c.lower(), c]) for c in nm)}:
            lines.append("LEVELSTR %s %s" % (v, v.upper()))
    for v in ["WARNING", "0", "3", "INF0", "T", "_"]:
        lines.append("LEVELSTR %s %s" % (v, v.upper()))
    for lv in range(1, 7):
        lines.append("NOLOGGER %d" % lv)
    out.append(lines)
    # subject names of every registered length x level, ample and tight buffers, and through the no-alloc logger
    lines = []
    for sl in SUBJ_LEN + ([0, 2, 60, 87, 95, 100, 200] if thorough else [0, 100]):
        for lv in range(1, 7) if thorough else (rng.randint(1, 6), rng.choice([3, 4])):
            lines.append("FMT %d %d %d %d %d %s" % (sl + 400, lv, rng.choice([0, 7, 100]), rng.choice([0, 1, 3]), sl, rng.choice(["iso", "rfc"])))
            lines.append("FMT %d %d %d %d %d %s" % (sl + rng.randint(20, 130), lv, rng.choice([0, 7, 100]), 0, sl, rng.choice(["iso", "rfc"])))
    for sl in SUBJ_LEN:
        lines.append("NOALLOC 6 %d %d %d %d" % (rng.randint(1, 6), rng.choice([0, 40, 8000]), rng.randint(0, 3), sl))
    out.append(lines)
    lines = []
    for plen in [0, 1, 100, 5000, 8000, 8080, 8090, 8100, 8105, 8110, 8115, 8120, 8130, 8150, 8191, 8192, 8193, 8300, 20000, 60000]:
        lines.append("NOALLOC 6 %d %d %d" % (rng.randint(1, 6), plen, rng.choice([0, 1, 2, 3])))
    if thorough:
        for plen in range(8060, 8160):
            lines.append("NOALLOC 6 3 %d 0" % plen)
    out.append(lines)
    return out


def run(ctx):
    thorough = ctx.tier == "thorough"
    exe = prepare(ctx)
    ctx.rule = ("execution = logger scenario (foreground/background channel, filter level, main-thread calls and level "
                "changes before/after 0-3 concurrently logging producer threads, clean-up) x schedule, or a batch of "
                "direct formatter / no-alloc logger calls with buffer sizes around the line length; distinct = distinct "
                "(scenario, schedule policy); non-trivial = at least one accepted line")
    ctx.assumptions += [
        "sequentially consistent serialised execution; no spurious wake-ups; bounded schedules",
        "clean-up is called after every log call has returned (the documented usage); level changes happen while no call is in progress",
        "messages contain no newline or NUL characters themselves",
        "an error return of aws_format_standard_log_line is accepted only for buffers < 120 bytes (too small for the prefix)",
    ]
    ctx.mc(SPEC_DIR, "LogChannel", "MC_thorough.cfg" if thorough else "MC.cfg", timeout=1500, xmx="8g",
           required_actions=["LogChannel!B_Write", "LogChannel!B_Pred", "LogChannel!C_Join", "LogChannel!P_Send"])
    ctx.mc(SPEC_DIR, "LogChannel", "MC_live.cfg", timeout=900, xmx="4g", coverage=False)
    rng = random.Random(ctx.seed)
    blocks = []
    budget, bound = (250, 2) if not thorough else (4000, 3)
    for sc in CORE:
        blocks.append(("dfs %d %d" % (budget, bound), sc))
    nrand = 300 if not thorough else 6000
    for _ in range(nrand):
        sc = random_scenario(rng)
        pol = rng.choice(["pct %d 2 80", "pct %d 3 120", "rand %d", "pct %d 1 60"]) % rng.randrange(1, 10 ** 6)
        blocks.append((pol, sc))
    for _ in range(40 if not thorough else 800):
        blocks.append((rng.choice(["rand %d", "pct %d 3 200", "pct %d 5 400"]) % rng.randrange(1, 10 ** 6), burst_scenario(rng)))
    for sc in formatter_scenarios(rng, thorough):
        blocks.append(("fixed -", sc))
    for pol, sc in blocks:
        ctx.distinct.add(hash(pol + "|" + "\n".join(sc)))
    ctx.add_sample({"policy": blocks[2][0], "scenario": blocks[2][1]})
    ctx.add_sample({"policy": blocks[-1][0], "scenario": blocks[-1][1][:8]})
    rng.shuffle(blocks)
    n, acc = pipeline.drive_vsched(ctx, exe, blocks, SPEC_DIR, "LogTrace", "Trace.cfg", label="lg")
    # data-race scan on the ThreadSanitizer build (what a serialising scheduler cannot see)
    scan = [b for b in blocks if not b[0].startswith("dfs")][: (120 if not thorough else 1500)]
    pipeline.race_scan(ctx, "logging_scenario", "logging_scenario.c", scan)
    # bursts of more than a thousand lines at one wake-up of the background thread: long executions (one event per call and
    # per line), schedules that starve the background thread first and then interrupt it while it writes the batch
    big = []
    for _ in range(24 if not thorough else 300):
        horizon = rng.choice([12000, 20000, 30000])
        big.append((rng.choice(["pct %d 2 %d", "pct %d 3 %d", "pct %d 5 %d"]) % (rng.randrange(1, 10 ** 6), horizon), big_burst_scenario(rng)))
    for pol, sc in big:
        ctx.distinct.add(hash(pol + "|" + "\n".join(sc)))
    n2, _acc2 = pipeline.drive_vsched(ctx, exe, big, SPEC_DIR, "LogTrace", "Trace.cfg", label="lgburst", env={"VS_STEP_CAP": "200000"})
    ctx.extra["big_burst_executions"] = n2
    n += n2
    ctx.evaluations += n
    ctx.distinct_extra += max(0, n - len(blocks))
    ctx.extra["executions"] = n
