"""C20 threads / at-exit / managed join: ManagedThreads.tla (join protocol, every completion order) model-checked;
the real aws_thread code executed under the controlled scheduler; traces validated against ThreadsAbs.tla."""
import random

from vlib import build, pipeline

LEVEL = "model_checking"
SPEC_DIR = "Threads"


def prepare(ctx):
    return build.build_harness("threads_scenario", ["threads_scenario.c"], cflags=["-Wno-unused-function"], wrap=True)


CORE = [
    ["THREAD 1 J A A", "MAIN L1 J1"],
    ["THREAD 1 M", "MAIN L1 JA"],
    ["THREAD 1 M A", "THREAD 2 M", "MAIN L1 L2 JA"],
    ["THREAD 1 M L3", "THREAD 2 M A", "THREAD 3 M", "MAIN L1 L2 JA"],
    ["THREAD 1 M", "THREAD 2 M", "THREAD 3 M", "MAIN L1 L2 L3 JA"],
    ["THREAD 1 J A", "THREAD 2 M A A", "MAIN L1 L2 J1 JA"],
    ["THREAD 1 M L2", "THREAD 2 M L3", "THREAD 3 M", "MAIN L1 JA"],
    ["MAIN JA"],
    ["THREAD 1 M A", "MAIN L1 P P P I JA"],
    ["THREAD 1 M", "THREAD 2 M", "MAIN L1 I L2 P I JA"],
    ["THREAD 1 M1000 A", "THREAD 2 J1000n", "THREAD 3 M0n L1", "MAIN L3 L2 J2 JA"],
    ["THREAD 1 M O1 A", "THREAD 2 M O1", "THREAD 3 J O1 O2 V", "MAIN L1 L2 L3 O1 J3 JA"],
    ["THREAD 1 Jn V O1", "THREAD 2 M V O1", "MAIN L1 L2 O2 J1 JA"],
    # at-exit callbacks registered while the callbacks are being run, and from inside a once-function
    ["THREAD 1 J A N A", "MAIN L1 J1"],
    ["THREAD 1 M N N", "THREAD 2 J N", "MAIN L1 L2 J2 JA"],
    ["THREAD 1 J A B1 A", "THREAD 2 M B1 A", "MAIN L1 L2 J1 JA"],
    ["THREAD 1 M B1 B2", "THREAD 2 M O1 B2 A", "MAIN L1 L2 JA"],
    # bounded join-all (aws_thread_set_managed_join_timeout_ns): gives up no earlier than the time-out, succeeds in time
    ["THREAD 1 M Z50", "MAIN T10 L1 JA T0 JA"],
    ["THREAD 1 M Z5000", "THREAD 2 M", "MAIN T10 L1 L2 JA T0 JA"],
    ["THREAD 1 M Z5 A", "THREAD 2 M", "MAIN T100 L1 L2 JA T0 JA"],
    ["THREAD 1 M Z20 A", "THREAD 2 M Z40", "MAIN L1 L2 T30 JA T0 JA"],
]


def counted_scenario(rng):
    """join-all is already waiting for several participants when one that counted itself in by hand leaves, before / after /
    between the managed threads it also waits for (every order of the departures, by sleeps on the virtual clock)"""
    nm = rng.randint(1, 3)
    lines = []
    sleeps = rng.sample([0, 1, 2, 3, 5, 8, 13, 20], nm + 1)
    for i in range(1, nm + 1):
        ops = ["Z%d" % sleeps[i]] if sleeps[i] else []
        if rng.random() < 0.3:
            ops.insert(rng.randrange(len(ops) + 1), "A")
        lines.append(("THREAD %d M %s" % (i, " ".join(ops))).rstrip())
    j = nm + 1
    inner = ["Z%d" % sleeps[0]] if sleeps[0] else ["P"]
    lines.append("THREAD %d J C+ %s C-%s" % (j, " ".join(inner), rng.choice(["", " A", " P"])))
    launches = ["L%d" % i for i in range(1, nm + 1)] + ["L%d" % j]
    rng.shuffle(launches)
    # join-all starts once the counted thread is certainly in (a short sleep on the main thread would need an op; a schedule
    # point is what there is), and the joinable thread is joined afterwards
    lines.append("MAIN %s P JA J%d" % (" ".join(launches), j))
    return lines


def slow_exit_scenario(rng):
    """managed threads whose at-exit callbacks take long (clean-up work), a bounded join-all issued while they are at it: it
    gives up at its deadline with the thread still counted, and the unbounded one afterwards waits for everything"""
    n = rng.randint(1, 3)
    lines = []
    for i in range(1, n + 1):
        ops = ["A%d" % rng.choice([2000, 3000, 5000])] + (["A"] if rng.random() < 0.4 else [])
        if rng.random() < 0.4:
            ops.append("Z%d" % rng.choice([1, 2]))
        rng.shuffle(ops)
        lines.append("THREAD %d M %s" % (i, " ".join(ops)))
    lines.append("MAIN %s P T%d JA T0 JA" % (" ".join("L%d" % i for i in range(1, n + 1)), rng.choice([5, 10, 50, 100])))
    return lines


def handle_reuse_scenario(rng):
    """one aws_thread handle, initialised once, launched and joined two or three times in a row (a component that is stopped
    and started again), next to other threads"""
    rounds = rng.randint(2, 3)
    lines = []
    for i in range(1, rounds + 1):
        ops = [rng.choice(["A", "P", "V", "Z1", "A"]) for _ in range(rng.randint(0, 3))]
        lines.append(("THREAD %d J%s %s" % (i, "" if i == 1 else "r1", " ".join(ops))).rstrip())
    extra = rounds + 1
    lines.append("THREAD %d M %s" % (extra, rng.choice(["", "A", "Z2"])))
    main = ["L%d" % extra]
    for i in range(1, rounds + 1):
        main += ["L%d" % i] + (["P"] if rng.random() < 0.5 else []) + ["J%d" % i]
    main.append("JA")
    lines.append("MAIN " + " ".join(main))
    return lines


def random_scenario(rng):
    n = rng.randint(1, 6)
    kinds = {}
    parent = {}
    for i in range(1, n + 1):
        kinds[i] = "M" if rng.random() < 0.7 else "J"
        # only managed threads may be launched from inside another thread (main joins the manual ones)
        parent[i] = 0 if (kinds[i] == "J" or i == 1 or rng.random() < 0.55) else rng.randint(1, i - 1)
    lines = []
    bounded = rng.random() < 0.25          # join-all with a time-out, then once more without
    for i in range(1, n + 1):
        ops = []
        for _ in range(rng.choice([0, 0, 1, 2, 3])):
            ops.append(rng.choice(["A", "A", "A", "N"]))
        if rng.random() < 0.2:
            ops.append("B%d" % rng.randint(1, 2))
        for c in range(i + 1, n + 1):
            if parent[c] == i:
                ops.append("L%d" % c)
        if rng.random() < 0.3:
            ops.append("P")
        if rng.random() < 0.35:
            ops.append("O%d" % rng.randint(1, 2))        # several threads meet at the same once-flag
        if rng.random() < 0.2:
            ops.append("V")
        if kinds[i] == "J" and rng.random() < 0.4:
            ops.append("S")
        counted = kinds[i] == "J" and rng.random() < 0.35     # counts itself in for join-all for a while          # a refused join (the thread on its own handle) before the launcher's real one
        if bounded and kinds[i] == "M" and rng.random() < 0.6:
            ops.append("Z%d" % rng.choice([1, 5, 10, 20, 50, 200, 3000, 5000]))
        rng.shuffle(ops)
        if counted:
            a = rng.randrange(len(ops) + 1)
            ops.insert(a, "C+")
            ops.insert(rng.randint(a + 1, len(ops)), "C-")
            if rng.random() < 0.5:
                ops.insert(ops.index("C-"), "Z%d" % rng.choice([1, 5, 50]))
        # thread options: pinned to a cpu that exists / that does not exist (the library then retries unpinned), named
        opt = rng.choice(["", "", "", "", "0", "1000", "1000", "n", "1000n"])
        lines.append(("THREAD %d %s%s %s" % (i, kinds[i], opt, " ".join(ops))).rstrip())
    main = ["L%d" % i for i in range(1, n + 1) if parent[i] == 0]
    if rng.random() < 0.3:
        main.insert(rng.randrange(len(main) + 1), "O%d" % rng.randint(1, 2))
    if rng.random() < 0.25:
        main.insert(rng.randrange(len(main) + 1), "I")
        main.insert(rng.randrange(len(main) + 1), "P")
    joins = ["J%d" % i for i in range(1, n + 1) if kinds[i] == "J"]
    rng.shuffle(joins)
    manual_launches = any(kinds[parent[c]] == "J" for c in range(1, n + 1) if parent[c] != 0)
    if manual_launches or rng.random() < 0.5:
        # join-all only covers managed threads launched before it: a manual thread that launches managed threads
        # must have been joined first, otherwise the scenario itself (not the library) leaves a thread behind
        main = main + joins + ["JA"]
    else:
        main = main + ["JA"] + joins
    if bounded:
        k = main.index("JA")
        main = main[:k] + ["T%d" % rng.choice([1, 5, 10, 20, 50, 100, 1000]), "JA", "T0", "JA"] + main[k + 1:]
    lines.append("MAIN " + " ".join(main))
    return lines


def run(ctx):
    thorough = ctx.tier == "thorough"
    exe = prepare(ctx)
    ctx.rule = ("execution = scenario (manual and managed threads, nested managed launches, 0-3 at-exit registrations "
                "each, join / join-all by main) x schedule at lock/condvar/create/join points; distinct = distinct "
                "(scenario, schedule policy); non-trivial = at least two threads and one preemptive switch")
    ctx.assumptions += [
        "sequentially consistent serialised execution; no spurious wake-ups",
        "pthread_join modelled as enabled exactly when the target thread has exited; a second join of one thread is reported",
        "bounded exploration: preemption bound 2 (quick) / 3 (thorough) on core scenarios + PCT/random schedules",
    ]
    for cfg in ["MC_Flat3.cfg", "MC_Nest3.cfg", "MC_Nest4.cfg", "MC_Flat4.cfg"]:
        ctx.mc(SPEC_DIR, "MCManagedThreads", cfg, timeout=900, xmx="4g",
               required_actions=["ManagedThreads!MNext"] if False else [])
    ctx.mc(SPEC_DIR, "MCManagedThreads", "MC_live.cfg", timeout=900, xmx="4g", coverage=False)
    rng = random.Random(ctx.seed)
    blocks = []
    budget, bound = (300, 2) if not thorough else (5000, 3)
    for sc in CORE:
        blocks.append(("dfs %d %d" % (budget, bound), sc))
    nrand = 300 if not thorough else 8000
    for _ in range(nrand):
        sc = random_scenario(rng)
        pol = rng.choice(["pct %d 2 80", "pct %d 3 120", "rand %d", "pct %d 1 60"]) % rng.randrange(1, 10 ** 6)
        blocks.append((pol, sc))
    for _ in range(40 if not thorough else 800):
        blocks.append((rng.choice(["pct %d 2 80", "rand %d", "pct %d 3 120"]) % rng.randrange(1, 10 ** 6), counted_scenario(rng)))
    for _ in range(24 if not thorough else 400):
        blocks.append((rng.choice(["pct %d 2 80", "rand %d"]) % rng.randrange(1, 10 ** 6), handle_reuse_scenario(rng)))
    for _ in range(24 if not thorough else 400):
        blocks.append((rng.choice(["pct %d 2 80", "pct %d 1 60", "fixed -"]).replace("%d", str(rng.randrange(1, 10 ** 6))), slow_exit_scenario(rng)))
    for pol, sc in blocks:
        ctx.distinct.add(hash(pol + "|" + "\n".join(sc)))
    ctx.add_sample({"policy": blocks[0][0], "scenario": blocks[3][1]})
    ctx.add_sample({"policy": blocks[-1][0], "scenario": blocks[-1][1]})
    rng.shuffle(blocks)
    n, acc = pipeline.drive_vsched(ctx, exe, blocks, SPEC_DIR, "ThreadsTrace", "Trace.cfg", label="th")
    # data-race scan on the ThreadSanitizer build (what a serialising scheduler cannot see)
    scan = [b for b in blocks if not b[0].startswith("dfs")][: (120 if not thorough else 1500)]
    pipeline.race_scan(ctx, "threads_scenario", "threads_scenario.c", scan)
    ctx.evaluations += n
    ctx.distinct_extra += max(0, n - len(blocks))
    ctx.extra["executions"] = n
