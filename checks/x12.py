"""X12 (extra) byte order conversions (aws/common/byte_order.h) and zeroing (aws/common/zero.h): ByteOrderMC.tla (the
library's algorithm on an abstract host of either byte order, every value over a small byte alphabet, all three widths)
model-checked against ByteOrder.tla, with two wrong variants that must be refuted; the real functions driven over boundary
and random values, every call validated against ByteOrder.tla."""
import random
import struct

from vlib import build, pipeline, tlc
from vlib.common import CheckError

LEVEL = "model_checking"
SPEC_DIR = "ByteOrder"
HARNESS = "byteorder_adapter"


def prepare(ctx):
    return build.build_harness(HARNESS, [HARNESS + ".c"], cflags=["-Wno-unused-function"])


def hx(b):
    return bytes(b).hex() if len(b) else "-"


def values(rng, w, n):
    edge = [0, 1, 0x7F, 0x80, 0xFF, 0x100, (1 << (8 * w)) - 1, (1 << (8 * w - 1)), (1 << (8 * w - 1)) - 1, 0x0102030405060708 & ((1 << (8 * w)) - 1),
            0x0100 << (8 * (w - 2)), 0xA5A5A5A5A5A5A5A5 & ((1 << (8 * w)) - 1)]
    return edge + [rng.getrandbits(8 * w) for _ in range(n)]


def script(rng, thorough):
    L = ["ENDIAN"]
    n = 60 if not thorough else 3000
    for w in (2, 4, 8):
        for v in values(rng, w, n):
            b = v.to_bytes(w, "big")
            L.append("HTON %d %s" % (w, hx(b)))
            L.append("NTOH %d %s" % (w, hx(b)))
    floats = [0.0, -0.0, 1.0, -1.5, 3.141592653589793, 1e300, 5e-324, float("inf"), float("-inf"), float("nan")]
    for x in floats + [rng.uniform(-1e9, 1e9) for _ in range(n // 2)]:
        for w, fmt in ((4, ">f"), (8, ">d")):
            try:
                b = struct.pack(fmt, x)
            except OverflowError:
                b = struct.pack(fmt, float("inf"))
            L.append("HTONF %d %s" % (w, hx(b)))
            L.append("NTOHF %d %s" % (w, hx(b)))
    for _ in range(n):                                             # bit patterns that are not "nice" numbers (signalling NaNs, denormals)
        w = rng.choice([4, 8])
        b = bytes(rng.getrandbits(8) for _ in range(w))
        L.append("HTONF %d %s" % (w, hx(b)))
        L.append("NTOHF %d %s" % (w, hx(b)))
    for _ in range(n):
        ln = rng.choice([0, 1, 2, 7, 8, 9, 15, 16, 17, 31, 32, 33, 63, 64, 65, 100, 257])
        buf = bytes(rng.choice([0, 0, 1, 255, rng.getrandbits(8)]) for _ in range(ln))
        off = rng.randint(0, ln)
        k = min(ln - off, rng.choice([0, 1, ln - off, max(0, ln - off - 1), rng.randint(0, ln - off)]))
        L.append("ZERO %s %d %d" % (hx(buf), off, k))
        z = bytearray(rng.choice([0, 1, 8, 9, 31, 32, 33, 64, 100]))
        if z and rng.random() < 0.6:
            z[rng.choice([0, len(z) - 1, rng.randrange(len(z))])] = rng.choice([1, 128, 255])
        L.append("ISZ %s" % hx(z))
    L.append("ISZ -")
    return L


def run(ctx):
    thorough = ctx.tier == "thorough"
    exe = prepare(ctx)
    ctx.rule = ("evaluation = one call of aws_hton / aws_ntoh (16, 32, 64 bit, float, double), aws_is_big_endian, aws_secure_zero or "
                "aws_is_mem_zeroed validated against ByteOrder.tla; distinct = distinct script line; non-trivial = all")
    ctx.assumptions += [
        "the host of this sandbox has one byte order: the other one is covered by the model only (ByteOrderMC.tla explores both)",
        "float / double conversions are judged on bit patterns (memcpy in and out), so NaN payloads count",
        "aws_secure_zero is judged by its effect on memory, not by whether a compiler could have removed it",
    ]
    ctx.mc(SPEC_DIR, "ByteOrderMC", "MC.cfg", timeout=600, xmx="2g", workers=4, required_actions=["ByteOrderMC!Extend", "ByteOrderMC!Convert"])
    for bug in ("swap_on_big", "never_swap"):
        res = tlc.run_tlc(SPEC_DIR, "ByteOrderMC", "MC_bug_%s.cfg" % bug, ctx.outdir, workers=2, timeout=300, xmx="2g")
        if not ({"HtonOk", "NtohOk"} & set(res.violated)):
            raise CheckError("MODEL-BROKEN (sensitivity): MC_bug_%s.cfg was not refuted: %s" % (bug, res.summary()))
        ctx.extra.setdefault("model_sensitivity", []).append({"cfg": "MC_bug_%s.cfg" % bug, "refuted": sorted(res.violated)})
    rng = random.Random(ctx.seed)
    lines = script(rng, thorough)
    ctx.distinct.update(lines)
    ctx.evaluations = len(lines)
    execs = [["RESET"] + lines[i:i + 120] for i in range(0, len(lines), 120)]
    ctx.add_sample({"script": execs[0][:8]})
    ctx.add_sample({"script": execs[-1][:8]})
    pipeline.drive_and_validate(ctx, exe, execs, SPEC_DIR, "ByteOrderTrace", "Trace.cfg", label="bo", nbatch=8)
