"""C10 CBOR round trip: Cbor.tla (Enc / independent reader DecOne / Narrow on IEEE-754 bit fields / whole-item skipping)
model-checked; encoder programs followed by decoder programs (TLC-generated, enumerated boundaries, seeded random trees
nesting up to 8) are run on the real aws_cbor_encoder / aws_cbor_decoder and every call is validated by CborTrace.tla."""
import glob
import math
import os
import random
import struct

from vlib import build, pipeline, tlc

LEVEL = "model_checking"
SPEC_DIR = "Cbor"
NOPOP = ("null", "undef", "ibytes", "itext", "iarray", "imap", "break")
INT_KINDS = ("uint", "negint", "tag", "array", "map")
BOUND = [0, 1, 22, 23, 24, 25, 254, 255, 256, 257, 65534, 65535, 65536, 65537, 2 ** 31 - 1, 2 ** 31, 2 ** 32 - 2, 2 ** 32 - 1,
         2 ** 32, 2 ** 32 + 1, 2 ** 53, 2 ** 63 - 1, 2 ** 63, 2 ** 63 + 1, 2 ** 64 - 2, 2 ** 64 - 1]
STRLEN = [0, 1, 22, 23, 24, 25, 254, 255, 256, 257, 300]


def prepare(ctx):
    return build.build_harness("cbor_adapter", ["cbor_adapter.c"], cflags=["-Wno-unused-function"])


# ------------------------------------------------------------------------------------------------ items
# an entry of an encoder program: (script line, pop kind or None). The pop kind is the driver's own prediction of which
# typed getter fits; a wrong prediction is harmless (the specification, not the driver, tracks the decoder).
def e_int(kind, n):
    return ("W %s %016x" % (kind, n), kind)


def e_simple(kind):
    return ("W0 %s" % kind, None)


def e_bool(b):
    return ("W bool %02x" % (1 if b else 0), "bool")


def e_str(kind, a, s, n):
    return ("WS %s %d %d %d" % (kind, a, s, n), kind)


def e_strx(kind, content):
    return ("WX %s %s" % (kind, bytes(content).hex() if len(content) else "-"), kind)


def double_kind(bits):
    d = struct.unpack(">d", bits.to_bytes(8, "big"))[0]
    if math.isnan(d) or math.isinf(d):
        return "float"
    if d == math.floor(d) and -2 ** 63 <= d < 2 ** 63:
        return "uint" if d >= 0 else "negint"
    return "float"


def e_double(bits):
    return ("WF %016x" % bits, double_kind(bits))


def dbits(d):
    return int.from_bytes(struct.pack(">d", d), "big")


def rand_u64(rng):
    r = rng.random()
    if r < 0.5:
        return rng.choice(BOUND)
    return rng.getrandbits(rng.choice([5, 8, 16, 32, 33, 63, 64]))


def rand_double_bits(rng):
    r = rng.random()
    if r < 0.35:
        return rng.choice(FLOAT_TABLE)
    s = rng.getrandbits(1)
    e = rng.choice([0, 1, 873, 874, 875, 896, 897, 898, 1022, 1023, 1024, 1046, 1047, 1074, 1075, 1076, 1084, 1085, 1086,
                    1087, 1149, 1150, 1151, 2046, 2047, rng.randrange(2048), rng.randrange(1023, 1090)])
    k = rng.random()
    if k < 0.2:
        m = 0
    elif k < 0.5:
        m = rng.getrandbits(23) << 29                     # fits a single mantissa
    elif k < 0.6:
        m = (rng.getrandbits(23) << 29) | (1 << rng.randrange(29))
    elif k < 0.8:
        m = rng.getrandbits(rng.randrange(1, 53)) << rng.randrange(0, 30)
        m &= (1 << 52) - 1
    else:
        m = rng.getrandbits(52)
    return (s << 63) | (e << 52) | m


def rand_single_as_double_bits(rng):
    """a double that is exactly a single (write_float must narrow it to 4 bytes unless it is an integer)"""
    r = rng.random()
    if r < 0.3:
        u = rng.choice([0, 0x80000000, 0x3f800000, 0x3fc00000, 0x7f7fffff, 0xff7fffff, 0x00800000, 0x007fffff, 1, 0x80000001,
                        0x7f800000, 0xff800000, 0x7fc00000, 0x7f800001, 0xffc12345, 0x4b800000, 0x4b800001, 0x5f000000, 0xdf000000,
                        0x00000002, 0x00400000, 0x3f800001, 0x33800000])
    else:
        u = rng.getrandbits(32)
    return dbits(struct.unpack(">f", u.to_bytes(4, "big"))[0])


def _nx(d, to):
    return math.nextafter(d, to)


FLT_MAX = struct.unpack(">f", bytes.fromhex("7f7fffff"))[0]
FLOAT_TABLE = [dbits(x) for x in [
    0.0, -0.0, 1.0, -1.0, 1.5, 0.1, 2.0 ** 24 + 1, 2.0 ** 53, 2.0 ** 53 + 2, 2.0 ** 63, _nx(2.0 ** 63, 0), _nx(2.0 ** 63, math.inf),
    -2.0 ** 63, _nx(-2.0 ** 63, 0), -2.0 ** 63 - 2048, 2.0 ** 64, FLT_MAX, -FLT_MAX, _nx(FLT_MAX, math.inf), _nx(FLT_MAX, 0),
    2.0 ** -126, _nx(2.0 ** -126, 0), 2.0 ** -149, 2.0 ** -150, 3 * 2.0 ** -149, 2.2250738585072014e-308, 5e-324, -5e-324,
    1.7976931348623157e308, math.inf, -math.inf, 23.0, 24.0, -24.0, -25.0, 255.0, 256.0, 65535.0, 65536.0, 4294967295.0,
    4294967296.0, -4294967296.0, -4294967297.0, 0.3, 1e15, 123456789.125, 16777217.0]] + [
    0x7ff8000000000000, 0xfff8000000000000, 0x7ff0000000000001, 0x7ff4000000000000, 0xffffffffffffffff]


def rand_leaf(rng):
    r = rng.random()
    if r < 0.18:
        return e_int("uint", rand_u64(rng))
    if r < 0.30:
        return e_int("negint", rand_u64(rng))
    if r < 0.42:
        return e_str(rng.choice(["bytes", "text"]), rng.randrange(256), rng.choice([0, 1, 3, 7, 255]), rng.choice(STRLEN[:7] + [rng.randrange(40)]))
    if r < 0.50:
        return e_strx(rng.choice(["bytes", "text"]), [rng.getrandbits(8) for _ in range(rng.randrange(6))])
    if r < 0.58:
        return e_bool(rng.random() < 0.5)
    if r < 0.64:
        return e_simple("null")
    if r < 0.70:
        return e_simple("undef")
    if r < 0.88:
        return e_double(rand_double_bits(rng))
    return e_double(rand_single_as_double_bits(rng))


def emit_tree(rng, out, endmap, depth, maxd, budget):
    """appends one well-formed data item; endmap[start] = index after it. budget: [remaining items]"""
    start = len(out)
    r = rng.random()
    if depth >= maxd or budget[0] <= 1 or r < 0.35:
        out.append(rand_leaf(rng))
        budget[0] -= 1
    elif r < 0.45:
        out.append(e_int("tag", rand_u64(rng)))
        budget[0] -= 1
        emit_tree(rng, out, endmap, depth + 1, maxd, budget)
    elif r < 0.60:
        n = rng.choice([0, 1, 1, 2, 3])
        out.append(e_int("array", n))
        budget[0] -= 1
        for _ in range(n):
            emit_tree(rng, out, endmap, depth + 1, maxd, budget)
    elif r < 0.72:
        n = rng.choice([0, 1, 1, 2])
        out.append(e_int("map", n))
        budget[0] -= 1
        for _ in range(2 * n):
            emit_tree(rng, out, endmap, depth + 1, maxd, budget)
    elif r < 0.84:
        out.append(e_simple("iarray"))
        budget[0] -= 2
        for _ in range(rng.choice([0, 1, 2, 3])):
            emit_tree(rng, out, endmap, depth + 1, maxd, budget)
        out.append(e_simple("break"))
    elif r < 0.93:
        out.append(e_simple("imap"))
        budget[0] -= 2
        for _ in range(2 * rng.choice([0, 1, 2])):
            emit_tree(rng, out, endmap, depth + 1, maxd, budget)
        out.append(e_simple("break"))
    else:
        kind = rng.choice(["bytes", "text"])
        out.append(e_simple("i" + kind))
        budget[0] -= 2
        for _ in range(rng.choice([0, 1, 2, 3])):
            cs = len(out)
            out.append(e_str(kind, rng.randrange(256), 1, rng.choice([0, 1, 5, 23, 24])))
            endmap[cs] = cs + 1
            budget[0] -= 1
        out.append(e_simple("break"))
    endmap[start] = len(out)


def nest_chain(rng, depth):
    """one data item nesting exactly `depth` containers/tags deep"""
    out, endmap = [], {}
    closers = []
    for _ in range(depth):
        k = rng.choice(["tag", "array", "map", "iarray", "imap"])
        s = len(out)
        if k == "tag":
            out.append(e_int("tag", rng.randrange(30)))
            closers.append((s, None))
        elif k == "array":
            out.append(e_int("array", 1))
            closers.append((s, None))
        elif k == "map":
            out.append(e_int("map", 1))
            ks = len(out)
            out.append(e_int("uint", rng.randrange(30)))
            endmap[ks] = ks + 1
            closers.append((s, None))
        elif k == "iarray":
            out.append(e_simple("iarray"))
            closers.append((s, "break"))
        else:
            out.append(e_simple("imap"))
            ks = len(out)
            out.append(e_strx("text", b"k"))
            endmap[ks] = ks + 1
            closers.append((s, "break"))
    ls = len(out)
    out.append(rand_leaf(rng))
    endmap[ls] = ls + 1
    for s, c in reversed(closers):
        if c:
            out.append(e_simple("break"))
        endmap[s] = len(out)
    return out, endmap


# ------------------------------------------------------------------------------------------------ decoder programs
def typed_decode(rng, d, entries, peek=0.4, wrong=0.08, start=0):
    ops = []
    for ln, pk in entries[start:]:
        if rng.random() < peek:
            ops.append("PEEK %d" % d)
        if pk and rng.random() < wrong:
            ops.append("POP %d %s" % (d, rng.choice([k for k in ("uint", "negint", "float", "bytes", "text", "array", "map", "tag", "bool") if k != pk])))
        if pk is None or rng.random() < 0.1:
            ops.append("SKIP1 %d" % d)
        else:
            ops.append("POP %d %s" % (d, pk))
        if rng.random() < 0.1:
            ops.append("REM %d" % d)
    ops.append("REM %d" % d)
    ops.append("PEEK %d" % d)            # nothing left: must be refused
    return ops


def walk_decode(rng, d, entries, endmap, pskip=0.4):
    ops = []
    pos = 0
    while pos < len(entries):
        if rng.random() < 0.25:
            ops.append("PEEK %d" % d)
        if pos in endmap and rng.random() < pskip:
            ops.append("SKIP %d" % d)
            pos = endmap[pos]
        else:
            pk = entries[pos][1]
            ops.append("POP %d %s" % (d, pk) if pk and rng.random() < 0.8 else "SKIP1 %d" % d)
            pos += 1
    ops.append("REM %d" % d)
    return ops


def top_skip(d, entries, endmap):
    ops = []
    pos = 0
    while pos < len(entries):
        ops.append("SKIP %d" % d)
        pos = endmap[pos]
    ops.append("REM %d" % d)
    ops.append("SKIP %d" % d)            # nothing left: must be refused
    return ops


def lines(entries):
    return [ln for ln, _ in entries]


# ------------------------------------------------------------------------------------------------ executions
def ex_flat(rng):
    n = rng.randint(3, 16)
    ents = []
    for _ in range(n):
        r = rng.random()
        if r < 0.6:
            ents.append(rand_leaf(rng))
        elif r < 0.8:
            ents.append(e_int(rng.choice(["tag", "array", "map"]), rand_u64(rng)))
        else:
            ents.append(e_simple(rng.choice(["ibytes", "itext", "iarray", "imap", "break"])))
    ex = ["RESET"] + lines(ents) + ["DATA", "DNEW 1"] + typed_decode(rng, 1, ents) + ["DNEW 2"]
    ex += ["SKIP1 2"] * len(ents) + ["REM 2", "SKIP1 2", "DFREE 1", "DFREE 2"]
    return ex


def ex_long_history(rng, n, shape):
    """one decoder used for a long time: n small data items of one shape (tagged values, pairs in short maps, short
    arrays, indefinite strings), each skipped as a whole or popped, then the end of the data: whatever a decoder keeps
    between calls must not add up"""
    ents, starts = [], []
    for i in range(n):
        starts.append(len(ents))
        if shape == "tag":
            ents += [e_int("tag", rng.choice([0, 1, 2, 55799])), e_int("uint", i % 24)]
        elif shape == "tagtag":
            ents += [e_int("tag", 1), e_int("tag", 2), e_int("uint", i % 24)]
        elif shape == "map":
            ents += [e_int("map", 1), e_int("uint", i % 24), e_int("negint", 3)]
        elif shape == "array":
            ents += [e_int("array", 2), e_int("uint", 1), e_int("uint", i % 24)]
        else:
            ents += [e_simple("itext"), e_str("text", 65, 1, 2), e_simple("break")]
    ex = ["RESET"] + lines(ents) + ["DATA", "DNEW 1"]
    mode = rng.choice(["skip", "skip", "mixed"])
    for i in range(n):
        ex.append("SKIP 1")
    ex += ["REM 1", "SKIP 1", "DFREE 1"]
    return ex


def ex_tree(rng, maxd):
    ents, endmap = [], {}
    budget = [rng.randint(6, 22)]
    while budget[0] > 0 and len(ents) < 24:
        emit_tree(rng, ents, endmap, 0, maxd, budget)
    ex = ["RESET"] + lines(ents) + ["DATA", "DNEW 1"] + typed_decode(rng, 1, ents, peek=0.2, wrong=0.03)
    ex += ["DNEW 2"] + top_skip(2, ents, endmap) + ["DNEW 3"] + walk_decode(rng, 3, ents, endmap)
    return ex


def ex_chain(rng, depth):
    ents, endmap = nest_chain(rng, depth)
    pre = [rand_leaf(rng) for _ in range(rng.randrange(3))]
    post = [rand_leaf(rng) for _ in range(rng.randrange(3))]
    em = {len(pre) + k: len(pre) + v for k, v in endmap.items()}
    for i in range(len(pre)):
        em[i] = i + 1
    allents = pre + ents + post
    for i in range(len(pre) + len(ents), len(allents)):
        em[i] = i + 1
    ex = ["RESET"] + lines(allents) + ["DATA", "DNEW 1"] + top_skip(1, allents, em)
    ex += ["DNEW 2"] + walk_decode(rng, 2, allents, em, pskip=0.25) + ["DNEW 3"] + walk_decode(rng, 3, allents, em, pskip=0.1)
    return ex


def ex_strings(rng, big):
    """string lengths across the head-width boundaries and across the encoder's buffer growth points"""
    ents = []
    if big:
        # the first string alone outgrows the initial 256-byte buffer several times over
        ents.append(e_str(rng.choice(["bytes", "text"]), rng.randrange(256), rng.choice([1, 3, 251]), rng.choice([65535, 65536, 65537, 70000])))
        ents.append(rand_leaf(rng))
        ents.append(e_str("text", rng.randrange(256), 7, rng.choice([255, 256, 300])))
    else:
        # fill to a chosen distance below a power of two, then a string whose head + payload crosses it
        target = rng.choice([256, 512, 1024, 2048])
        n = rng.choice(STRLEN + [target - 12, target - 9, target - 3])
        hl = 1 if n < 24 else 2 if n < 256 else 3
        fill = target - (n + hl) + rng.choice([-10, -9, -8, -2, -1, 0, 1, 2])
        while fill > 0:
            k = min(fill, rng.choice([1, 9, 30, 200]))
            if k >= 3:
                m = k - (1 if k - 1 < 24 else 2 if k - 2 < 256 else 3)
                ents.append(e_str("bytes", rng.randrange(256), 1, max(0, m)))
            else:
                ents.append(e_int("uint", rng.randrange(24)))
                k = 1
            fill -= k
        ents.append(e_str(rng.choice(["bytes", "text"]), rng.randrange(256), rng.choice([1, 5, 255]), max(0, n)))
        for _ in range(rng.randrange(3)):
            ents.append(rand_leaf(rng))
        ents = ents[:40]
    em = {i: i + 1 for i in range(len(ents))}
    ex = ["RESET"] + lines(ents) + (["DATA"] if not big else []) + ["DNEW 1"] + typed_decode(rng, 1, ents, peek=0.3, wrong=0.05)
    ex += ["DNEW 2"] + top_skip(2, ents, em)
    return ex


def ex_ints(rng, vals):
    ents = []
    for v in vals:
        ents.append(e_int(rng.choice(INT_KINDS), v))
    return ["RESET"] + lines(ents) + ["DATA", "DNEW 1"] + typed_decode(rng, 1, ents, peek=0.5, wrong=0.05)


def ex_floats(rng, bits_list, singles):
    ents = [e_double(b) for b in bits_list] + [e_double(b) for b in singles]
    rng.shuffle(ents)
    return ["RESET"] + lines(ents) + ["DATA", "DNEW 1"] + typed_decode(rng, 1, ents, peek=0.5, wrong=0.03)


def ex_growth_boundary(rng, cap, delta, wide):
    """the encoder's buffer starts at 256 bytes and doubles: put an item of every head width at every offset from
    12 bytes before a growth point up to the point itself (one-byte items as padding), then one more item"""
    pads = []
    for _ in range(cap - delta):
        pads.append(rng.choice([e_int("uint", rng.randrange(24)), e_bool(rng.random() < 0.5), e_int("negint", rng.randrange(24))]))
    ents = pads + [wide, e_int("uint", 7)]
    dec = ["DNEW 1"] + ["SKIP 1"] * len(pads) + typed_decode(rng, 1, ents[len(pads):], peek=0.5, wrong=0.0) + ["DFREE 1"]
    return ["RESET"] + lines(ents) + ["DATA"] + dec


def growth_boundary_family(rng, caps):
    wides = [lambda: e_int("uint", 2 ** 64 - 1), lambda: e_int("negint", 2 ** 63), lambda: e_int("tag", 2 ** 40),
             lambda: e_double(dbits(1.1)), lambda: e_double(dbits(1.5)), lambda: e_int("uint", 2 ** 32 - 1),
             lambda: e_int("uint", 65535), lambda: e_int("uint", 255), lambda: e_str("text", 3, 5, 9)]
    out = []
    for cap in caps:
        for delta in range(0, 13):
            for w in wides:
                out.append(ex_growth_boundary(rng, cap, delta, w()))
    return out


def ex_truncated(rng):
    """a container with fewer children than declared, skipped at the end of the data; encoder reset and reuse"""
    pre = [rand_leaf(rng) for _ in range(rng.randrange(3))]
    k = rng.choice(["array", "map", "iarray", "imap", "tag", "itext"])
    huge = [2 ** 24, 2 ** 32, 2 ** 62, 2 ** 63 - 1, 2 ** 63, 2 ** 63 + 1, 2 ** 64 - 2, 2 ** 64 - 1]
    if k == "array":
        # declared counts from "one more than present" to the largest the head can carry (the encoder writes any count)
        have = rng.choice([0, 1, 2, 2, 3])
        body = [e_int("array", rng.choice([have + 1, have + 1] + huge))] + [rand_leaf(rng) for _ in range(have)]
    elif k == "map":
        have = rng.choice([0, 1, 2, 3, 4, 5])                 # items present (pairs may be cut in the middle)
        body = [e_int("map", rng.choice([have // 2 + 1, have // 2 + 1] + huge))] + [rand_leaf(rng) for _ in range(have)]
    elif k == "tag":
        body = [e_int("tag", 5)]
    elif k == "itext":
        body = [e_simple("itext"), e_str("text", 65, 1, 3)]
    else:
        body = [e_simple(k), rand_leaf(rng), rand_leaf(rng)]
    ents = pre + body
    ex = ["RESET"] + [rand_leaf(rng)[0] for _ in range(rng.randrange(4))] + ["ERESET"] + lines(ents) + ["DATA", "DNEW 1"]
    ex += ["SKIP 1"] * len(pre) + ["REM 1", "SKIP 1", "DFREE 1", "DNEW 2"] + typed_decode(rng, 2, ents) + ["DFREE 2", "ERESET", "DATA"]
    ex += [rand_leaf(rng)[0], "DATA"]
    return ex


def from_tlc(s):
    ex = ["RESET"]
    hx = lambda v: "".join("%02x" % b for b in v)
    for o in s["ops"]:
        op = o["op"]
        if op == "W":
            k, v = o["k"], o["v"]
            if k in INT_KINDS:
                ex.append("W %s %s" % (k, hx(v)))
            elif k == "bool":
                ex.append("W bool %s" % hx(v))
            elif k == "f32":
                ex.append("WF %016x" % dbits(struct.unpack(">f", bytes(v))[0]))
            elif k in ("bytes", "text"):
                ex.append("WX %s %s" % (k, hx(v) if v else "-"))
            elif k == "f64":
                ex.append("WF %s" % hx(v))
            else:
                ex.append("W0 %s" % k)
        elif op == "WF":
            ex.append("WF %s" % hx(o["v"]))
        elif op == "DNEW":
            ex.append("DNEW %d" % o["d"])
        elif op == "DFREE":
            ex.append("DFREE %d" % o["d"])
        elif op == "PEEK":
            ex.append("PEEK %d" % o["d"])
        elif op == "POP":
            ex.append("POP %d %s" % (o["d"], o["k"]))
        elif op == "SKIP1":
            ex.append("SKIP1 %d" % o["d"])
        elif op == "SKIP":
            ex.append("SKIP %d" % o["d"])
        elif op == "REM":
            ex.append("REM %d" % o["d"])
    return ex


# ------------------------------------------------------------------------------------------------ run
BIG_N = [0, 1, 23, 24, 255, 256, 65535, 65536, 100000, 1 << 20, (1 << 20) + 1, 2 << 20, (4 << 20) - 9, 4 << 20, (4 << 20) + 1, 6 << 20, 9 << 20]


def big_history(rng):
    """one encoder that grows to megabytes, is read back, reset and used again, several times over: strings of every head
    form, sizes around 1 MiB and 4 MiB, a large item after a large item, a small item after a reset"""
    ex = ["RESET"]
    held = 0
    for _round in range(rng.randint(2, 4)):
        for _ in range(rng.randint(1, 4)):
            n = rng.choice(BIG_N if held < (24 << 20) else BIG_N[:9])
            ex.append("WSB %s %d %d %d" % (rng.choice(["bytes", "text"]), rng.randrange(256), rng.choice([1, 3, 255, 7]), n))
            held += n
        k = len([ln for ln in ex if ln.startswith("WSB")]) - len([ln for ln in ex if ln.startswith("POPB")])
        if rng.random() < 0.8:
            cnt = sum(1 for ln in ex[max(i for i, l in enumerate(ex) if l in ("RESET", "ERESET")):] if ln.startswith("WSB"))
            ex.append("DNEW 1")
            ex += ["POPB 1"] * (cnt + rng.choice([0, 0, 1]))
            ex.append("DFREE 1")
        if rng.random() < 0.8:
            ex.append("ERESET")
            held = 0
            if rng.random() < 0.6:
                ex.append("WSB %s %d %d %d" % (rng.choice(["bytes", "text"]), rng.randrange(256), 1, rng.choice([0, 1, 5, 100, 300])))
                held += 300
    ex += ["DNEW 1", "POPB 1", "DFREE 1"]
    return ex


def run(ctx):
    thorough = ctx.tier == "thorough"
    exe = prepare(ctx)
    ctx.rule = ("evaluation = one public encoder or decoder call (one trace event); execution = one encoder program + up to "
                "three decoder programs over its bytes; distinct = distinct execution text; non-trivial = contains a container, "
                "a float or a string of >= 24 bytes")
    ctx.assumptions += [
        "the independent decoder of the statement is the specification itself: the library's bytes must equal Enc(items) "
        "(shortest heads) and TLC establishes DecAll(EncAll(items)) = items for the RFC 8949 reader DecOne on the model",
        "'smallest form that loses nothing' is read as documented in cbor.h: integer (only inside the int64 range), else "
        "single, else double; half precision is never produced and not covered; +-0.0 become the integer 0 (numeric value)",
        "doubles are judged on IEEE-754 bit fields (Narrow / Widen in Cbor.tla); the field definitions are cross-checked "
        "against real floating point by a 76-row table computed outside TLA+ (ASSUME in CborMC.tla); a NaN must come out as "
        "some single-precision NaN and read back as a NaN (payload and sign not compared)",
        "remaining length while one decoded element is held in the look-ahead cache may count that element or not; it is "
        "exact after every pop / consume",
        "consume_next_whole_data_item is only specified on well-formed or truncated items (cbor.h: the function does not "
        "check well-formedness); scripts never skip from a stray break / odd map / wrong chunk kind",
        "error codes are not compared, only success versus failure; allocation cannot fail",
        "string payloads follow an arithmetic pattern mod 256 generated by the adapter from script arguments",
        "exhaustive only on the model (item sequences <= 4 over 19 items; decoder programs <= 5 calls over sequences <= 3)",
    ]
    # 1. design level
    if not os.environ.get("VERIF_C10_SKIP_MC"):      # development aid for mutation runs (the model does not depend on the library)
        r = ctx.mc(SPEC_DIR, "CborMC", "MC.cfg" if not thorough else "MC_thorough.cfg", required_actions=["CborMC!MCWrite"],
                   timeout=3000, xmx="8g")
        ctx.mc(SPEC_DIR, "CborMC", "MC_dec.cfg", timeout=1200, xmx="6g",
               required_actions=["CborMC!MCWrite", "CborMC!MCDecNew", "CborMC!MCPeek", "CborMC!MCPop", "CborMC!MCSkipOne",
                                 "CborMC!MCSkipWhole", "CborMC!MCRemaining", "CborMC!MCDecFree"])
        ctx.mc(SPEC_DIR, "CborMC", "MC_float.cfg", timeout=1200, xmx="6g",
               required_actions=["CborMC!MCWriteFloat", "CborMC!MCPop", "CborMC!MCDecNew"])
    # 2. TLC-generated programs
    scripts, _ = tlc.gen_scripts(SPEC_DIR, "CborMC", "Gen.cfg", ctx.outdir, num=400 if not thorough else 6000, depth=37,
                                 seed=ctx.seed, workers=4)
    execs = [from_tlc(s) for s in scripts]
    ctx.extra["tlc_generated_scripts"] = len(execs)
    # 3. enumerated boundaries + seeded random
    rng = random.Random(ctx.seed)
    mult = 1 if not thorough else 12
    for i in range(0, len(BOUND), 8):
        for _ in range(2 * mult):
            execs.append(ex_ints(rng, BOUND[i:i + 8]))
    for _ in range(20 * mult):
        execs.append(ex_ints(rng, [rand_u64(rng) for _ in range(10)]))
    for i in range(0, len(FLOAT_TABLE), 10):
        execs.append(ex_floats(rng, FLOAT_TABLE[i:i + 10], [rand_single_as_double_bits(rng) for _ in range(3)]))
    for _ in range(60 * mult):
        execs.append(ex_floats(rng, [rand_double_bits(rng) for _ in range(12)], [rand_single_as_double_bits(rng) for _ in range(3)]))
    for _ in range(120 * mult):
        execs.append(ex_flat(rng))
    for _ in range(200 * mult):
        execs.append(ex_tree(rng, rng.choice([2, 3, 4, 6, 8])))
    for d in range(1, 9):
        for _ in range(6 * mult):
            execs.append(ex_chain(rng, d))
    for _ in range(90 * mult):
        execs.append(ex_strings(rng, False))
    for _ in range(4 * mult):
        execs.append(ex_strings(rng, True))
    for _ in range(40 * mult):
        execs.append(ex_truncated(rng))
    for shape, n in [("tag", 1100), ("tagtag", 600), ("map", 1100), ("array", 1100), ("itext", 1100)] + \
            ([("tag", 4200), ("map", 2100), ("tagtag", 2100)] if thorough else []):
        execs.append(ex_long_history(rng, n, shape))
    fam = growth_boundary_family(rng, [256] if not thorough else [256, 512, 1024])
    execs += fam
    ctx.extra["growth_boundary_family"] = len(fam)
    ctx.extra["driver_executions"] = len(execs) - ctx.extra["tlc_generated_scripts"]
    nontriv = ("array", "map", "iarray", "imap", "tag", "WF", "f32")
    for ex in execs:
        txt = "\n".join(ex)
        if any(k in txt for k in nontriv) or any(ln.startswith("WS") and int(ln.split()[-1]) >= 24 for ln in ex):
            ctx.distinct.add(hash(txt))
    ctx.add_sample({"script": execs[0][:16]})
    ctx.add_sample({"script": execs[len(execs) // 2][:16]})
    ctx.add_sample({"script": execs[-1][:16]})
    # big strings are expensive to validate: keep them in batches of their own
    big = [ex for ex in execs if any(ln.startswith("WS") and int(ln.split()[-1]) > 4000 for ln in ex)]
    small = [ex for ex in execs if ex not in big]
    pipeline.drive_and_validate(ctx, exe, small, SPEC_DIR, "CborTrace", "Trace.cfg", label="cbor", nbatch=16)
    if big:
        pipeline.drive_and_validate(ctx, exe, big, SPEC_DIR, "CborTrace", "Trace.cfg", label="cborbig", nbatch=min(4, len(big)))
    # items of megabytes on one encoder (spec/Cbor/CborBig.tla: contents as patterns, not bytes): grow, reset, reuse
    ctx.mc(SPEC_DIR, "CborBigMC", "MC_big.cfg", timeout=600, xmx="4g", workers=4,
           required_actions=["CborBigMC!MCWrite", "CborBigMC!MCReset", "CborBigMC!MCDecNew", "CborBigMC!MCPop", "CborBigMC!MCPopEnd"])
    bigx = [big_history(rng) for _ in range(10 if not thorough else 120)]
    for ex in bigx:
        ctx.distinct.add(hash("\n".join(ex)))
    pipeline.drive_and_validate(ctx, exe, bigx, SPEC_DIR, "CborBigTrace", "TraceBig.cfg", label="cborhuge", nbatch=min(5, len(bigx)),
                                harness_timeout=900, env={"VH_WATCHDOG": "800"}, stale_errors=0)
    ctx.extra["megabyte_item_executions"] = len(bigx)
    n = 0
    for tp in glob.glob(os.path.join(ctx.outdir, "cbor*", "b*.clean.ndjson")):
        with open(tp) as f:
            n += sum(1 for ln in f if '"e":"Reset"' not in ln and '"e":"End"' not in ln)
    ctx.evaluations = n
    # the same parsers on several threads at once (Stateless.tla): one outcome per operation whoever performs it, and a
    # ThreadSanitizer pass over the same scenarios (hidden shared state is a data race whatever the schedule)
    from checks import stateless_common
    stateless_common.drive(ctx, ["cbor"], thorough, n=40 if not thorough else 1000)
