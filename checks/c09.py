"""C09 array list and linked list keep exact sequence contents.
ArrayList.tla / LinkedList.tla (reference sequences with the documented refusals) are model-checked; TLC-generated
and seeded random operation scripts are replayed on the real aws_array_list (element sizes around the 128-byte swap
slice, dynamic lists with initial allocation 0/1/3/..., static lists over exact-size malloc storage, indices whose
byte offset overflows size_t) and on the real aws_linked_list (two lists, six nodes); after every call the complete
observable state (all elements via get_at, length, capacity / forward walk, backward walk, next/prev of every node)
is validated by TLC against the specification."""
import glob
import json
import os
import random

from vlib import build, pipeline, tlc

LEVEL = "model_checking"
SIZES = [1, 2, 8, 127, 128, 129, 255, 256, 257, 300, 384]   # around and at multiples of the 128-byte swap slice
SORT_SHAPES = ["3way", "diff", "scaled", "two"]    # comparator shapes: the order is the same, the numbers returned are not
BIG = ["MAX", "QOV", "WR0", "WR1", "WR3", "MAX", "QOV"]   # "beyond everything", spelt in the ways that make byte counts wrap


def prepare(ctx):
    a = build.build_harness("arraylist_adapter", ["arraylist_adapter.c"], cflags=["-Wno-unused-function"])
    b = build.build_harness("linkedlist_adapter", ["linkedlist_adapter.c"], cflags=["-Wno-unused-function"])
    return a, b


# ------------------------------------------------------------------------------------------------ array list
def idx_tok(i, n):
    if i == -1:
        return BIG[n % len(BIG)]
    if i == -2:
        return "QM1"
    return str(i)


def al_from_tlc(s, isz):
    ops = s["ops"]
    r = ops[0]
    lines = ["RESET %d %s %d %s %d" % (isz, "static" if r["v"] else "dyn", r["a"], "static" if r["id"] else "dyn", r["b"])]
    for n, o in enumerate(ops[1:]):
        op = o["op"]
        if op in ("PUSHB", "PUSHF"):
            lines.append("%s %d %d %d" % (op, o["l"], o["v"], o["id"]))
        elif op == "SET":
            lines.append("SET %d %s %d %d" % (o["l"], idx_tok(o["a"], n), o["v"], o["id"]))
        elif op in ("GET", "ERASE", "POPN", "ENSURE"):
            lines.append("%s %d %s" % (op, o["l"], idx_tok(o["a"], n)))
        elif op == "SWAP":
            lines.append("SWAP %d %d %d" % (o["l"], o["a"], o["b"]))
        elif op == "SWAPC":
            lines.append("SWAPC")
        elif op == "SORT":
            lines.append("SORT %d %s" % (o["l"], SORT_SHAPES[n % len(SORT_SHAPES)]))
        else:
            lines.append("%s %d" % (op, o["l"]))
    lines.append("FIN")
    return lines


def al_random(rng, nops):
    """The driver keeps its own rough idea of the lengths only to aim indices at and around the boundaries; the
    adapter skips calls whose documented precondition does not hold, the specification is the only oracle."""
    isz = rng.choice(SIZES)
    modes, caps = [None], [None]
    for _ in (1, 2):
        if rng.random() < 0.35:
            modes.append("static")
            caps.append(rng.choice([1, 2, 3, 5, 8]))
        else:
            modes.append("dyn")
            caps.append(rng.choice([0, 0, 1, 3, 3, 4]))
    lines = ["RESET %d %s %d %s %d" % (isz, modes[1], caps[1], modes[2], caps[2])]
    ln = [0, 0, 0]
    cap = list(caps)
    nvals = rng.choice([1, 2, 3, 6, 256])
    nid = 1
    maxlen = 12

    def index(l, beyond=2):
        c = [0, max(0, ln[l] - 1), ln[l], ln[l] // 2, rng.randint(0, ln[l] + beyond)]
        if beyond:
            c += [ln[l] + 1, ln[l] + beyond]
        return rng.choice(c)

    for _ in range(nops):
        l = rng.choice((1, 2))
        r = rng.random()
        v = rng.randrange(nvals)
        if r < 0.16:
            if ln[l] >= maxlen and modes[l] == "dyn":
                continue
            lines.append("%s %d %d %d" % (rng.choice(("PUSHB", "PUSHF")), l, v, nid))
            nid += 1
            if modes[l] == "dyn" or ln[l] < cap[l]:
                ln[l] += 1
                cap[l] = max(cap[l], ln[l])
        elif r < 0.22:
            lines.append("%s %d" % (rng.choice(("POPB", "POPF")), l))
            ln[l] = max(0, ln[l] - 1)
        elif r < 0.27:
            n = rng.choice([0, 1, 2, ln[l] - 1, ln[l], ln[l] + 1] + BIG[:5])
            if n not in BIG:
                n = max(0, n)
                ln[l] = max(0, ln[l] - n)
            else:
                ln[l] = 0
            lines.append("POPN %d %s" % (l, n))
        elif r < 0.39:
            q = rng.random()
            if q < 0.12:
                i = rng.choice(BIG + (["QM1"] if modes[l] == "static" else []))
            else:
                i = index(l, beyond=3)
                if modes[l] == "dyn" and i >= maxlen:
                    i = ln[l]
                if modes[l] == "dyn" or i < cap[l]:
                    ln[l] = max(ln[l], i + 1)
                    cap[l] = max(cap[l], ln[l])
            lines.append("SET %d %s %d %d" % (l, i, v, nid))
            nid += 1
        elif r < 0.47:
            i = rng.choice(BIG + ["QM1"]) if rng.random() < 0.15 else index(l)
            lines.append("GET %d %s" % (l, i))
        elif r < 0.52:
            lines.append("%s %d" % (rng.choice(("FRONT", "BACK")), l))
        elif r < 0.62:
            i = rng.choice(BIG + ["QM1"]) if rng.random() < 0.1 else index(l, beyond=1)
            lines.append("ERASE %d %s" % (l, i))
            if isinstance(i, int) and i < ln[l]:
                ln[l] -= 1
        elif r < 0.72:
            if ln[l] == 0:
                continue
            a = rng.choice([0, ln[l] - 1, rng.randrange(ln[l])])
            b = rng.choice([0, ln[l] - 1, rng.randrange(ln[l]), a])
            lines.append("SWAP %d %d %d" % (l, a, b))
        elif r < 0.78:
            lines.append("SORT %d %s" % (l, rng.choice(SORT_SHAPES)))
        elif r < 0.85:
            lines.append("COPY %d" % l)
            o = 3 - l
            if cap[l] > 0 and (modes[o] == "dyn" or cap[o] >= ln[l]):
                ln[o] = ln[l]
                cap[o] = max(cap[o], ln[l])
        elif r < 0.89:
            lines.append("SHRINK %d" % l)
            if modes[l] == "dyn":
                cap[l] = ln[l]
        elif r < 0.92:
            lines.append("CLEAR %d" % l)
            ln[l] = 0
        elif r < 0.95:
            if modes[1] == "dyn" and modes[2] == "dyn":
                lines.append("SWAPC")
                ln[1], ln[2] = ln[2], ln[1]
                cap[1], cap[2] = cap[2], cap[1]
        else:
            q = rng.random()
            if q < 0.2:
                i = rng.choice(BIG + (["QM1"] if modes[l] == "static" else []))
            else:
                i = rng.choice([0, ln[l], cap[l], cap[l] + 1, max(0, cap[l] - 1), 2 * cap[l] + 1])
                i = min(i, 24)
                if modes[l] == "dyn":
                    cap[l] = max(cap[l], i + 1)
            lines.append("ENSURE %d %s" % (l, i))
        if isz == 2 and nid > 250:
            break
    lines.append("FIN")
    return lines


# ------------------------------------------------------------------------------------------------ linked list
def ll_from_tlc(s):
    lines = ["RESET"]
    for o in s["ops"]:
        op = o["op"]
        if op in ("PUSHF", "PUSHB"):
            lines.append("%s %d %d" % (op, o["k"], o["a"]))
        elif op in ("POPF", "POPB", "FRONT", "BACK", "MOVEB", "MOVEF"):
            lines.append("%s %d" % (op, o["k"]))
        elif op in ("INSB", "INSA", "SWAPN"):
            lines.append("%s %d %d" % (op, o["a"], o["b"]))
        elif op == "REMOVE":
            lines.append("REMOVE %d" % o["a"])
        else:
            lines.append("SWAPC")
    lines.append("FIN")
    return lines


def ll_random(rng, nops):
    """Exact bookkeeping is possible here (no ties, no refusals): the driver only emits calls whose preconditions hold."""
    lists = {1: [], 2: []}
    lines = ["RESET"]
    nodes = [1, 2, 3, 4, 5, 6]
    for _ in range(nops):
        att = lists[1] + lists[2]
        det = [n for n in nodes if n not in att]
        r = rng.random()
        k = rng.choice((1, 2))
        if r < 0.22 and det:
            n = rng.choice(det)
            if rng.random() < 0.5:
                lines.append("PUSHF %d %d" % (k, n))
                lists[k].insert(0, n)
            else:
                lines.append("PUSHB %d %d" % (k, n))
                lists[k].append(n)
        elif r < 0.30 and lists[k]:
            if rng.random() < 0.5:
                lines.append("POPF %d" % k)
                lists[k].pop(0)
            else:
                lines.append("POPB %d" % k)
                lists[k].pop()
        elif r < 0.34 and lists[k]:
            lines.append("%s %d" % (rng.choice(("FRONT", "BACK")), k))
        elif r < 0.48 and att and det:
            a, n = rng.choice(att), rng.choice(det)
            kk = 1 if a in lists[1] else 2
            p = lists[kk].index(a)
            if rng.random() < 0.5:
                lines.append("INSB %d %d" % (a, n))
                lists[kk].insert(p, n)
            else:
                lines.append("INSA %d %d" % (a, n))
                lists[kk].insert(p + 1, n)
        elif r < 0.58 and att:
            n = rng.choice(att)
            lines.append("REMOVE %d" % n)
            (lists[1] if n in lists[1] else lists[2]).remove(n)
        elif r < 0.80 and lists[k]:
            s = lists[k]
            i = rng.randrange(len(s))
            q = rng.random()
            if q < 0.4 and len(s) > 1:         # adjacent, either order
                j = i + 1 if i + 1 < len(s) else i - 1
            elif q < 0.5:                       # identical
                j = i
            elif q < 0.7:                       # the two ends
                i, j = 0, len(s) - 1
            else:
                j = rng.randrange(len(s))
            lines.append("SWAPN %d %d" % (s[i], s[j]))
            s[i], s[j] = s[j], s[i]
        elif r < 0.86:
            lines.append("SWAPC")
            lists[1], lists[2] = lists[2], lists[1]
        elif r < 0.93:
            lines.append("MOVEB %d" % k)
            lists[k] = lists[k] + lists[3 - k]
            lists[3 - k] = []
        else:
            lines.append("MOVEF %d" % k)
            lists[k] = lists[3 - k] + lists[k]
            lists[3 - k] = []
    lines.append("FIN")
    return lines


def leak_diagnostic(ctx, label):
    """Not part of the property (and not of the verdict): how many executions ended with blocks the lists never
    released. Recorded in evidence only."""
    n = 0
    for p in glob.glob(os.path.join(ctx.outdir, label, "*.clean.ndjson")):
        for line in open(p):
            if line.startswith('{"e":"Fin"'):
                try:
                    n += 1 if json.loads(line).get("leaked", 0) > 0 else 0
                except ValueError:
                    pass
    return n


def run(ctx):
    thorough = ctx.tier == "thorough"
    al_exe, ll_exe = prepare(ctx)
    ctx.rule = ("execution = (array list) two lists of one element size from {1,2,8,127,128,129,300}, each dynamic with "
                "initial allocation 0/1/3/4 or static over exact-size storage, + a sequence of push/pop at both ends, "
                "pop_front_n, set_at (incl. gap growth and overflowing indices), get_at, front, back, erase, swap, sort, copy, "
                "shrink_to_fit, clear, swap_contents, ensure_capacity; or (linked list) two lists over six nodes + a sequence "
                "of push/pop at both ends, insert before/after, remove, swap_nodes, swap_contents, move_all_front/back; "
                "distinct = distinct script text; non-trivial = at least 6 calls that change a list")
    ctx.assumptions += [
        "allocation cannot fail (aws_mem_acquire aborts on OOM): growth of a dynamic list fails only on size overflow",
        "scripts respect the documented/fatal preconditions: swap indices inside the list, copy from a list that owns "
        "storage, swap_contents on two dynamic lists, linked-list nodes inserted only while detached, swap_nodes within one list",
        "indices near SIZE_MAX are only passed where the call must fail without allocating (a dynamic list is never asked "
        "for a representable but absurd capacity)",
        "gap elements created by set_at beyond the length are bound to whatever content the implementation exposes",
        "memory leaks are outside the property statement: blocks not released are counted in evidence, not judged",
    ]
    # 1. design level
    ctx.mc("ArrayList", "ArrayListMC", "MC_thorough.cfg" if thorough else "MC.cfg", timeout=3000, xmx="16g",
           required_actions=["ArrayListMC!" + a for a in (
               "MCPushBack", "MCPushFront", "MCPopBack", "MCPopFront", "MCPopFrontN", "MCSetAt", "MCGetAt", "MCFront",
               "MCBack", "MCErase", "MCSwap", "MCSort", "MCCopy", "MCShrink", "MCClear", "MCSwapContents", "MCEnsure")])
    ctx.mc("LinkedList", "LinkedListMC", "MC_thorough.cfg" if thorough else "MC.cfg", timeout=3000, xmx="16g",
           required_actions=["LinkedListMC!" + a for a in (
               "MCPushFront", "MCPushBack", "MCPopFront", "MCPopBack", "MCFront", "MCBack", "MCInsertBefore",
               "MCInsertAfter", "MCRemove", "MCSwapNodes", "MCSwapContents", "MCMoveAllBack", "MCMoveAllFront")])
    rng = random.Random(ctx.seed)
    # 2. model -> code
    al_scripts, _ = tlc.gen_scripts("ArrayList", "ArrayListMC", "Gen.cfg", ctx.outdir, num=420 if not thorough else 6000,
                                    depth=45, seed=ctx.seed, workers=4)
    al_scripts = al_scripts[:1200 if not thorough else 20000]
    al_execs = [al_from_tlc(s, SIZES[i % len(SIZES)]) for i, s in enumerate(al_scripts)]
    ll_scripts, _ = tlc.gen_scripts("LinkedList", "LinkedListMC", "Gen.cfg", ctx.outdir, num=300 if not thorough else 5000,
                                    depth=45, seed=ctx.seed, workers=4)
    ll_scripts = ll_scripts[:1200 if not thorough else 20000]
    ll_execs = [ll_from_tlc(s) for s in ll_scripts]
    ctx.extra["tlc_generated_scripts"] = {"array_list": len(al_execs), "linked_list": len(ll_execs)}
    # 3. seeded random drivers
    n_al = 1400 if not thorough else 40000
    n_ll = 1200 if not thorough else 30000
    for _ in range(n_al):
        al_execs.append(al_random(rng, rng.randint(10, 60)))
    for _ in range(n_ll):
        ll_execs.append(ll_random(rng, rng.randint(8, 60)))
    # where the lists keep their storage is a parameter of the environment, not of the sequence: in a quarter of the
    # executions with a dynamic list it is an arena that packs blocks back to back, and the element handed to push / set_at
    # lies directly behind the block handed out last (arraylist_adapter.c "packed")
    al_execs = [[ex[0] + " packed"] + ex[1:] if (" dyn " in ex[0] + " " and rng.random() < 0.25) else ex for ex in al_execs]
    ctx.extra["random_scripts"] = {"array_list": n_al, "linked_list": n_ll}
    changing = ("PUSH", "POP", "SET", "ERASE", "SWAP", "SORT", "COPY", "CLEAR", "INS", "REMOVE", "MOVE")
    for ex in al_execs + ll_execs:
        ctx.evaluations += 1
        if sum(1 for ln in ex if ln.startswith(changing)) >= 6:
            ctx.distinct.add(hash("\n".join(ex)))
    ctx.add_sample({"array_list_script": al_execs[0][:14]})
    ctx.add_sample({"array_list_script": al_execs[-1][:14]})
    ctx.add_sample({"linked_list_script": ll_execs[0][:14]})
    ctx.add_sample({"linked_list_script": ll_execs[-1][:14]})
    # 4. code -> model
    # the build directory is shared and pruned by other runs: make sure the executables (still) exist right before use
    al_exe, ll_exe = prepare(ctx)
    pipeline.drive_and_validate(ctx, al_exe, al_execs, "ArrayList", "ArrayListTrace", "Trace.cfg", label="al")
    al_exe, ll_exe = prepare(ctx)
    pipeline.drive_and_validate(ctx, ll_exe, ll_execs, "LinkedList", "LinkedListTrace", "Trace.cfg", label="ll")
    ctx.extra["diagnostic_executions_with_unreleased_blocks"] = leak_diagnostic(ctx, "al")
    # lists of their own on several threads at once (Stateless.tla, see C06) + ThreadSanitizer pass
    from checks import stateless_common
    stateless_common.drive(ctx, ["la", "la", "qp"], thorough, n=40 if not thorough else 1000)
