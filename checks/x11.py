"""X11 (extra) the library's parsers and codecs on several threads at once: Stateless.tla (an operation has one outcome,
whoever performs it and whatever else is going on), StatelessMC.tla (why that needs every interleaving: a shared scratch
area is refuted), real threads under the controlled scheduler + ThreadSanitizer pass.  The same family is part of C04, C10,
C11, C12, C13 and C19 with the kinds each of them is about; here all kinds are mixed in one scenario."""
from checks import stateless_common as sl

LEVEL = "model_checking"


def prepare(ctx):
    from vlib import build
    return build.build_harness(sl.HARNESS, [sl.HARNESS + ".c"], cflags=["-Wno-unused-function"], wrap=True)


def run(ctx):
    thorough = ctx.tier == "thorough"
    ctx.rule = ("execution = scenario (3-10 operations: XML traversal with skip / body / descend, URI parse, percent-coding, "
                "JSON parse + serialise + duplicate, CBOR walk + skip, date-time parse + format; well-formed and damaged "
                "inputs; 2-3 threads performing 3-12 of them each, then the main thread alone) x schedule; distinct = "
                "distinct (scenario, policy); non-trivial = at least two threads perform operations of the same kind")
    n = sl.drive(ctx, ["xml", "uri", "pct", "json", "cbor", "date"], thorough, n=150 if not thorough else 4000)
    ctx.evaluations += n
    ctx.extra["executions"] = n
