"""C11 JSON: JsonValue.tla (value trees, an RFC 8259 parser written in TLA+, the object/array API as a state machine)
model-checked; API programs and texts (TLC-generated + seeded random trees of depth <= 4, one family at the nesting
limit) run on the real aws_json_* API; every call is validated by JsonValueTrace.tla - the serialiser's compact and
formatted output is Parsed by the specification and must read as the tree that was serialised."""
import glob
import os
import random
import re
import struct
import sys

from vlib import build, pipeline, tlc

LEVEL = "model_checking"
SPEC_DIR = "Json"
NEST_LIMIT = 1000          # CJSON_NESTING_LIMIT

# known_findings.txt records (status "known" only) that enable a deviation action of JsonValueTrace.tla
DEV_OF_ID = {"F11": "RMSIZE"}
DEV_TEXT = {"RMSIZE": "aws_json_value_remove_array_element(array, index == size) returns AWS_OP_SUCCESS and removes nothing "
                      "(json.c tests index > size; json.h: AWS_OP_ERR if the index is out of range)"}

# same table as Scalars in JsonValueMC.tla (index = scalar id of TLC-generated scripts)
TLC_SCALARS = ["null", "bool 1", "bool 0", "str " + bytes([97, 34, 92, 10, 1, 195, 169]).hex(), "str -", "num -0.00125", "num 42",
               "obj", "arr"]

KEYS = [b"a", b"b", b"k1", b"", "é".encode(), b'k"y', b"sp ace", b"\n", "名".encode(), b"x/y", b"\\", b"key_with_longer_name",
        "\U0001f600".encode(), b"\x01", b"\x7f", b"0"]        # no upper-case letters: no two keys differ only in case
# near-miss families: different keys that a sloppy comparison takes for the same one - non-letter bytes that differ only in
# bit 5 (what folding letter case does to a letter), a key and its proper prefix, keys that differ in the last byte or in
# a high bit
NEAR = [[b"k[", b"k{"], [b"a\\b", b"a|b"], [b"]", b"}"], [b"x^", b"x~"], [b"_", b"\x7f"], [b"@", b"`"], [b"ab", b"abc", b"abd"],
        [b"items[0", b"items{0"], [b"0", b"\x10", b"p"], ["\u00e9".encode(), "\u00c9".encode()], [b"1", b"\x11", b"q"]]


def pick_keys(rng, n):
    """n distinct keys; every third time with a complete near-miss family among them"""
    if n >= 2 and rng.random() < 0.35:
        fam = rng.choice(NEAR)
        rest = [k for k in rng.sample(KEYS, min(len(KEYS), n)) if k not in fam]
        keys = (list(fam) + rest)[:max(n, len(fam))]
        rng.shuffle(keys)
        return keys
    return rng.sample(KEYS, min(n, len(KEYS)))
STR_ATOMS = [b"a", b"Z", b" ", b'"', b"\\", b"/", b"\b", b"\f", b"\n", b"\r", b"\t", b"\x01", b"\x1f", b"\x7f", "é".encode(), "ß".encode(),
             "€".encode(), "名".encode(), "퟿".encode("utf-8", "surrogatepass") if False else "߿".encode(), "￿".encode(),
             "\U0001f600".encode(), "\U00010000".encode(), "\U0010ffff".encode(), b"u0041", b"\\u", b"</script>", b"%s", b"'"]
NUMS_FEW = ["0", "-0", "1", "-1", "42", "2147483647", "2147483648", "-2147483648", "-2147483649", "4294967296", "9007199254740992",
            "999999999999999", "100000000000000", "1e15", "1e21", "1e22", "-1e22", "0.1", "0.3", "1.5", "-2.5", "1e-7", "1.5e-7", "123456.789",
            "1e300", "-1e300", "1e-300", "2.5e-308", "0.000001", "0.0001", "123456789012345", "0.123456789012345", "1.7976931348623e308",
            "3.14159265358979", "6.02214076e23", "1e100", "5e-1", "250", "1e5", "65536", "16777216.5", "-123.456e-20"]
NUMS_MANY = ["9007199254740993", "0.30000000000000004", "1.7976931348623157e308", "2.2250738585072014e-308", "4.9406564584124654e-324",
             "2.2250738585072009e-308", "1e-320", "-4.9406564584124654e-324", "0.1000000000000000055", "3.141592653589793", "2.718281828459045",
             "1.0000000000000002", "0.9999999999999999", "123456789.12345679", "18446744073709551616", "9223372036854775807", "1e23",
             "8.5e-324", "1234567890123456", "12345678901234567", "562949953421311.875"]


def prepare(ctx):
    return build.build_harness("json_adapter", ["json_adapter.c"], cflags=["-Wno-unused-function"])


def hx(b):
    return bytes(b).hex() if len(b) else "-"


# ------------------------------------------------------------------------------------------------ random trees
def rand_str(rng, maxlen=8):
    out = b""
    for _ in range(rng.choice([0, 1, 1, 2, 3, 4])):
        a = rng.choice(STR_ATOMS)
        if len(out) + len(a) > maxlen:
            break
        out += a
    return out


def rand_num(rng):
    r = rng.random()
    if r < 0.45:
        return rng.choice(NUMS_FEW)
    if r < 0.6:
        return rng.choice(NUMS_MANY)
    if r < 0.7:
        return str(rng.choice([1, -1]) * rng.getrandbits(rng.choice([4, 16, 31, 32, 33, 53, 54, 63])))
    d = struct.unpack(">d", struct.pack(">Q", rng.getrandbits(64)))[0]
    while d != d or d in (float("inf"), float("-inf")):
        d = struct.unpack(">d", struct.pack(">Q", rng.getrandbits(64)))[0]
    if r < 0.8:
        d = rng.uniform(-1000, 1000)
    if r < 0.9:
        return "%.15g" % d            # at most 15 significant digits
    return "%.17g" % d                # exact rendering of a double


def rand_tree(rng, depth, budget, top=True):
    r = rng.random()
    if depth <= 0 or budget[0] <= 1 or (not top and r < 0.5):
        budget[0] -= 1
        k = rng.random()
        if k < 0.30:
            return ("str", rand_str(rng))
        if k < 0.65:
            return ("num", rand_num(rng))
        if k < 0.8:
            return ("bool", rng.random() < 0.5)
        if k < 0.9:
            return ("null",)
        return rng.choice([("obj", []), ("arr", [])])
    budget[0] -= 1
    n = rng.choice([0, 1, 2, 2, 3, 4])
    if r < 0.75 if top else r < 0.78:
        keys = pick_keys(rng, n)
        return ("obj", [(k, rand_tree(rng, depth - 1, budget, False)) for k in keys])
    return ("arr", [rand_tree(rng, depth - 1, budget, False) for _ in range(n)])


def build_api(rng, node, free, ops):
    """emits script lines that build `node` through the API; returns the slot that holds it"""
    s = free.pop(0)
    t = node[0]
    if t == "null":
        ops.append("NEW %d null" % s)
    elif t == "bool":
        ops.append("NEW %d bool %d" % (s, 1 if node[1] else 0))
    elif t == "str":
        ops.append("NEW %d %s %s" % (s, rng.choice(["str", "cstr"]), hx(node[1])))
    elif t == "num":
        ops.append("NEW %d num %s" % (s, node[1]))
    elif t == "arr":
        ops.append("NEW %d arr" % s)
        for ch in node[1]:
            c = build_api(rng, ch, free, ops)
            ops.append("ADDARR %d %d" % (s, c))
            free.insert(0, c)
    else:
        ops.append("NEW %d obj" % s)
        for k, ch in node[1]:
            c = build_api(rng, ch, free, ops)
            ops.append("ADDOBJ %d %s %d%s" % (s, hx(k), c, " cstr" if rng.random() < 0.4 else ""))
            free.insert(0, c)
    return s


def round_trips(rng, s, tmp, dup):
    """serialise slot s compact and formatted, parse each back into tmp, relate; duplicate into dup and compare"""
    ops = []
    for fmt in (0, 1):
        pre = rng.choice([0, 0, 1, 5])
        ops += ["PRINT %d %d %d %d" % (s, fmt, rng.choice([0, 1, 16, 64, 4096]), pre), "PARSELAST %d" % tmp, "RT %d %d" % (s, tmp),
                "CMP %d %d" % (s, tmp), "DESTROY %d" % tmp]
    ops += ["DUP %d %d" % (s, dup), "CMP %d %d" % (s, dup), "CMP %d %d" % (dup, s), "PRINT %d %d 0 0" % (dup, rng.choice([0, 1])), "DESTROY %d" % dup]
    return ops


def ex_build(rng, depth):
    tree = rand_tree(rng, depth, [rng.randint(3, 25)])
    ops = ["RESET"]
    free = [0, 1, 2, 3, 4, 5]
    s = build_api(rng, tree, free, ops)
    ops += round_trips(rng, s, 6, 7)
    return ops


def ex_object(rng):
    ops = ["RESET", "NEW 0 obj"]
    keys = pick_keys(rng, rng.randint(2, 5))
    present = []
    pending = None           # a value that was refused and is still owned by slot 1
    for _ in range(rng.randint(6, 22)):
        r = rng.random()
        k = rng.choice(keys)
        if r < 0.35:
            if pending is None:
                leaf = rand_tree(rng, 0, [1])
                build_api(rng, leaf, [1], ops)
            ops.append("ADDOBJ 0 %s 1%s" % (hx(k), " cstr" if rng.random() < 0.3 else ""))
            if k in present:
                pending = True                      # refused: slot 1 still holds the value
            else:
                present.append(k)
                pending = None
        elif r < 0.55:
            ops.append("GETOBJ 0 %s%s" % (hx(k), " cstr" if rng.random() < 0.3 else ""))
        elif r < 0.7:
            ops.append("HAS 0 %s%s" % (hx(k), " cstr" if rng.random() < 0.3 else ""))
        elif r < 0.9:
            ops.append("RMOBJ 0 %s%s" % (hx(k), " cstr" if rng.random() < 0.3 else ""))
            if k in present:
                present.remove(k)
        else:
            ops += ["PRINT 0 %d 0 0" % rng.choice([0, 1]), "PARSELAST 6", "RT 0 6", "DESTROY 6"]
    if pending:
        ops.append("DESTROY 1")
    # operations on something that is not an object
    ops += ["NEW 2 arr", "NEW 3 null", "ADDOBJ 2 %s 3" % hx(b"a"), "GETOBJ 2 %s" % hx(b"a"), "HAS 3 %s" % hx(b"a"), "RMOBJ 2 %s" % hx(b"a")]
    ops += round_trips(rng, 0, 6, 7)
    return ops


def ex_array(rng, at_size):
    ops = ["RESET", "NEW 0 arr"]
    size = 0
    for _ in range(rng.randint(6, 22)):
        r = rng.random()
        if r < 0.4 or size == 0 and r < 0.6:
            leaf = rand_tree(rng, rng.choice([0, 0, 1]), [3])
            c = build_api(rng, leaf, [1, 2, 3], ops)
            ops.append("ADDARR 0 %d" % c)
            size += 1
        elif r < 0.6:
            ops.append("GETARR 0 %d" % rng.choice([0, max(0, size - 1), size, size + 1, rng.randrange(size + 1)]))
        elif r < 0.7:
            ops.append("SIZE 0")
        elif r < 0.9:
            cands = [0, max(0, size - 1), size + 1, size + 7, rng.randrange(size + 1)] + ([size] if at_size else [])
            i = rng.choice(cands)
            if i == size and not at_size:
                i = size + 1
            ops.append("RMARR 0 %d" % i)
            if i < size:
                size -= 1
            ops.append("SIZE 0")
        else:
            ops += ["PRINT 0 %d 0 0" % rng.choice([0, 1]), "PARSELAST 6", "RT 0 6", "DESTROY 6"]
    ops += ["NEW 4 obj", "NEW 5 null", "ADDARR 4 5", "GETARR 4 0", "SIZE 4", "RMARR 4 0"]
    ops += round_trips(rng, 0, 6, 7)
    return ops


def ex_transplant(rng):
    """values moving between containers: a member of an object / an element of an array is duplicated while it is still
    inside its container (JsonValue!DuplicateSub) and the duplicate is added to the other container or to the same one, read
    back, removed again; whole containers are duplicated into each other; every step is followed by observations of both"""
    ops = ["RESET", "NEW 0 obj", "NEW 2 arr", "NEW 5 obj"]        # 5: a second object, for members that move under another spelling of their key
    keys = pick_keys(rng, rng.randint(2, 4))
    present, size, moved = [], 0, []
    for k in keys[: rng.randint(1, len(keys))]:
        build_api(rng, rand_tree(rng, rng.choice([0, 0, 1]), [3]), [1, 4], ops)
        ops.append("ADDOBJ 0 %s 1" % hx(k))
        present.append(k)
    for _ in range(rng.randint(1, 3)):
        build_api(rng, rand_tree(rng, rng.choice([0, 0, 1]), [3]), [1, 4], ops)
        ops.append("ADDARR 2 1")
        size += 1
    fresh = 0
    for _ in range(rng.randint(3, 9)):
        r = rng.random()
        if r < 0.45 and present:                                 # object member -> array / another key of the object
            ops.append("DUPOBJ 0 %s 3" % hx(rng.choice(present)))
            if rng.random() < 0.7:
                ops += ["ADDARR 2 3", "SIZE 2", "GETARR 2 %d" % size]
                size += 1
            else:
                fresh += 1
                nk = b"t%d" % fresh
                ops += ["ADDOBJ 0 %s 3" % hx(nk), "GETOBJ 0 %s" % hx(nk)]
                present.append(nk)
        elif r < 0.8 and size:                                   # array element -> object / the array itself
            ops.append("DUPARR 2 %d 3" % rng.randrange(size))
            if rng.random() < 0.6:
                fresh += 1
                nk = b"u%d" % fresh
                ops += ["ADDOBJ 0 %s 3" % hx(nk), "GETOBJ 0 %s" % hx(nk), "HAS 0 %s" % hx(nk)]
                present.append(nk)
            else:
                ops += ["ADDARR 2 3", "SIZE 2", "GETARR 2 %d" % size]
                size += 1
        elif r < 0.86 and present:                               # object member -> the second object, under its own key, another
            k = rng.choice(present)                              # spelling of it (letter case) or an unrelated key
            nk = rng.choice([k, k.swapcase(), k.upper(), k.lower(), b"z" + k])
            if nk not in moved and nk.lower() not in [m.lower() for m in moved]:
                ops += ["DUPOBJ 0 %s 3" % hx(k), "ADDOBJ 5 %s 3" % hx(nk), "GETOBJ 5 %s" % hx(nk), "PRINT 5 %d 0 0" % rng.choice([0, 1]),
                        "PARSELAST 6", "RT 5 6", "CMP 5 6", "DESTROY 6"]
                moved.append(nk)
        elif r < 0.9:                                            # a whole container into the other one
            if rng.random() < 0.5:
                ops += ["DUP 0 3", "ADDARR 2 3", "SIZE 2", "GETARR 2 %d" % size]
                size += 1
            else:
                fresh += 1
                nk = b"w%d" % fresh
                ops += ["DUP 2 3", "ADDOBJ 0 %s 3" % hx(nk), "GETOBJ 0 %s" % hx(nk)]
                present.append(nk)
        else:                                                    # missing key / index beyond the end: nothing is made
            ops += ["DUPOBJ 0 %s 3" % hx(b"nokey"), "DUPARR 2 %d 3" % (size + rng.choice([0, 1, 5]))]
        if rng.random() < 0.4:
            w = rng.choice([0, 2])
            ops += ["PRINT %d %d 0 0" % (w, rng.choice([0, 1])), "PARSELAST 6", "RT %d 6" % w, "CMP %d 6" % w, "DESTROY 6"]
    ops += round_trips(rng, 0, 6, 7) + round_trips(rng, 2, 6, 7)
    return ops


# ------------------------------------------------------------------------------------------------ texts
def render_str(rng, b):
    out = '"'
    for ch in b.decode("utf-8"):
        c = ord(ch)
        r = rng.random()
        if ch == '"':
            out += '\\"' if r < 0.8 else "\\u0022"
        elif ch == "\\":
            out += "\\\\" if r < 0.8 else "\\u005c"
        elif ch == "/":
            out += "\\/" if r < 0.4 else "/"
        elif c < 32:
            short = {8: "\\b", 12: "\\f", 10: "\\n", 13: "\\r", 9: "\\t"}
            out += short[c] if c in short and r < 0.6 else "\\u%04x" % c
        elif c < 128:
            out += ch if r < 0.9 else "\\u%04X" % c
        elif r < 0.5:
            out += ch
        elif c < 0x10000:
            out += ("\\u%04x" if r < 0.75 else "\\u%04X") % c
        else:
            v = c - 0x10000
            out += "\\u%04x\\u%04x" % (0xD800 + (v >> 10), 0xDC00 + (v & 0x3FF))
    return out + '"'


def render_num(rng, txt):
    """a number token with the same decimal value as txt, in another of the forms the grammar allows"""
    r = rng.random()
    m = re.match(r"^(-?)(\d+)$", txt)
    if m and r < 0.3 and len(m.group(2)) <= 12:
        return txt + rng.choice([".0", ".000", "e0", "E+0", "e-0"])
    if "e" in txt and r < 0.5:
        return txt.replace("e", rng.choice(["E", "e+"]) if "e-" not in txt and "e+" not in txt else "E")
    return txt


def render_text(rng, node, pretty, d=0):
    ws = (lambda: rng.choice(["", " ", "\n", "\t", "\r\n", "  "])) if pretty else (lambda: "")
    t = node[0]
    if t == "null":
        return "null"
    if t == "bool":
        return "true" if node[1] else "false"
    if t == "str":
        return render_str(rng, node[1])
    if t == "num":
        return render_num(rng, node[1])
    if t == "arr":
        return "[" + ws() + ("," + ws()).join(render_text(rng, c, pretty, d + 1) + ws() for c in node[1]) + "]"
    return "{" + ws() + ("," + ws()).join(render_str(rng, k) + ws() + ":" + ws() + render_text(rng, c, pretty, d + 1) + ws() for k, c in node[1]) + "}"


def text_safe_num(rng):
    """numerals whose decimal value the parsed double reproduces at 15 or 17 digits (see the evidence assumptions)"""
    while True:
        n = rand_num(rng)
        v = float(n)
        if v == 0 or 1e-300 < abs(v) < 1e300:
            digits = re.sub(r"[-.]|e.*$", "", n).strip("0")
            if len(digits) <= 15 or n == "%.17g" % v:
                return n
        elif n == "%.17g" % v:
            return n


def retree_for_text(rng, node):
    t = node[0]
    if t == "num":
        return ("num", text_safe_num(rng))
    if t == "arr":
        return ("arr", [retree_for_text(rng, c) for c in node[1]])
    if t == "obj":
        return ("obj", [(k, retree_for_text(rng, c)) for k, c in node[1]])
    return node


def ex_text(rng, depth):
    tree = retree_for_text(rng, rand_tree(rng, depth, [rng.randint(3, 25)], top=rng.random() < 0.8))
    text = render_text(rng, tree, rng.random() < 0.6)
    text = rng.choice(["", " ", "\n"]) + text + rng.choice(["", " ", "\n", "\r\n\t"])
    ops = ["RESET", "PARSE 0 %s" % hx(text.encode("utf-8"))]
    ops += round_trips(rng, 0, 6, 7)
    return ops


def ex_nest(rng, depth):
    kind = rng.choice(["arr", "obj", "mix"])
    inner = rng.choice(["1", '"x"', "null", "[]", "{}"])
    open_, close_ = "", ""
    for i in range(depth - (1 if inner in ("[]", "{}") else 0)):        # an empty container is a level of its own
        o = kind == "obj" or (kind == "mix" and i % 2 == 1)
        open_ += '{"k":' if o else "["
        close_ = ("}" if o else "]") + close_
    text = open_ + inner + close_
    # aws_json_value_compare visits the members of nested objects from both sides (2^depth calls): only compared for arrays
    cmp6, cmp7 = (["CMP 0 6"], ["CMP 0 7"]) if kind == "arr" else ([], [])
    return (["RESET", "FLAT 1", "PARSE 0 %s" % hx(text.encode()), "PRINT 0 0 0 0", "PARSELAST 6", "RT 0 6"] + cmp6 +
            ["DESTROY 6"] + (["PRINT 0 1 0 0", "PARSELAST 6", "RT 0 6", "DESTROY 6"] if depth <= 100 else []) +   # indentation is quadratic
            ["DUP 0 7"] + cmp7)


def ex_wide(rng, n, elem=None):
    """many sibling containers in one text (a counter or buffer kept per parse call sees every one of them): n elements
    or members, each an empty or one-element container, optionally under a few levels of nesting"""
    elem = elem or rng.choice([["{}"], ["[]"], ["{}", "[]"], ['{"a":1}', "[2]", "{}", "[]", '""', "0"], ["[[]]", '{"k":{}}']])
    items = [rng.choice(elem) for _ in range(n)]
    if n <= 300 and rng.random() < 0.3:              # (the model's member lookup is quadratic: objects stay smaller)
        body = "{" + ",".join('"k%d":%s' % (i, it) for i, it in enumerate(items)) + "}"
    else:
        body = "[" + rng.choice([",", ", ", " ,\n"]).join(items) + "]"
    d = rng.choice([0, 0, 1, 3])
    text = "[" * d + body + "]" * d
    return ["RESET", "PARSE 0 %s" % hx(text.encode()), "SIZE 0", "PRINT 0 0 0 0", "PARSELAST 6", "RT 0 6", "DESTROY 6",
            "PRINT 0 1 0 0", "PARSELAST 6", "RT 0 6", "CMP 0 6", "DESTROY 6", "DUP 0 7", "CMP 0 7"]


def from_tlc(s):
    ops = ["RESET"]
    for o in s["ops"]:
        op, a, b, k, i = o["op"], o["a"], o["b"], bytes(o["k"]), o["i"]
        if op == "NEW":
            ops.append("NEW %d %s" % (a, TLC_SCALARS[i - 1]))
        elif op == "DESTROY":
            ops.append("DESTROY %d" % a)
        elif op == "ADDOBJ":
            ops.append("ADDOBJ %d %s %d" % (a, hx(k), b))
        elif op in ("GETOBJ", "HAS", "RMOBJ"):
            ops.append("%s %d %s" % (op, a, hx(k)))
        elif op == "ADDARR":
            ops.append("ADDARR %d %d" % (a, b))
        elif op in ("GETARR", "RMARR"):
            ops.append("%s %d %d" % (op, a, i))
        elif op == "SIZE":
            ops.append("SIZE %d" % a)
        elif op == "DUP":
            ops.append("DUP %d %d" % (a, b))
        elif op == "CMP":
            ops.append("CMP %d %d" % (a, b))
        elif op == "PRINT":
            ops.append("PRINT %d %d 0 1" % (a, i))
            ops.append("#last %d" % a)
        elif op == "PARSEOF":
            ops.append("?PARSEOF %d %d" % (a, b))
        elif op == "RT":
            ops.append("?RT %d %d" % (a, b))
    # the model parses any text printed from the slot; the harness can only re-read the last text it produced:
    # keep PARSEOF / RT only where they refer to it, drop the rest together with everything that depends on the slot
    out, last, dead = [], None, set()
    for ln in ops:
        w = ln.split()
        if w[0] == "#last":
            last = int(w[1])
            continue
        if w[0] == "?PARSEOF":
            d, src = int(w[1]), int(w[2])
            if src == last and src not in dead:
                out.append("PARSELAST %d" % d)
                dead.discard(d)
            else:
                dead.add(d)
            continue
        if w[0] == "?RT":
            if int(w[1]) not in dead and int(w[2]) not in dead:
                out.append("RT %s %s" % (w[1], w[2]))
            continue
        slots = [int(x) for x in w[1:] if re.fullmatch(r"\d", x)] if w[0] not in ("RESET",) else []
        if w[0] in ("NEW",):
            dead.discard(int(w[1]))
        if any(x in dead for x in slots[:2]) and w[0] != "NEW":
            if w[0] == "DUP":
                dead.add(int(w[2]))
            break                        # stop the script at the first operation on a value the harness does not have
        if w[0] in ("ADDOBJ", "ADDARR", "RMOBJ", "RMARR", "DESTROY") and int(w[1]) == last:
            pass                         # the specification forgets printed texts itself when the value changes
        out.append(ln)
    return out


# ------------------------------------------------------------------------------------------------ run
def known_devs(ctx):
    recs = list(ctx.known)
    alt = os.environ.get("VERIF_KNOWN_FILE")          # test seam: an additional file in the known_findings.txt format
    if alt and os.path.exists(alt):
        for line in open(alt):
            m = re.match(r"known: property=(\S+) id=(\S+) (.*)$", line.strip())
            if m and m.group(1) == ctx.pid:
                recs.append({"status": "known", "property": m.group(1), "id": m.group(2), "what": m.group(3), "commit": ""})
    return {DEV_OF_ID[r["id"]]: r for r in recs if r.get("status") == "known" and r.get("property") == ctx.pid and r.get("id") in DEV_OF_ID}


def run(ctx):
    thorough = ctx.tier == "thorough"
    exe = prepare(ctx)
    sys.setrecursionlimit(max(sys.getrecursionlimit(), 20000))
    ctx.rule = ("evaluation = one public aws_json_* call (one trace event); execution = one API program or one parsed text with "
                "its compact and formatted round trips; distinct = distinct execution text; non-trivial = contains a container "
                "with a member and a serialisation")
    ctx.assumptions += [
        "the independent parser of the statement is Parse in JsonValue.tla (RFC 8259: strict number grammar, no raw control "
        "characters, escapes incl. surrogate pairs -> UTF-8, no trailing commas / garbage); it is checked on the model against a "
        "reference renderer and against a table of 91 good / 66 bad texts whose trees come from another JSON implementation",
        "a double is only ever its decimal numerals: the harness renders every number it reads from the library with printf "
        "%.15g and %.17g and flags few = (strtod of the 15-digit text == the double); TLC compares numerals. A number token "
        "must be the 15- or the 17-digit numeral of the double; 'unchanged' = same 17-digit numeral; the sign of zero is ignored",
        "OUTSIDE THE TECHNIQUE: 'otherwise within one part in 2^52' is numeric accuracy; the harness computes |x'-x| <= |x|*2^-52 "
        "in C for every number of the two trees and the specification merely requires the flags to be true",
        "keys that differ only in letter case are never used (cJSON looks keys up case-insensitively, the statement does not say "
        "what must happen); strings and keys never contain NUL; numbers are finite; member names within an object are distinct",
        "numerals in texts given to the parser have <= 15 significant digits inside 1e-300..1e300, or are exact %.17g renderings",
        "compare is only required to report a duplicate / identical tree as equal and values of different kinds (or different "
        "strings / booleans) as different; allocation cannot fail; error codes are not compared",
        "exhaustive only on the model (3 slots, 2 keys, 5 scalars, <= 4 nodes)",
    ]
    if not os.environ.get("VERIF_C11_SKIP_MC"):      # development aid for mutation runs (the model does not depend on the library)
        ctx.mc(SPEC_DIR, "JsonValueMC", "MC.cfg" if not thorough else "MC_thorough.cfg", timeout=3000, xmx="8g",
               required_actions=["JsonValueMC!MCNew", "JsonValueMC!MCAddObj", "JsonValueMC!MCRmObj", "JsonValueMC!MCAddArr",
                                 "JsonValueMC!MCRmArr", "JsonValueMC!MCDup", "JsonValueMC!MCPrint", "JsonValueMC!MCParse",
                                 "JsonValueMC!MCRoundTrip", "JsonValueMC!MCGetObj", "JsonValueMC!MCGetArr", "JsonValueMC!MCCompare"])
    scripts, _ = tlc.gen_scripts(SPEC_DIR, "JsonValueMC", "Gen.cfg", ctx.outdir, num=300 if not thorough else 5000, depth=41,
                                 seed=ctx.seed, workers=4)
    execs = [from_tlc(s) for s in scripts]
    execs = [e for e in execs if len(e) > 4]
    random.Random(ctx.seed).shuffle(execs)
    execs = execs[:700 if not thorough else 8000]
    ctx.extra["tlc_generated_scripts"] = len(execs)
    rng = random.Random(ctx.seed)
    mult = 1 if not thorough else 12
    devs = known_devs(ctx)
    # reproduction of the known finding first (DESIGN 3.3: always executed)
    execs.insert(0, ["RESET", "NEW 0 arr", "NEW 1 null", "ADDARR 0 1", "NEW 1 bool 1", "ADDARR 0 1", "SIZE 0", "RMARR 0 2", "SIZE 0", "RMARR 0 3",
                     "RMARR 0 1", "RMARR 0 1", "RMARR 0 0", "RMARR 0 0", "SIZE 0"])
    for _ in range(480 * mult):
        execs.append(ex_build(rng, rng.choice([1, 2, 3, 4, 4])))
    for _ in range(250 * mult):
        execs.append(ex_object(rng))
    for _ in range(250 * mult):
        execs.append(ex_array(rng, at_size=True))
    for _ in range(150 * mult):
        execs.append(ex_transplant(rng))
    for _ in range(560 * mult):
        execs.append(ex_text(rng, rng.choice([0, 1, 2, 3, 4, 4])))
    wide = []
    # every kind of sibling x a count beyond the parser's nesting limit (the model's parser is quadratic in the count)
    for elem in (["{}"], ["[]"], ['{"a":1}', "[2]"]) if not thorough else (["{}"], ["[]"], ['{"a":1}'], ["[2]"], ["{}", "[]"], ["[[]]", '{"k":{}}'], ['""', "0"]):
        wide.append(ex_wide(rng, NEST_LIMIT + 100 if len(elem[0]) == 2 or thorough else 400, elem))
    for n in ([300, 40, 40] if not thorough else [1500, 999, 1000, 1001, 300, 300, 40, 40, 40]):
        wide.append(ex_wide(rng, n))
    nest = wide + [ex_nest(rng, d) for d in ([NEST_LIMIT, NEST_LIMIT, NEST_LIMIT - 1, 100, 64, 30] if not thorough else [NEST_LIMIT] * 6 + [NEST_LIMIT - 1, 999, 500, 100, 100, 64, 64])]
    ctx.extra["driver_executions"] = len(execs) + len(nest) - ctx.extra["tlc_generated_scripts"]
    for ex in execs:
        txt = "\n".join(ex)
        if ("ADDOBJ" in txt or "ADDARR" in txt or "PARSE " in txt) and "PRINT" in txt:
            ctx.distinct.add(hash(txt))
    ctx.add_sample({"script": execs[0]})
    ctx.add_sample({"script": [ln[:200] for ln in execs[len(execs) // 2][:16]]})
    ctx.add_sample({"script": [ln[:200] for ln in execs[-1][:6]]})
    tlc_env = {"VERIF_DEV_" + d: "1" for d in devs}
    fired = {}

    def on_fired(info):
        for ln in info.printed:
            m = re.match(r'<<"FIRED", "(\w+)", (-?\d+)>>', ln)
            if m:
                fired[m.group(1)] = fired.get(m.group(1), 0) + 1

    # the nesting-limit executions need a deep Java stack for the recursive TLA+ operators (every batch gets it); they are
    # spread over the batches
    step = max(1, len(execs) // (len(nest) + 1))
    for k, ex in enumerate(nest):
        execs.insert(min(len(execs), (k + 1) * step + k), ex)
    tlc_env["JAVA_TOOL_OPTIONS"] = "-Xss1g"
    pipeline.drive_and_validate(ctx, exe, execs, SPEC_DIR, "JsonValueTrace", "Trace.cfg", label="json", nbatch=16, tlc_env=tlc_env,
                                on_fired=on_fired)
    # the process-locale family (lib/vlib/locale8.py): a slice of the same executions in a process that called setlocale()
    # - an 8-bit character set with accented letters, and a decimal comma
    from vlib import locale8
    locale8.rerun(ctx, exe, execs[::3] if not thorough else execs, SPEC_DIR, "JsonValueTrace", "Trace.cfg", "json", names=("xx_XX", "yy_YY"),
                  nbatch=8, tlc_env=tlc_env, on_fired=on_fired)
    for nm in sorted(fired):
        rec = devs.get(nm, {})
        ctx.known_finding(rec.get("id", nm), "id=%s %s" % (rec.get("id", nm), rec.get("what", DEV_TEXT[nm])))
        ctx.extra.setdefault("known_finding_events", {})[nm] = fired[nm]
    n = 0
    for tp in glob.glob(os.path.join(ctx.outdir, "json*", "b*.clean.ndjson")):
        with open(tp) as f:
            n += sum(1 for ln in f if '"e":"Reset"' not in ln and '"e":"End"' not in ln)
    ctx.evaluations = n
    # the same parsers on several threads at once (Stateless.tla): one outcome per operation whoever performs it, and a
    # ThreadSanitizer pass over the same scenarios (hidden shared state is a data race whatever the schedule)
    from checks import stateless_common
    stateless_common.drive(ctx, ["json"], thorough, n=40 if not thorough else 1000)
