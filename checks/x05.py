"""X05 (extra) atomics and reference counting: aws_atomic_var (atomics.h / atomics.inl / atomics_gnu.inl) as a sequentially
consistent cell and aws_ref_count (ref_count.h / ref_count.c) on top of it.  Atomics.tla / RefCount.tla state what the
headers document; TLC explores every interleaving of small thread programs (AtomicsMC, RefCountMC); the real functions
run on 1-6 real threads under the controlled scheduler (every atomic access is a schedule point) and every recorded
event is validated against the specification (RefCountTrace.tla); the same scenarios run on the ThreadSanitizer build."""
import random

from vlib import build, pipeline, tlc
from vlib.common import CheckError

LEVEL = "model_checking"
SPEC_DIR = "RefCount"
HARNESS = "refcount_scenario"

M = (1 << 64) - 1
BOUND = [0, 1, 2, 3, M, M - 1, M - 2, 1 << 63, (1 << 63) - 1, (1 << 63) + 1, 0x7FFF, 0x8000, 0x8001, (1 << 30) - 1, 1 << 30,
         (1 << 45) - 1, 1 << 45, (1 << 60) - 1, 1 << 60, (1 << 32) - 1, 1 << 32, 0xAAAAAAAAAAAAAAAA, 0x5555555555555555,
         0xFFFFFFFF00000000, 0x00000000FFFFFFFF, 0xF000000000000000, 0x0FFFFFFFFFFFFFFF]
LOAD_M = "dras"
STORE_M = "drls"
RMW_M = "dralqs"
CAS_M = [("d", "d"), ("r", "r"), ("a", "r"), ("a", "a"), ("l", "r"), ("q", "r"), ("q", "a"), ("s", "r"), ("s", "a"), ("s", "s")]
FETCH = {"fa": lambda a, b: (a + b) & M, "fs": lambda a, b: (a - b) & M, "fo": lambda a, b: a | b, "fn": lambda a, b: a & b,
         "fx": lambda a, b: a ^ b}
STATIC = {3: 0x8000400020001003, 4: 0x00007FFE12345678}


def prepare(ctx):
    return build.build_harness(HARNESS, [HARNESS + ".c"], cflags=["-Wno-unused-function"], wrap=True)


def hx(v):
    return "%x" % (v & M)


def val(rng):
    r = rng.random()
    if r < 0.65:
        return rng.choice(BOUND)
    if r < 0.8:
        return rng.choice(BOUND) ^ (1 << rng.randrange(64))
    return rng.getrandbits(64)


class Seq:
    """One single-threaded execution being written: the driver's own prediction of each cell (used only to choose
    arguments, e.g. a compare-exchange that succeeds; the oracle is the specification)."""

    def __init__(self, rng):
        self.rng = rng
        self.ops = []
        self.cells = {}      # c -> [is_ptr, value]

    def init(self, c, ptr, v):
        self.ops.append("%s:%d:%s" % ("ip" if ptr else "ii", c, hx(v)))
        self.cells[c] = [ptr, v]

    def adopt(self, c):
        self.ops.append("si:%d" % c)
        self.cells[c] = [c == 4, STATIC[c]]

    def k(self, c, i, p):
        return p if self.cells[c][0] else i

    def load(self, c, m):
        self.ops.append("%s:%d:%s" % (self.k(c, "ld", "lp"), c, m))

    def store(self, c, v, m):
        self.ops.append("%s:%d:%s:%s" % (self.k(c, "st", "sp"), c, hx(v), m))
        self.cells[c][1] = v

    def xchg(self, c, v, m):
        self.ops.append("%s:%d:%s:%s" % (self.k(c, "xi", "xp"), c, hx(v), m))
        self.cells[c][1] = v

    def cas(self, c, succeed, d, m, f, use_last=False):
        cur = self.cells[c][1]
        e = cur if succeed else self.rng.choice([cur ^ 1, cur ^ (1 << 63), (cur + 1) & M, val(self.rng)])
        if e == cur and not succeed:
            e = cur ^ 1
        self.ops.append("%s:%d:%s:%s:%s:%s" % (self.k(c, "ci", "cp"), c, "L" if use_last else hx(e), hx(d), m, f))
        if e == cur and not use_last:
            self.cells[c][1] = d
        return e == cur

    def fetch(self, c, op, n, m):
        self.ops.append("%s:%d:%s:%s" % (op, c, hx(n), m))
        self.cells[c][1] = FETCH[op](self.cells[c][1], n)

    def fence(self, m):
        self.ops.append("fe:%s" % m)

    def lines(self):
        return ["PRE " + " ".join(self.ops)]


def matrix_scripts(rng):
    """every operation x flavour x memory order the header allows, boundary operands, both compare-exchange outcomes"""
    todo = []
    for c in (1, 2, 3, 4):       # 1 int, 2 ptr, 3 static int, 4 static ptr
        for m in LOAD_M:
            todo.append(("load", c, m))
        for m in STORE_M:
            todo.append(("store", c, m))
        for m in RMW_M:
            todo.append(("xchg", c, m))
        for m, f in CAS_M:
            todo.append(("cas1", c, m, f))
            todo.append(("cas0", c, m, f))
    for c in (1, 3):
        for op in FETCH:
            for m in RMW_M:
                todo.append(("fetch", c, op, m))
                todo.append(("fetch", c, op, m))
    for m in "ralqs":
        todo.append(("fence", m))
    rng.shuffle(todo)
    out = []
    for i in range(0, len(todo), 34):
        s = Seq(rng)
        s.init(1, False, val(rng))
        s.init(2, True, val(rng))
        s.adopt(3)
        s.adopt(4)
        for t in todo[i:i + 34]:
            kind = t[0]
            if kind == "load":
                s.load(t[1], t[2])
            elif kind == "store":
                s.store(t[1], val(rng), t[2])
                s.load(t[1], rng.choice(LOAD_M))
            elif kind == "xchg":
                s.xchg(t[1], val(rng), t[2])
            elif kind in ("cas1", "cas0"):
                s.cas(t[1], kind == "cas1", val(rng), t[2], t[3])
                s.load(t[1], "d")
            elif kind == "fetch":
                # operands that wrap: the cell near SIZE_MAX / 0 / the high bit half of the time
                if rng.random() < 0.5:
                    s.store(t[1], rng.choice([M, M - 1, 0, 1, 1 << 63, (1 << 63) - 1]), "d")
                s.fetch(t[1], t[2], val(rng), t[3])
            else:
                s.fence(t[1])
        for c in (1, 2, 3, 4):
            s.load(c, "d")
        out.append(s.lines())
    return out


def random_seq(rng):
    s = Seq(rng)
    s.init(1, rng.random() < 0.25, val(rng))
    s.init(2, rng.random() < 0.5, val(rng))
    if rng.random() < 0.5:
        s.adopt(3)
    if rng.random() < 0.3:
        s.adopt(4)
    for _ in range(rng.randint(10, 60)):
        c = rng.choice(list(s.cells))
        r = rng.random()
        if r < 0.12:
            s.load(c, rng.choice(LOAD_M))
        elif r < 0.22:
            s.store(c, val(rng), rng.choice(STORE_M))
        elif r < 0.34:
            s.xchg(c, val(rng), rng.choice(RMW_M))
        elif r < 0.52:
            m, f = rng.choice(CAS_M)
            if rng.random() < 0.2:
                s.load(c, "d")
                s.cas(c, True, val(rng), m, f, use_last=True)      # expected = what the thread last saw: succeeds
                s.cells[c][1] = int(s.ops[-1].split(":")[3], 16)
            else:
                s.cas(c, rng.random() < 0.5, val(rng), m, f)
        elif r < 0.56:
            s.fence(rng.choice("ralqs"))
        elif r < 0.6 and c in (1, 2):
            s.init(c, s.cells[c][0], val(rng))                     # re-initialising a variable nobody else uses
        elif not s.cells[c][0]:
            if rng.random() < 0.15:
                m, f = rng.choice(CAS_M)
                n = rng.choice([1, 2, M, 1 << 63, val(rng)])
                s.ops.append("cl:%d:%s:%s:%s" % (c, hx(n), m, f))
                s.cells[c][1] = (s.cells[c][1] + n) & M
            else:
                s.fetch(c, rng.choice(list(FETCH)), rng.choice([1, 1, 2, M, val(rng), val(rng)]), rng.choice(RMW_M))
        else:
            s.load(c, rng.choice(LOAD_M))
    for c in s.cells:
        s.load(c, "d")
    return s.lines()


# ---- concurrent scenarios ---------------------------------------------------------------------------------------

CORE = [
    ["PRE ii:1:0", "THREAD 1 fa:1:1:d fa:1:1:d", "THREAD 2 fa:1:1:r fs:1:1:q", "MAIN fa:1:5:s", "POST ld:1:d"],
    ["PRE ii:1:ffffffffffffffff", "THREAD 1 fa:1:1:d", "THREAD 2 fa:1:2:a", "THREAD 3 fs:1:3:l fs:1:1:d", "POST ld:1:d"],
    ["PRE ii:1:7fff", "THREAD 1 cl:1:1:d:d cl:1:1:s:a", "THREAD 2 cl:1:8000:q:a", "MAIN fa:1:1:d", "POST ld:1:d"],
    ["PRE ip:2:0", "THREAD 1 cp:2:0:a1:s:s lp:2:a", "THREAD 2 cp:2:0:a2:q:a lp:2:d", "THREAD 3 cp:2:0:a3:d:d", "POST lp:2:d"],
    ["PRE ip:2:100", "THREAD 1 xp:2:1:d xp:2:2:q", "THREAD 2 xp:2:3:a xp:2:4:l", "MAIN xp:2:5:r", "POST lp:2:d"],
    ["PRE ii:1:8000000000000000", "THREAD 1 fo:1:1:d fn:1:fffffffffffffffe:d", "THREAD 2 fx:1:ffffffffffffffff:s fo:1:8000:r",
     "POST ld:1:d"],
    ["PRE ii:1:0 ii:2:0", "THREAD 1 st:1:1:l st:2:1:l", "THREAD 2 ld:2:a ld:1:a", "MAIN xi:1:2:q ci:2:1:3:s:a", "POST ld:1:d ld:2:d"],
    ["PRE ri:1 ra:1", "THREAD 1 rr:1", "MAIN rr:1"],
    ["PRE ri:1 ra:1 ra:1", "THREAD 1 ra:1 rr:1 rr:1", "THREAD 2 rr:1", "MAIN ra:1 rr:1 rr:1"],
    ["PRE ri:1 ri:2 ra:1 ra:2", "THREAD 1 rr:2 ra:1 rr:1 rr:1", "MAIN rr:1 ra:2 rr:2 rr:2"],
    ["PRE ri:1 ra:1 ra:1 ra:1", "THREAD 1 rr:1", "THREAD 2 rr:1", "THREAD 3 ra:1 rr:1 rr:1", "MAIN rr:1"],
    ["PRE ri:1 ii:1:0 ra:1", "THREAD 1 fa:1:1:d rr:1", "MAIN ra:1 fa:1:1:d rr:1 rr:1", "POST ld:1:d"],
]


def rc_word(rng, o, max_acq):
    """a thread that starts with one reference of object o: acquires (only while it holds one) and releases until it
    holds none"""
    held, acq, ops = 1, 0, []
    while held > 0:
        if acq < max_acq and rng.random() < 0.45:
            ops.append("ra:%d" % o)
            held += 1
            acq += 1
        else:
            ops.append("rr:%d" % o)
            held -= 1
    return ops


def merge(rng, a, b):
    out, a, b = [], list(a), list(b)
    while a or b:
        src = a if (a and (not b or rng.random() < 0.5)) else b
        out.append(src.pop(0))
    return out


def atomic_ops(rng, fam, k, tid, ptr2):
    ops = []
    for _ in range(k):
        if fam == "add":
            r = rng.random()
            n = rng.choice([1, 1, 2, 3, M, 0x8000, 1 << 63, val(rng)])
            if r < 0.25:
                m, f = rng.choice(CAS_M)
                ops.append("cl:1:%s:%s:%s" % (hx(n), m, f))
            else:
                ops.append("%s:1:%s:%s" % (rng.choice(["fa", "fa", "fs"]), hx(n), rng.choice(RMW_M)))
        elif fam == "bits":
            ops.append("%s:1:%s:%s" % (rng.choice(["fo", "fn", "fx"]), hx(val(rng)), rng.choice(RMW_M)))
        elif fam == "xchg":
            c = rng.choice([1, 2])
            p = ptr2 and c == 2
            r = rng.random()
            if r < 0.6:
                ops.append("%s:%d:%s:%s" % ("xp" if p else "xi", c, hx(tid * 16 + len(ops) + 1), rng.choice(RMW_M)))
            elif r < 0.8:
                m, f = rng.choice(CAS_M)
                ops.append("%s:%d:L:%s:%s:%s" % ("cp" if p else "ci", c, hx(tid * 16 + len(ops) + 1), m, f))
            else:
                ops.append("%s:%d:%s" % ("lp" if p else "ld", c, rng.choice(LOAD_M)))
        elif fam == "once":
            m, f = rng.choice(CAS_M)
            p = ptr2
            ops.append("%s:2:0:%s:%s:%s" % ("cp" if p else "ci", hx(0xA0 + tid), m, f))
            ops.append("%s:2:%s" % ("lp" if p else "ld", rng.choice(LOAD_M)))
        else:   # mixed
            c = rng.choice([1, 1, 2])
            p = ptr2 and c == 2
            r = rng.random()
            if r < 0.15:
                ops.append("%s:%d:%s" % ("lp" if p else "ld", c, rng.choice(LOAD_M)))
            elif r < 0.3:
                ops.append("%s:%d:%s:%s" % ("sp" if p else "st", c, hx(val(rng)), rng.choice(STORE_M)))
            elif r < 0.45:
                ops.append("%s:%d:%s:%s" % ("xp" if p else "xi", c, hx(val(rng)), rng.choice(RMW_M)))
            elif r < 0.65:
                m, f = rng.choice(CAS_M)
                e = "L" if rng.random() < 0.6 else hx(rng.choice([0, 1, M]))
                ops.append("%s:%d:%s:%s:%s:%s" % ("cp" if p else "ci", c, e, hx(val(rng)), m, f))
            elif r < 0.7:
                ops.append("fe:%s" % rng.choice("ralqs"))
            elif not p:
                ops.append("%s:%d:%s:%s" % (rng.choice(list(FETCH)), c, hx(rng.choice([1, M, val(rng)])), rng.choice(RMW_M)))
            else:
                ops.append("P")
    return ops


def random_concurrent(rng):
    fam = rng.choice(["add", "add", "bits", "xchg", "once", "mixed", "mixed", "rc", "rc", "rc", "rcmix"])
    nth = rng.choice([1, 2, 2, 2, 3, 3, 4])
    ptr2 = rng.random() < 0.5
    lines = []
    if fam in ("rc", "rcmix"):
        nobj = 2 if rng.random() < 0.3 else 1
        pre = []
        prog = {t: [] for t in range(0, nth + 1)}
        for o in range(1, nobj + 1):
            pre.append("ri:%d" % o)
            users = [t for t in range(1, nth + 1) if rng.random() < 0.8]
            pre += ["ra:%d" % o] * len(users)                       # the creator acquires on behalf of each user
            for t in [0] + users:
                prog[t] = merge(rng, prog[t], rc_word(rng, o, rng.choice([0, 1, 2, 3])))
        if fam == "rcmix":
            pre.append("ii:1:%s" % hx(val(rng)))
            for t in prog:
                prog[t] = merge(rng, prog[t], atomic_ops(rng, "add", rng.randint(0, 3), t, False))
        lines.append("PRE " + " ".join(pre))
        for t in range(1, nth + 1):
            lines.append(("THREAD %d " % t + " ".join(prog[t])).rstrip())
        lines.append(("MAIN " + " ".join(prog[0])).rstrip())
        if fam == "rcmix":
            lines.append("POST ld:1:d")
        return lines
    init2 = 0 if fam == "once" else val(rng)
    lines.append("PRE ii:1:%s %s:2:%s" % (hx(val(rng) if fam != "add" or rng.random() < 0.5 else rng.choice([M, M - 1, 0])),
                                          "ip" if ptr2 else "ii", hx(init2)))
    for t in range(1, nth + 1):
        lines.append("THREAD %d " % t + " ".join(atomic_ops(rng, fam, rng.randint(1, 5) if fam != "once" else 1, t, ptr2)))
    if rng.random() < 0.6:
        lines.append("MAIN " + " ".join(atomic_ops(rng, fam, rng.randint(1, 3) if fam != "once" else 1, 0, ptr2)))
    lines.append("POST ld:1:d %s:2:d" % ("lp" if ptr2 else "ld"))
    return lines


def run(ctx):
    thorough = ctx.tier == "thorough"
    exe = prepare(ctx)
    ctx.rule = ("execution = scenario (single-threaded script of atomic operations with boundary operands and every allowed "
                "memory order; or 2-5 threads with short programs of atomic read-modify-write operations on 1-2 shared "
                "variables; or threads acquiring / releasing references of 1-2 ref-counted objects they own) x schedule at "
                "every atomic access; distinct = distinct (scenario, schedule policy); non-trivial = at least one operation "
                "whose result depends on an earlier one")
    ctx.assumptions += [
        "sequentially consistent serialised execution (one schedule point in front of every atomic access; weaker memory "
        "orders are passed through to the compiler builtins but their reordering effects are not explored)",
        "each thread owns the references it releases (documented usage); the on-zero callback destroys the object",
        "bounded exploration: preemption bound 2 (quick) / 3 (thorough) on the core scenarios + PCT / random schedules; "
        "model constants: 3-bit / 4-bit cells, 3 threads (quick), 4 threads (thorough)",
        "data races: ThreadSanitizer sees the library's own atomics (ref_count.c), the harness is not instrumented",
    ]
    # 1. design level: every interleaving of small programs
    fams = ["add", "ticket", "or", "and", "xor", "once", "xchg"]
    req = ["AtomicsMC!MCLoad", "AtomicsMC!MCStore", "AtomicsMC!MCXchg", "AtomicsMC!MCCas", "AtomicsMC!MCCasAdd", "AtomicsMC!MCFetch"]
    ctx.mc(SPEC_DIR, "AtomicsMC", "MC.cfg" if not thorough else "MC_thorough.cfg", required_actions=req, workers=4, timeout=1800, xmx="4g")
    for f in fams:
        ctx.mc(SPEC_DIR, "AtomicsMC", "MC_%s.cfg" % f, workers=4, timeout=900, xmx="4g", coverage=False)
    ctx.mc(SPEC_DIR, "AtomicsMC", "MC_ops15.cfg", workers=4, timeout=900, xmx="4g", coverage=False)
    ctx.mc(SPEC_DIR, "RefCountMC", "MC_rc.cfg", workers=4, timeout=900, xmx="4g",
           required_actions=["RefCountMC!MInit", "RefCountMC!MGive", "RefCountMC!MAcquire", "RefCountMC!MRelBegin",
                             "RefCountMC!MRelDec", "RefCountMC!MCbRet", "RefCountMC!MDone"])
    if thorough:
        for cfg in ["MC_addlong.cfg", "MC_add_thorough.cfg", "MC_ticket_thorough.cfg", "MC_once_thorough.cfg", "MC_xchg_thorough.cfg"]:
            ctx.mc(SPEC_DIR, "AtomicsMC", cfg, workers=4, timeout=3000, xmx="6g", coverage=False)
        ctx.mc(SPEC_DIR, "RefCountMC", "MC_rc_thorough.cfg", workers=4, timeout=3000, xmx="6g", coverage=False)
    teeth = tlc.run_tlc(SPEC_DIR, "RefCountMC", "MC_rc_teeth.cfg", ctx.outdir, workers=4, timeout=600, xmx="4g")
    ctx.extra["model_with_callback_at_previous_value_2_violates"] = teeth.violated
    if not teeth.violated:
        raise CheckError("MODEL-BROKEN (no teeth): RefCountMC accepts an algorithm that invokes the callback one release early")

    # 2. the real code
    rng = random.Random(ctx.seed)
    blocks = []
    for sc in matrix_scripts(rng):
        blocks.append(("rand 1", sc))
    for _ in range(60 if not thorough else 1500):
        blocks.append(("rand 1", random_seq(rng)))
    nseq = len(blocks)
    budget, bound = (250, 2) if not thorough else (4000, 3)
    for sc in CORE:
        blocks.append(("dfs %d %d" % (budget, bound), sc))
    conc = []
    for _ in range(700 if not thorough else 12000):
        sc = random_concurrent(rng)
        pol = rng.choice(["pct %d 2 40", "pct %d 3 60", "rand %d", "rand %d", "pct %d 1 30"]) % rng.randrange(1, 10 ** 6)
        conc.append((pol, sc))
    blocks += conc
    for pol, sc in blocks:
        ctx.distinct.add(hash(pol + "|" + "\n".join(sc)))
    ctx.add_sample({"policy": blocks[0][0], "scenario": [ln[:300] for ln in blocks[0][1]]})
    ctx.add_sample({"policy": blocks[nseq + 8][0], "scenario": blocks[nseq + 8][1]})
    ctx.add_sample({"policy": conc[0][0], "scenario": conc[0][1]})
    ctx.add_sample({"policy": conc[-1][0], "scenario": conc[-1][1]})
    rng.shuffle(blocks)
    n, acc = pipeline.drive_vsched(ctx, exe, blocks, SPEC_DIR, "RefCountTrace", "Trace.cfg", label="x05", nbatch=6)
    # 3. what a serialising scheduler cannot see: plain (non-atomic) accesses to the counter
    scan = [b for b in conc if any(" r" in ln for ln in b[1])][: (150 if not thorough else 2500)]
    scan += [("pct %d 2 40" % (i + 1), sc) for i, sc in enumerate(CORE)]
    if not ctx.violations:      # (a tree already refuted is not scanned again on a second build)
        pipeline.race_scan(ctx, HARNESS, HARNESS + ".c", scan)
    ctx.evaluations += n
    ctx.distinct_extra += max(0, n - len(blocks))
    ctx.extra["executions"] = n
    ctx.extra["single_thread_scripts"] = nseq
