"""C13 URI parsing / building / percent-coding: Uri.tla (expected views as a function of the components, query items,
Enc/Dec on byte sequences) model-checked on small component sets; TLC-enumerated and seeded random component
combinations are assembled, run through the real aws_uri functions and every recorded call is validated by TLC against
the same definitions (UriTrace.tla)."""
import glob
import json
import os
import random
import re

from vlib import build, pipeline, tlc
from vlib.common import CheckError

LEVEL = "model_checking"
SPEC_DIR = "Uri"
PER_EXEC = 18          # URIs per execution (each: PARSE, QUERY and, where expressible, BUILD, QUERY)

# known_findings.txt records (status "known" only) that enable a deviation action of UriTrace.tla; "fixed" enables nothing.
DEV_OF_ID = {"F9": "SlashInQuery"}
DEV_TEXT = {
    "SlashInQuery": "aws_uri_init_parse / aws_uri_init_from_builder_options: with an empty path a '/' inside the query ends the "
                    "authority (s_parse_authority prefers '/' over an earlier '?'): 'h://a?k=/x' -> host 'a?k=', path '/x'; "
                    "with a port the URI is refused",
}

ALNUM = b"abcdefghijklmnopqrstuvwxyzABCDEFGHIJKLMNOPQRSTUVWXYZ0123456789"
UNRES = ALNUM + b"-._~"
SUBDELIM = b"!$&'()*+,;="
SCHEME_CH = ALNUM + b"+-."
USER_CH = UNRES + SUBDELIM + b"%"
PW_CH = USER_CH + b":"
HOST_CH = UNRES + SUBDELIM + b"%"
V6_CH = b"0123456789abcdefABCDEF:.v" + b"-_~!$&'()*+,;="
PATH_CH = UNRES + SUBDELIM + b"%:@/"
QUERY_CH = PATH_CH + b"?"


def prepare(ctx):
    return build.build_harness("uri_adapter", ["uri_adapter.c"], cflags=["-Wno-unused-function"])


def known_devs(ctx):
    recs = list(ctx.known)
    alt = os.environ.get("VERIF_KNOWN_FILE")          # test seam: an additional file in the known_findings.txt format
    if alt and os.path.exists(alt):
        for line in open(alt):
            m = re.match(r"known: property=(\S+) id=(\S+) (.*)$", line.strip())
            if m and m.group(1) == ctx.pid:
                recs.append({"status": "known", "property": m.group(1), "id": m.group(2), "what": m.group(3), "commit": ""})
    devs = {}
    for r in recs:
        if r.get("status") == "known" and r.get("property") == ctx.pid and r.get("id") in DEV_OF_ID:
            devs[DEV_OF_ID[r["id"]]] = r
    return devs


def hx(b, present=True):
    if not present:
        return "X"
    b = bytes(b)
    return b.hex() if len(b) else "-"


# ------------------------------------------------------------------------------------------------ components
def comp(hs=False, sch=b"", hu=False, usr=b"", hw=False, pw=b"", host=b"", v6=False, hp=False, port=b"", path=b"",
         hq=False, items=None):
    items = items or []
    return {"hs": hs, "sch": bytes(sch), "hu": hu, "usr": bytes(usr), "hw": hw, "pw": bytes(pw), "host": bytes(host), "v6": v6,
            "hp": hp, "port": bytes(port), "path": bytes(path), "hq": hq, "items": items, "q": query_text(items)}


def item_text(it):
    return it["k"] + (b"=" + it["v"] if it["eq"] else b"")


def query_text(items):
    return b"&".join(item_text(it) for it in items)


def assemble(c):
    """the driver's rendering; the specification re-renders the components and refuses the event if they differ"""
    t = b""
    if c["hs"]:
        t += c["sch"] + b"://"
    if c["hu"]:
        t += c["usr"] + (b":" + c["pw"] if c["hw"] else b"") + b"@"
    t += (b"[" + c["host"] + b"]") if c["v6"] else c["host"]
    if c["hp"]:
        t += b":" + c["port"]
    t += c["path"]
    if c["hq"]:
        t += b"?" + c["q"]
    return t


def in_domain(c):
    """WellFormed of Uri.tla for the parts a random choice can violate"""
    t = assemble(c)
    if not c["hs"]:
        i = t.find(b":")
        if i >= 0 and i + 1 < len(t) and t[i + 1:i + 2] == b"/":
            return False
    return not c["path"] or c["path"][:1] == b"/"


def from_tlc(s):
    c = s["c"]
    items = [{"eq": bool(i["eq"]), "k": bytes(i["k"]), "v": bytes(i["v"])} for i in s["items"]]
    d = comp(c["hs"], bytes(c["sch"]), c["hu"], bytes(c["usr"]), c["hw"], bytes(c["pw"]), bytes(c["host"]), c["v6"], c["hp"],
             bytes(c["port"]), bytes(c["path"]), c["hq"], items)
    if assemble(d) != bytes(s["text"]):
        raise CheckError("driver rendering differs from Text(c) of the model: %r" % (s,))
    return d


def parse_line(c):
    return "PARSE %s %s %s %s %s %d %s %s %s" % (
        hx(assemble(c)), hx(c["sch"], c["hs"]), hx(c["usr"], c["hu"]), hx(c["pw"], c["hw"]), hx(c["host"]), 1 if c["v6"] else 0,
        hx(c["port"], c["hp"]), hx(c["path"]), hx(c["q"], c["hq"]))


def query_line(items):
    return "QUERY %d" % len(items) + "".join(" %d %s %s" % (1 if it["eq"] else 0, hx(it["k"]), hx(it["v"])) for it in items)


def build_lines(c, rng):
    """the same components through the builder where it can express them (no user-info, non-empty scheme / query,
    canonical port that fits); the query goes in as a string or, when every item has '=', as a param list"""
    if c["hu"] or (c["hs"] and not c["sch"]) or (c["hq"] and not c["q"]):
        return []
    port = "0"
    if c["hp"]:
        if not c["port"] or c["port"][:1] == b"0" or int(c["port"]) > 0xFFFFFFFF:
            return []
        port = c["port"].decode()
    head = "BUILD %s %s %d %s %s" % (hx(c["sch"], c["hs"]), hx(c["host"]), 1 if c["v6"] else 0, port, hx(c["path"]))
    out = []
    if not c["hq"]:
        out.append((head + " N", []))
        if rng.random() < 0.3:
            out = [(head + " L 0", [])]                       # an empty param list
    else:
        if all(it["eq"] for it in c["items"]) and rng.random() < 0.6:
            out.append((head + " L %d" % len(c["items"]) + "".join(" %s %s" % (hx(it["k"]), hx(it["v"])) for it in c["items"]),
                        c["items"]))
        else:
            out.append((head + " S " + hx(c["q"]), c["items"]))
    lines = []
    for ln, items in out:
        lines += [ln, query_line(items)]
    return lines


def rstr(rng, alphabet, lo, hi):
    return bytes(rng.choice(alphabet) for _ in range(rng.randint(lo, hi)))


def random_items(rng):
    n = rng.choice([0, 1, 1, 2, 3, 5, 8])
    items = []
    kch = bytes(set(QUERY_CH) - set(b"&="))
    vch = bytes(set(QUERY_CH) - set(b"&"))
    for _ in range(n):
        r = rng.random()
        if r < 0.2:
            items.append({"eq": False, "k": b"", "v": b""})                       # blank: repeated '&'
        elif r < 0.4:
            items.append({"eq": False, "k": rstr(rng, kch, 1, 6), "v": b""})      # missing '='
        else:
            items.append({"eq": True, "k": rstr(rng, kch, 0, 6), "v": rstr(rng, vch, 0, 8)})
    return items


PORTS = [b"", b"0", b"1", b"80", b"443", b"8080", b"65535", b"65536", b"0080", b"2147483647", b"2147483648", b"4294967295",
         b"4294967296", b"4294967297", b"9999999999", b"18446744073709551615", b"18446744073709551616", b"00000000000000000080",
         b"99999999999999999999999"]


# schemes and ports that mean something to software (defaults, canonical forms): components are opaque to C13
KNOWN_SCHEMES = [b"http", b"https", b"HTTP", b"Https", b"ws", b"wss", b"ftp", b"ssh", b"s3", b"file", b"mqtt", b"amqps"]
KNOWN_PORTS = [b"80", b"443", b"21", b"22", b"8080", b"8443", b"1883", b"5671"]


def random_comp(rng):
    for _ in range(50):
        hs = rng.random() < 0.6
        hu = rng.random() < 0.4
        hw = hu and rng.random() < 0.6
        v6 = rng.random() < 0.3
        hp = rng.random() < 0.5
        hq = rng.random() < 0.6
        port = b""
        if hp:
            port = rng.choice(PORTS) if rng.random() < 0.6 else str(rng.getrandbits(rng.choice([8, 16, 31, 32, 33, 40]))).encode()
        path = b""
        if rng.random() < 0.7:
            path = b"/" + rstr(rng, PATH_CH, 0, 12)
        known = hs and rng.random() < 0.3
        if known and hp and rng.random() < 0.7:
            port = rng.choice(KNOWN_PORTS)
        c = comp(hs, (rng.choice(KNOWN_SCHEMES) if known else rstr(rng, SCHEME_CH, 0, 6)) if hs else b"", hu, rstr(rng, USER_CH, 0, 6) if hu else b"", hw,
                 rstr(rng, PW_CH, 0, 6) if hw else b"", rstr(rng, V6_CH if v6 else HOST_CH, 0, 16), v6, hp, port, path, hq,
                 random_items(rng) if hq else [])
        if in_domain(c):
            return c
    return comp(host=b"a")


def uri_block(c, rng):
    return [parse_line(c), query_line(c["items"])] + build_lines(c, rng)


# ------------------------------------------------------------------------------------------------ percent coding
def coding_lines(rng, thorough):
    L = []
    starts = [(0, 0), (1, 0), (7, 0), (0, 1), (1, 2), (7, 9), (0, 64)]         # (starting length, spare capacity)

    def rt(x, kinds=("path", "param")):
        for kind in kinds:
            pl, sl = rng.choice(starts)
            L.append("ENC %s %s %d %d" % (kind, hx(x), pl, sl))
            pl, sl = rng.choice(starts)
            L.append("DECLAST %d %d" % (pl, sl))
    # every byte value alone and between two others, both encoders, every starting length
    for b in range(256):
        for kind in ("path", "param"):
            for pl in (0, 1, 7):
                if pl == 0 or b % 3 == pl % 3 or thorough:
                    L.append("ENC %s %s %d %d" % (kind, hx(bytes([b])), pl, rng.choice([0, 0, 1, 3])))
                    L.append("DECLAST %d %d" % (rng.choice([0, 1, 7]), rng.choice([0, 0, 2])))
        rt(bytes([rng.getrandbits(8), b, rng.getrandbits(8)]))
    for x in (b"", b"/", b"//", b"a b_c", b"%", b"%41", b"~-._", b"\x00", b"\xff\xfe", "\u00e9\u20ac\U0001f600".encode()):
        for pl in (0, 1, 7):
            for kind in ("path", "param"):
                L.append("ENC %s %s %d 0" % (kind, hx(x), pl))
                L.append("DECLAST %d 0" % pl)
    for _ in range(300 if not thorough else 6000):
        n = rng.choice([rng.randint(0, 8), rng.randint(0, 40), rng.randint(40, 120)])
        rt(bytes(rng.getrandbits(8) for _ in range(n)), kinds=(rng.choice(["path", "param"]),))
    # decoding of arbitrary texts: every pair of bytes after '%', '%' near the end, lower-case digits
    interesting = sorted(set(b"0129AFGafg%/:@ ") | {0, 47, 58, 64, 71, 96, 103, 255})
    for a in interesting:
        for b in interesting:
            L.append("DEC %s %d %d" % (hx(b"x%" + bytes([a, b]) + b"y"), rng.choice([0, 1, 7]), rng.choice([0, 0, 3])))
    for a in range(256):
        if a % 4 == 0 or thorough:
            L.append("DEC %s 0 0" % hx(b"%" + bytes([a]) + b"0"))
            L.append("DEC %s 1 0" % hx(b"%0" + bytes([a])))
    for t in (b"%", b"a%", b"%4", b"a%4", b"%%", b"%%41", b"%41%", b"%4%41", b"%41%4", b"%zz", b"%4g", b"%g4", b"%e2%82%ac", b"%E2%82%AC",
              b"", b"abc", b"%00", b"%ff%FF", b"a%20b_c", b"%25", b"%2525"):
        for pl in (0, 1, 7):
            L.append("DEC %s %d %d" % (hx(t), pl, rng.choice([0, 1])))
    for _ in range(200 if not thorough else 4000):
        n = rng.randint(0, 24)
        t = bytearray(rng.choice(b"%%%0123456789abcdefABCDEFgG xyz/") for _ in range(n))
        L.append("DEC %s %d %d" % (hx(t), rng.choice([0, 1, 7]), rng.choice([0, 0, 5])))
    return L


def free_build_lines(rng, thorough):
    """builder calls whose host text the parser cannot read back as the host (Uri.tla BuildFree): bare IPv6 literals, '@' or
    brackets in odd places - with every port width (none, 1..10 digits), with and without path / query string / param list,
    so that whatever the builder reserves for one piece is used up by the others"""
    hosts = [b"::1", b"::", b"fe80::1", b"2001:db8::8:800:200c:417a", b"1:2:3:4:5:6:7:8", b"::ffff:192.0.2.1", b"a:b", b"u@h", b"[::1", b"::1]",
             b"h]", b"[h", b"a b", b"h\x00h", b"\xe9", b"h#f"]
    ports = ["0", "1", "80", "443", "8080", "65535", "100000", "1234567", "12345678", "123456789", "1000000000", "4294967295"]
    L = []
    for h in hosts:
        for port in ports if thorough else rng.sample(ports, 5) + ["0", "4294967295"]:
            sch = rng.choice([b"", b"s", b"https", b"a+b"])
            path = rng.choice([b"", b"/", b"/p", b"/a/b/c", b"/" + b"x" * rng.randint(1, 40)])
            head = "BUILDF %s %s 0 %s %s" % (hx(sch, bool(sch)), hx(h), port, hx(path))
            r = rng.random()
            if r < 0.25:
                L.append(head + " N")
            elif r < 0.55:
                L.append(head + " S " + hx(rng.choice([b"q", b"k=v", b"a=b&c=d", b"x" * rng.randint(1, 30)])))
            else:
                n = rng.choice([0, 1, 1, 2, 3])
                kv = [(rstr(rng, b"abkxyz09", 0, 6), rstr(rng, b"abvxyz09/:", 0, 8)) for _ in range(n)]
                L.append(head + " L %d" % n + "".join(" %s %s" % (hx(k), hx(v)) for k, v in kv))
    return L


# ------------------------------------------------------------------------------------------------ run
def bfs_scripts(ctx, cfg):
    """every component combination of a (small) Gen configuration: plain BFS, each finished record is printed once"""
    res = tlc.run_tlc(SPEC_DIR, "UriMC", cfg, ctx.outdir, workers=4, timeout=1800, deadlock=False, tag="UriMC_" + cfg[:-4])
    out, seen = [], set()
    for line in res.text.splitlines():
        m = re.match(r'<<"SCRIPT", "(.*)">>$', line.strip())
        if m:
            js = m.group(1).encode().decode("unicode_escape")
            if js not in seen:
                seen.add(js)
                out.append(json.loads(js))
    if res.errors or not out:
        raise CheckError("MODEL-BROKEN (gen): %s %s\n%s" % (cfg, res.errors[:3], res.text[-2000:]))
    return out


def run(ctx):
    thorough = ctx.tier == "thorough"
    exe = prepare(ctx)
    ctx.rule = ("evaluation = one call of aws_uri_init_parse / aws_uri_init_from_builder_options / query iteration (iterator + "
                "list form) / path or param encoder / decoder whose every reported value TLC compared with Uri.tla; distinct = "
                "distinct script line; non-trivial = all (every line names a concrete text, option set or byte string)")
    ctx.assumptions += [
        "components are drawn from the RFC 3986 character classes of their position (scheme, user, password, reg-name or "
        "bracketed literal, digits, path, query); a path is empty or starts with '/'",
        "without a scheme, a text whose first ':' is directly followed by '/' has no unique reading (the library and RFC 3986 "
        "take it as a scheme): excluded from the claim (e.g. 'a:/p', '/a://b', '/p?u=http://x' are not generated)",
        "a text with nothing after the scheme ('', 's://') may be refused or accepted",
        "a port above 2^32-1 (or above 2^64-1) must be refused: the uint32_t field cannot report it; error codes are not compared",
        "view offsets are required to lie inside uri_str (or be a null pointer for an empty view); which occurrence of equal "
        "bytes a view points at is not compared",
        "path_and_query for a query that is present but empty may or may not include the trailing '?'",
        "encoders are required to produce exactly unreserved | '/' (path) | %XX upper-case: uri.h documents the passthrough set",
        "decoder: '%' not followed by two hex digits must be refused (error code / buffer afterwards free); lower-case digits may be refused",
        "exhaustive only on the model (option sets of UriMC.tla); the code is covered on the enumerated and random combinations",
    ]
    # 1. design level
    acts = ["UriMC!SetScheme", "UriMC!SetUser", "UriMC!SetHost", "UriMC!SetPort", "UriMC!SetPath", "UriMC!SetQuery", "UriMC!DoParse",
            "UriMC!DoBuild", "UriMC!DoQuery", "UriMC!Extend", "UriMC!DoEnc", "UriMC!DoDec", "UriMC!DoDecText"]
    ctx.mc(SPEC_DIR, "UriMC", "MC_thorough.cfg" if thorough else "MC.cfg", required_actions=acts, timeout=3000, xmx="8g")
    ctx.mc(SPEC_DIR, "UriMC", "MC_query_thorough.cfg" if thorough else "MC_query.cfg", required_actions=acts, timeout=3000, xmx="8g")
    # 2. component combinations: TLC-enumerated (small set exhaustively, large set by simulation) + seeded random
    rng = random.Random(ctx.seed)
    small = [from_tlc(s) for s in bfs_scripts(ctx, "Gen_small.cfg")]
    if thorough:                                  # every combination of the full option sets / every item sequence
        sim = [from_tlc(s) for s in bfs_scripts(ctx, "Gen.cfg")]
        qsim = [from_tlc(s) for s in bfs_scripts(ctx, "Gen_query.cfg")]
    else:
        sim, _ = tlc.gen_scripts(SPEC_DIR, "UriMC", "Gen.cfg", ctx.outdir, num=2500, depth=7, seed=ctx.seed, workers=4, timeout=900)
        sim = [from_tlc(s) for s in sim]
        qsim, _ = tlc.gen_scripts(SPEC_DIR, "UriMC", "Gen_query.cfg", ctx.outdir, num=600, depth=7, seed=ctx.seed, workers=4,
                                  timeout=900)
        qsim = [from_tlc(s) for s in qsim]
    rnd = [random_comp(rng) for _ in range(4000 if not thorough else 80000)]
    ctx.extra["combinations"] = {"tlc_bfs_small": len(small), "tlc_simulated": len(sim), "tlc_query_items": len(qsim), "random": len(rnd)}
    # reproduction of the listed finding first (DESIGN 3.3: always executed): empty path, '/' in the query
    kv = {"eq": True, "k": b"k", "v": b":/"}
    repro = [comp(True, b"h", host=b"a", hq=True, items=[kv]), comp(True, b"http", host=b"example.com", hq=True,
             items=[{"eq": True, "k": b"redirect", "v": b"/home"}]), comp(host=b"a", hp=True, port=b"80", hq=True, items=[kv]),
             comp(True, b"h", host=b"a", path=b"/", hq=True, items=[kv])]
    execs = []
    for group in (repro, small, sim, qsim, rnd):
        for i in range(0, len(group), PER_EXEC):
            ex = ["RESET"]
            for c in group[i:i + PER_EXEC]:
                ex += uri_block(c, rng)
            execs.append(ex)
    lines = coding_lines(rng, thorough)
    execs += [["RESET"] + lines[i:i + 70] for i in range(0, len(lines), 70)]
    flines = free_build_lines(rng, thorough)
    execs += [["RESET"] + flines[i:i + 40] for i in range(0, len(flines), 40)]
    ctx.extra["combinations"]["builder_free_hosts"] = len(flines)
    for ex in execs:
        ctx.distinct.update(ex[1:])
    ctx.add_sample({"script": execs[0][:6]})
    ctx.add_sample({"script": execs[-1][:6]})
    # 3. real library, validated by TLC
    devs = known_devs(ctx)
    fired = {}

    def on_fired(info):
        for ln in info.printed:
            m = re.match(r'<<"FIRED", "(\w+)", "(\w+)", (-?\d+)>>', ln)
            if m:
                fired.setdefault(m.group(1), []).append((m.group(2), int(m.group(3))))

    pipeline.drive_and_validate(ctx, exe, execs, SPEC_DIR, "UriTrace", "Trace.cfg", label="uri", nbatch=16,
                                tlc_env={"VERIF_DEV_" + d: "1" for d in devs}, on_fired=on_fired)
    for nm in sorted(fired):
        rec = devs.get(nm, {})
        ctx.known_finding(rec.get("id", nm), "id=%s %s" % (rec.get("id", nm), rec.get("what", DEV_TEXT[nm])))
        ctx.extra.setdefault("known_finding_events", {})[nm] = {
            "count": len(fired[nm]), "refused": sum(1 for _, rc in fired[nm] if rc != 0),
            "misread": sum(1 for _, rc in fired[nm] if rc == 0)}
    # the same scripts in a process whose locale is not "C" (lib/vlib/locale8.py): the specification does not mention
    # locales, so it must accept these traces as well
    from vlib import locale8
    lenv = locale8.env("xx_XX")
    if lenv:
        coding = [ex for ex in execs if any(l.startswith(("ENC ", "DEC ", "BUILDF ")) for l in ex)]
        others = [ex for ex in execs if ex not in coding]
        lsl = coding + (others if thorough else others[:: max(1, len(others) // 60)])
        pipeline.drive_and_validate(ctx, exe, lsl, SPEC_DIR, "UriTrace", "Trace.cfg", label="uri_locale", nbatch=16, env=lenv,
                                    tlc_env={"VERIF_DEV_" + d: "1" for d in devs}, on_fired=on_fired)
        locale8.note(ctx, "URI scripts (every coding line, a slice of the component scripts)", len(lsl))
    else:
        ctx.assumptions.append("locale family not run: localedef could not build the private locale")
    kinds = {}
    for tp in sorted(glob.glob(os.path.join(ctx.outdir, "uri", "b*.clean.ndjson")) + glob.glob(os.path.join(ctx.outdir, "uri_locale", "b*.clean.ndjson"))):
        for e in pipeline.read_trace(tp):
            if e["e"] not in ("Reset", "End"):
                kinds[e["e"]] = kinds.get(e["e"], 0) + 1
    ctx.evaluations = sum(kinds.values())
    ctx.extra["events_by_kind"] = kinds
    # the same parsers on several threads at once (Stateless.tla): one outcome per operation whoever performs it, and a
    # ThreadSanitizer pass over the same scenarios (hidden shared state is a data race whatever the schedule)
    from checks import stateless_common
    stateless_common.drive(ctx, ["uri", "pct"], thorough, n=40 if not thorough else 1000)
