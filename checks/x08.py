"""X08 small value codecs (extra, DESIGN section 13): uuid.h, host_utils.h, byte_order.h, the big-endian read/write
primitives of encoding.h and zero.h. ValueCodecs.tla (uuid objects + one output buffer + one scratch block + the machine's
byte order; three-valued text grammars where the headers are silent) is model-checked; TLC-generated and seeded random
scripts are replayed on the real functions; every event and every byte a call could have touched is validated by
ValueCodecsTrace.tla."""
import itertools
import os
import random

from vlib import build, pipeline, tlc
from vlib.common import SPEC, NCPU

LEVEL = "model_checking"
SPEC_DIR = "ValueCodecs"
NU = 3
MC_ACTIONS = ["MCUSet", "MCUInit", "MCUFromStr", "MCUToStr", "MCUEquals", "MCUZero", "MCUIsZeroed", "MCBufInit", "MCMemInit",
              "MCWrite", "MCRead", "MCSecureZero", "MCIsZeroed", "MCHton", "MCNtoh", "MCHtonF", "MCNtohF", "MCIsBigEndian",
              "MCTok", "MCIsIpv4", "MCIsIpv6"]

# Inputs on which the unchanged library contradicts host_utils.h (reported as findings, scripts in spec/ValueCodecs/regress/).
# The specification is strict about them; until the lead has decided (repair or known finding) the drivers below do not
# generate them, so that the check exits 0 on the unchanged tree. X08_STRICT=1 generates them as well.
STRICT = os.environ.get("X08_STRICT", "1") not in ("", "0")
ALNUM = set(b"0123456789abcdefghijklmnopqrstuvwxyzABCDEFGHIJKLMNOPQRSTUVWXYZ")
ZONE_EXTRA = set(b"-._~%")
HEXC = set(b"0123456789abcdefABCDEF")


def finding_v4(t):
    """ipv4_scanf_leniency: blanks, signs and a 0x00 are skipped / stop the scan instead of refusing the text"""
    return any(c in (0, 9, 10, 11, 12, 13, 32, 43, 45) for c in t)


def finding_v6(t):
    """ipv6_eight_groups_and_double_colon: "::" strictly inside with 8 written groups is accepted;
    ipv6_second_percent_unchecked: nothing after a second '%' is looked at"""
    parts = t.split(b"%")
    a = parts[0]
    if a.count(b"::") == 1 and not a.startswith(b"::") and not a.endswith(b"::"):
        groups = [g for g in a.replace(b"::", b":").split(b":") if g]
        if len(groups) >= 8:
            return True
    if len(parts) >= 3:
        rest = b"%".join(parts[2:])
        if any(c not in ALNUM and c not in ZONE_EXTRA for c in rest):
            return True
    return False


def prepare(ctx):
    return build.build_harness("valuecodecs_adapter", ["valuecodecs_adapter.c"], cflags=["-Wno-unused-function"])


def hx(b):
    b = bytes(b)
    return b.hex() if b else "-"


def limbs_to_int(w):
    v = 0
    for i, l in enumerate(w):
        v += l << (15 * i)
    return v


WIDTH_OP = {8: "64", 4: "32", 3: "24", 2: "16"}


def from_tlc(s, rng):
    """script of ValueCodecsMC (Gen.cfg) -> adapter lines; the model respects every obligation (ranges inside the block,
    a buffer before to_str)"""
    lines = ["RESET"]
    for o in s["ops"]:
        op, d, a, n, off, x, w = o["op"], o["d"], o["a"], o["n"], o["off"], bytes(o["x"]), o["w"]
        if op == "USET":
            lines.append("USET %d %s" % (d, hx(x)))
        elif op == "UINIT":
            lines.append("UINIT %d %d" % (d, rng.choice([0, 255, 0xA5, rng.randrange(256)])))
        elif op == "UFROM":
            lines.append("UFROM %d %s" % (d, hx(x)))
        elif op == "UTOSTR":
            lines.append("UTOSTR %d" % a)
        elif op == "UEQ":
            lines.append("UEQ %d %d" % (a, d))
        elif op == "UZERO":
            lines.append("UZERO %d" % d)
        elif op == "UISZ":
            lines.append("UISZ %d" % a)
        elif op == "BUFINIT":
            lines.append("BUFINIT %d %s" % (n, hx(x)))
        elif op == "MEMINIT":
            lines.append("MEMINIT %s" % hx(x))
        elif op == "WRITE":
            lines.append("W%s %d %d" % (WIDTH_OP[n], off, limbs_to_int(w)))
        elif op == "READ":
            lines.append("R%s %d" % (WIDTH_OP[n], off))
        elif op == "SZERO":
            lines.append("SZERO %d %d" % (off, n))
        elif op == "ISZ":
            lines.append("ISZ %d %d" % (off, n))
        elif op == "HTON":
            lines.append("H%s %d" % (WIDTH_OP[n], limbs_to_int(w)))
        elif op == "NTOH":
            lines.append("N%s %s" % (WIDTH_OP[n], hx(x)))
        elif op == "HTONF":
            lines.append("HF%s %s" % (WIDTH_OP[n], hx(x)))
        elif op == "NTOHF":
            lines.append("NF%s %s" % (WIDTH_OP[n], hx(x)))
        elif op == "BIGEND":
            lines.append("BIGEND")
        else:
            raise ValueError("unknown generated op " + op)
    return lines


# ---------------------------------------------------------------------------------------------------------------------
# seeded random drivers. They mirror contents only to respect the obligations (ranges, a buffer before to_str) and to aim
# operands at the boundaries; they never predict a result.

def uuid_text(b):
    h = bytes(b).hex()
    return ("%s-%s-%s-%s-%s" % (h[0:8], h[8:12], h[12:16], h[16:20], h[20:32])).encode()


JUNK = [0x67, 0x47, 0x3A, 0x2F, 0x20, 0x00, 0x80, 0xFF, 0x7A, 0x2D, 0x2B, 0x78, 0x09, 0x2E, 0x7B, 0x40, 0x60]


def rand_uuid(rng):
    k = rng.random()
    if k < 0.1:
        return bytes(16)
    if k < 0.2:
        return bytes([255] * 16)
    if k < 0.3:
        return bytes(range(1, 17))
    if k < 0.5:       # nibble boundaries: 0x09/0x0a/0x0f/0x10/0x9f/0xa0/0xf0
        return bytes(rng.choice([0x00, 0x09, 0x0A, 0x0F, 0x10, 0x9F, 0xA0, 0xF0, 0xFF, 0x99, 0xAA]) for _ in range(16))
    return bytes(rng.randrange(256) for _ in range(16))


def text_variant(rng, t):
    """a text near the canonical one"""
    t = bytes(t)
    r = rng.random()
    if r < 0.25:
        return t
    if r < 0.32:
        return t.upper()
    if r < 0.37:
        return bytes(c - 32 if 97 <= c <= 102 and rng.random() < 0.5 else c for c in t)
    if r < 0.47:
        return t[:rng.choice([35, 35, 34, 32, 24, 1, 0, rng.randint(0, 35)])]
    if r < 0.55:
        return t + bytes(rng.choice(JUNK + [0x31, 0x61]) for _ in range(rng.choice([1, 1, 2, 4, 12, 36])))
    if r < 0.75:
        p = rng.choice([0, 7, 8, 9, 13, 18, 23, 24, 30, 31, 34, 35, rng.randrange(36)])
        return t[:p] + bytes([rng.choice(JUNK)]) + t[p + 1:]
    if r < 0.80:
        h = t.replace(b"-", b"")
        return h + rng.choice([b"0000", b"----", b"abcd", b"\0\0\0\0"])
    if r < 0.86:      # dashes in other places
        h = t.replace(b"-", b"")
        cuts = sorted(rng.sample(range(1, 32), 4))
        return b"-".join([h[:cuts[0]], h[cuts[0]:cuts[1]], h[cuts[1]:cuts[2]], h[cuts[2]:cuts[3]], h[cuts[3]:]])
    if r < 0.90:
        p = rng.choice([8, 13, 18, 23])
        return t[:p] + bytes([rng.choice([0x30, 0x66, 0x3A, 0x5F, 0x20])]) + t[p + 1:]
    if r < 0.94:      # one character missing / doubled somewhere: everything behind it shifts
        p = rng.randrange(36)
        return (t[:p] + t[p + 1:] + b"0") if rng.random() < 0.5 else (t[:p] + t[p:p + 1] + t[p:35])
    return bytes(rng.choice(list(HEXC) + [0x2D, 0x2D]) for _ in range(36))


def uuid_exec(rng, nops):
    lines = ["RESET"]
    known = {}            # slot -> bytes the driver wrote itself (unknown after UINIT / UFROM)
    blen = None           # (cap, len) as documented
    for i in range(nops):
        r = rng.random()
        d = rng.randint(1, NU)
        if i < 2 or r < 0.14:
            if rng.random() < 0.6:
                b = rand_uuid(rng)
                if known and rng.random() < 0.45:      # equal to / one byte away from a uuid another object holds
                    b = bytearray(known[rng.choice(sorted(known))])
                    if rng.random() < 0.7:
                        p = rng.choice([0, 15, 15, rng.randrange(16)])
                        b[p] ^= rng.choice([0x01, 0x80, 0x10, 0xFF])
                    b = bytes(b)
                lines.append("USET %d %s" % (d, hx(b)))
                known[d] = b
            else:
                lines.append("UINIT %d %d" % (d, rng.choice([0, 255, 0xA5, rng.randrange(256)])))
                known.pop(d, None)
        elif r < 0.40:
            src = known[rng.choice(sorted(known))] if known and rng.random() < 0.9 else rand_uuid(rng)
            lines.append("UFROM %d %s" % (d, hx(text_variant(rng, uuid_text(src)))))
            known.pop(d, None)
        elif r < 0.52:
            have = rng.choice([0, 0, 1, 2, 36, 37, rng.randint(0, 50)])
            room = rng.choice([0, 1, 35, 36, 36, 37, 37, 38, 40, 73, 74, 75, 110, 111])
            pre = bytes(rng.choice([0x41, 0x00, 0x2D, 0xEE, 0x30]) for _ in range(have))
            lines.append("BUFINIT %d %s" % (have + room, hx(pre)))
            blen = (have + room, have)
        elif r < 0.74 and blen is not None:
            a = rng.randint(1, NU)
            lines.append("UTOSTR %d" % a)
            if blen[0] - blen[1] >= 37:
                blen = (blen[0], blen[1] + 36)
                k = rng.random()
                if k < 0.6:       # read back exactly what was written, into another object, and compare
                    lines.append("UFROMBUF %d 0 36" % d)
                    lines.append("UEQ %d %d" % (a, d))
                    known.pop(d, None)
                    if a in known and d != a:
                        known[d] = known[a]
                elif k < 0.7 and blen[1] >= 37:
                    lines.append("UFROMBUF %d 1 36" % d)      # shifted by one: starts with the byte before
                    known.pop(d, None)
                elif k < 0.8:
                    lines.append("UFROMBUF %d 0 35" % d)
                    known.pop(d, None)
        elif r < 0.86:
            lines.append("UEQ %d %d" % (rng.randint(1, NU), rng.randint(1, NU)))
        elif r < 0.92:
            lines.append("UZERO %d" % d)
            known[d] = bytes(16)
        else:
            lines.append("UISZ %d" % d)
    return lines[:80]


EDGE64 = [0, 1, 0x7F, 0x80, 0xFF, 0x100, 0x7FFF, 0x8000, 0xFFFF, 0x10000, 0xFFFFFF, 0x1000000, 0x7FFFFFFF, 0x80000000,
          0xFFFFFFFF, 0x100000000, 0x0102030405060708, 0x8000000000000000, 0xFFFFFFFFFFFFFFFF, 0xFF00000000000000,
          0x00000000FF000000, 0x0000FF0000000000, (1 << 15) - 1, 1 << 15, (1 << 30) - 1, 1 << 30, (1 << 45) - 1, 1 << 45,
          (1 << 60) - 1, 1 << 60, 0x0102, 0x010203, 0x01020304, 0xFEDCBA9876543210, 0x00FF00FF00FF00FF]


def rand_val(rng, nbytes):
    k = rng.random()
    if k < 0.45:
        v = rng.choice(EDGE64)
    elif k < 0.6:
        v = int.from_bytes(bytes(rng.choice([0, 0, 0xFF, 0x80, 0x01, rng.randrange(256)]) for _ in range(8)), "big")
    else:
        v = rng.getrandbits(64)
    return v & ((1 << (8 * nbytes)) - 1)


FLOATS = ["00000000", "3f800000", "0000803f", "7fc00000", "7fa00000", "ff800000", "00000001", "80000000", "0000a07f",
          "0000000000000000", "3ff0000000000000", "000000000000f03f", "7ff8000000000000", "7ff4000000000000",
          "fff0000000000000", "0000000000000001", "0102030405060708", "000000000000f47f"]


def mem_exec(rng, nops):
    lines = ["RESET"]
    size = None
    for i in range(nops):
        r = rng.random()
        if size is None or r < 0.08:
            size = rng.choice([0, 1, 2, 3, 4, 7, 8, 9, 15, 16, 17, 24, rng.randint(0, 28)])
            k = rng.random()
            if k < 0.35:
                b = bytes(size)
            elif k < 0.5:
                b = bytes(size - 1) + b"\x01" if size else b""
            elif k < 0.6:
                b = b"\x80" + bytes(size - 1) if size else b""
            else:
                b = bytes(rng.choice([0, 0, 0xFF, rng.randrange(256)]) for _ in range(size))
            lines.append("MEMINIT %s" % hx(b))
            continue
        if r < 0.34:
            n = rng.choice([8, 4, 3, 2])
            if size >= n:
                off = rng.choice([0, size - n, size - n, rng.randint(0, size - n)])
                lines.append("W%s %d %d" % (WIDTH_OP[n], off, rand_val(rng, 4 if n == 3 else n)))
        elif r < 0.56:
            n = rng.choice([8, 4, 3, 2])
            if size >= n:
                off = rng.choice([0, size - n, size - n, rng.randint(0, size - n)])
                lines.append("R%s %d" % (WIDTH_OP[n], off))
        elif r < 0.66:
            n = rng.choice([0, 1, 7, 8, 9, size, rng.randint(0, size)])
            n = min(n, size)
            off = rng.choice([0, size - n, rng.randint(0, size - n)])
            lines.append("SZERO %d %d" % (off, n))
        elif r < 0.78:
            n = min(rng.choice([0, 1, 7, 8, 9, 15, 16, 17, size, rng.randint(0, size)]), size)
            off = rng.choice([0, size - n, rng.randint(0, size - n)])
            lines.append("ISZ %d %d" % (off, n))
        elif r < 0.86:
            n = rng.choice([8, 4, 2])
            lines.append("H%s %d" % (WIDTH_OP[n], rand_val(rng, n)))
        elif r < 0.93:
            n = rng.choice([8, 4, 2])
            lines.append("N%s %s" % (WIDTH_OP[n], rand_val(rng, n).to_bytes(n, "big").hex()))
        elif r < 0.99:
            f = rng.choice(FLOATS) if rng.random() < 0.6 else bytes(rng.randrange(256) for _ in range(rng.choice([4, 8]))).hex()
            lines.append("%sF%d %s" % (rng.choice("HN"), len(f) * 4, f))
        else:
            lines.append("BIGEND")
    return lines[:80]


# ---- host texts
OCTETS = ["0", "1", "9", "10", "25", "99", "100", "127", "199", "200", "249", "250", "255", "256", "260", "299", "300", "999",
          "00", "01", "001", "010", "000", "0255", "1000", "", "a", "1a", "f", "0x1", "٣".encode("utf-8").decode("latin1")]
V4JUNK = ["a", "g", ":", "/", "%", "\x80", "\xff", ".", "1", "-", " ", "\t", "\n", "+", "\x00"]


def v4_text(rng):
    r = rng.random()
    n = 4 if r < 0.7 else rng.choice([1, 2, 3, 5, 6])
    if rng.random() < 0.6:
        parts = [rng.choice(OCTETS[:20]) for _ in range(n)]
    else:
        parts = [rng.choice(OCTETS) for _ in range(n)]
    seps = [rng.choice([".", ".", ".", ".", ".", ".", ".", "..", ":", "", ","]) if rng.random() < 0.12 else "." for _ in range(n - 1)]
    s = parts[0]
    for p, q in zip(seps, parts[1:]):
        s += p + q
    k = rng.random()
    if k < 0.08:
        s = s + rng.choice(V4JUNK)
    elif k < 0.14:
        s = rng.choice(V4JUNK) + s
    elif k < 0.18 and s:
        p = rng.randrange(len(s))
        s = s[:p] + rng.choice(V4JUNK) + s[p + 1:]
    elif k < 0.20:
        s = s + "." + s
    return s.encode("latin1")


GROUPS = ["0", "1", "a", "F", "ab", "0db8", "ffff", "FFFF", "2001", "8a2e", "0000", "12345", "00000", "g", "", "1g", "fe80", "7", "abcde"]
ZONES = ["", "a", "1", "e0", "en0", "eth0", "25", "251", "25en0", "24en0", "2", "25a", "a-b", "a.b", "a_b", "a~b", "a%b", "a%25b", "%",
         "a$", "a/b", "a b", "a:b", "a\x00", "\x80", "a%$", "a%/x", "Z9", "25%", "25a%zz", "25a%$"]


def v6_text(rng):
    r = rng.random()
    good = GROUPS[:11]
    pool = good if rng.random() < 0.75 else GROUPS
    if r < 0.3:                      # full form, around 8 groups
        n = rng.choice([8, 8, 8, 8, 7, 9, 6, 1, 2])
        a = ":".join(rng.choice(pool) for _ in range(n))
    elif r < 0.85:                   # one "::"
        total = rng.choice([0, 1, 2, 3, 5, 6, 6, 7, 7, 8, 8, 9])
        left = rng.randint(0, total)
        a = ":".join(rng.choice(pool) for _ in range(left)) + "::" + ":".join(rng.choice(pool) for _ in range(total - left))
    elif r < 0.92:                   # two "::" / ":::"
        a = rng.choice(["1::2::3", ":::", "::1::", "1:::2", "::::", ":1::2", "1::2:", ":", "::", "1:", ":1", "1", ""])
    else:                            # dotted tail
        head = rng.choice(["::", "::ffff:", "1:2:3:4:5:6:", "1::", "::1:2:3:4:5:", "1:2:3:4:5:6:7:", ""])
        a = head + rng.choice(["1.2.3.4", "255.255.255.255", "1.2.3", "256.1.1.1", "01.2.3.4", "1.2.3.4.5"])
    k = rng.random()
    if k < 0.05:
        a = ":" + a
    elif k < 0.10:
        a = a + ":"
    elif k < 0.14 and a:
        p = rng.randrange(len(a))
        a = a[:p] + rng.choice(["g", ":", "%", ".", "/", "\x00", "\xff", "[", "]", " "]) + a[p + 1:]
    elif k < 0.17:
        a = "[" + a + "]"
    enc = rng.random() < 0.5
    z = rng.random()
    if z < 0.45:
        t = a
    elif z < 0.75:
        zone = rng.choice(ZONES)
        if enc and rng.random() < 0.75 and not zone.startswith("25"):
            zone = "25" + zone
        t = a + "%" + zone
    elif z < 0.9:
        t = a + "%" + rng.choice(["", "25"]) + "".join(rng.choice("az09AZ") for _ in range(rng.choice([1, 2, 3, 8, 40])))
    else:
        t = a + "%" + rng.choice(ZONES) + "%" + rng.choice(ZONES)
    return enc, t.encode("latin1")


TOKENS = [b"1", b"0", b"6", b"25", b"2345", b":", b".", b"1.", b"a:B:c:", b"d:E", b"%", b"g"]


def token_texts(maxtok):
    out = []
    for k in range(0, maxtok + 1):
        for combo in itertools.product(TOKENS, repeat=k):
            out.append(b"".join(combo))
    return sorted(set(out))


def host_lines(items):
    """items: (kind, enc, text) -> executions of <= 70 calls"""
    execs, cur = [], ["RESET"]
    for kind, enc, t in items:
        if not STRICT and ((kind == 4 and finding_v4(t)) or (kind == 6 and finding_v6(t))):
            continue
        cur.append("IP4 %s" % hx(t) if kind == 4 else "IP6 %d %s" % (1 if enc else 0, hx(t)))
        if len(cur) > 70:
            execs.append(cur)
            cur = ["RESET"]
    if len(cur) > 1:
        execs.append(cur)
    return execs


REGRESS = ["ipv4_scanf_leniency", "ipv6_eight_groups_and_double_colon", "ipv6_second_percent_unchecked"]


def regress_status(ctx, exe):
    """the scripts kept for the open findings: does the specification still refuse what the library does? (information only)"""
    import concurrent.futures as cf
    wd = os.path.join(ctx.outdir, "regress")

    def one(name):
        p = os.path.join(SPEC, SPEC_DIR, "regress", name + ".script")
        if not os.path.exists(p):
            return name, "script missing"
        lines = [ln for ln in open(p).read().splitlines() if ln.strip() and not ln.startswith("#")]
        sp, tp, evs, died, err = pipeline.run_harness(exe, lines, wd, name)
        if died:
            return name, "died: " + died
        clean = os.path.join(wd, name + ".clean.ndjson")
        pipeline.write_clean_trace(evs, clean)
        v = tlc.validate(SPEC_DIR, "ValueCodecsTrace", "Trace.cfg", clean, wd, tag=name)
        if v.error:
            return name, "error: " + v.error[:200]
        if v.accepted:
            return name, "accepted (the library no longer deviates: lift the driver filter)"
        ev = dict(evs[v.matched]) if v.matched < len(evs) else {}
        ev.pop("s", None)
        return name, "still rejected at event %d of %d: %s" % (v.matched + 1, v.total, ev)

    with cf.ThreadPoolExecutor(max_workers=len(REGRESS)) as pool:
        return dict(pool.map(one, REGRESS))


def run(ctx):
    thorough = ctx.tier == "thorough"
    exe = prepare(ctx)
    ctx.rule = ("execution = up to 3 uuid objects, one output buffer, one scratch block and <= 80 calls of uuid.h / encoding.h "
                "read-write primitives / byte_order.h / zero.h, or <= 70 host texts given to aws_host_utils_is_ipv4/6; "
                "distinct = distinct script text; non-trivial = a uuid round trip (to_str + init_from_str), a write/read pair, "
                "or at least ten host texts")
    ctx.assumptions += [
        "uuid.h has no prose: the contract is the text form (AWS_UUID_STR_LEN), the round trip, the functions' declared entry "
        "conditions (short text, short buffer: codes isolated in three operators) and refusal of texts no lenient reading can "
        "repair; blanks, signs, 0x, short groups, upper case and anything after the 31st character are left open",
        "aws_uuid_init: a new value differs from the object's previous bytes and from every value handed out before in the same "
        "execution (false with probability 2^-128 per comparison); no version/variant bits are promised or checked",
        "host_utils: the grammar is the one written in the comments of host_utils.c; octets with leading zeros, a '::' that stands "
        "for a single group, a one-letter zone, RFC 6874 punctuation in a zone and the dotted-quad tail are left open",
        "scripts respect the obligations: read/write/zero ranges lie inside the block, aws_uuid_to_str gets an initialised buffer",
    ]
    if not STRICT:
        ctx.assumptions.append("host texts on which the unchanged library contradicts host_utils.h are not generated (three open "
                               "findings, scripts in spec/ValueCodecs/regress; X08_STRICT=1 generates them): IPv4 texts with "
                               "blanks/signs/0x00, '::' strictly inside 8 written groups, junk after a second '%'")
    workers = min(8, NCPU)
    ctx.mc(SPEC_DIR, "ValueCodecsMC", "MC.cfg", timeout=1500, xmx="6g", workers=workers,
           required_actions=["ValueCodecsMC!" + a for a in MC_ACTIONS])
    if thorough:
        ctx.mc(SPEC_DIR, "ValueCodecsMC", "MC_thorough.cfg", timeout=3000, xmx="10g", coverage=False)
    want = 160 if not thorough else 2500
    scripts, _ = tlc.gen_scripts(SPEC_DIR, "ValueCodecsMC", "Gen.cfg", ctx.outdir, num=want, depth=45, seed=ctx.seed, workers=4)
    fam = {}
    for s in scripts:        # simulation prints every candidate last step: keep one script per prefix
        fam.setdefault(repr(s["ops"][:-1]), s)
    rng = random.Random(ctx.seed)
    execs = [from_tlc(s, rng) for s in list(fam.values())[:want * 2]]
    ctx.extra["tlc_generated_scripts"] = len(execs)
    exe = prepare(ctx)       # (the shared build directory may have been pruned while TLC ran)
    nuuid, nmem, nv4, nv6, maxtok = (320, 260, 6000, 10000, 3) if not thorough else (9000, 7000, 80000, 140000, 4)
    for _ in range(nuuid):
        execs.append(uuid_exec(rng, rng.randint(12, 70)))
    for _ in range(nmem):
        execs.append(mem_exec(rng, rng.randint(12, 75)))
    items = []
    toks = token_texts(maxtok)
    for t in toks:
        items.append((4, False, t))
        items.append((6, False, t))
        if b"%" in t:
            items.append((6, True, t))
    ctx.extra["host_token_texts"] = len(toks)
    for _ in range(nv4):
        items.append((4, False, v4_text(rng)))
    for _ in range(nv6):
        enc, t = v6_text(rng)
        items.append((6, enc, t))
        if rng.random() < 0.1:
            items.append((4, False, t))
    hexecs = host_lines(items)
    ctx.extra["host_texts"] = sum(len(e) - 1 for e in hexecs)
    ctx.extra["uuid_scripts"] = nuuid
    ctx.extra["mem_scripts"] = nmem
    execs += hexecs
    for ex in execs:
        ctx.evaluations += 1
        rt = any(ln.startswith("UTOSTR") for ln in ex) and any(ln.startswith("UFROM") for ln in ex)
        wr = any(ln[0] == "W" for ln in ex[1:]) and any(ln[0] == "R" for ln in ex[1:])
        ho = sum(1 for ln in ex if ln.startswith("IP")) >= 10
        if rt or wr or ho:
            ctx.distinct.add(hash("\n".join(ex)))
    ctx.add_sample({"script": execs[0][:12]})
    ctx.add_sample({"script": hexecs[len(hexecs) // 2][:8]})
    ctx.extra["open_findings_regress"] = regress_status(ctx, exe)
    pipeline.drive_and_validate(ctx, exe, execs, SPEC_DIR, "ValueCodecsTrace", "Trace.cfg", label="valuecodecs")
