"""X07 command line parser (extra, DESIGN section 13): CliParser.tla (argv, option table, optstring, aws_cli_optind, the reported
optarg / positional, how each element was consumed; one relation per aws_cli_getopt_long call; restart through
aws_cli_reset_state() or aws_cli_optind = 1; the sub-command dispatcher) model-checked over every argv of <= 4 elements of a
small token alphabet; the same bounded set, TLC-generated scripts and seeded random command lines are replayed on the real
functions (every string / vector / table an exact-size heap block) and CliParserTrace.tla validates every event."""
import itertools
import os
import random

from vlib import build, pipeline, tlc
from vlib.common import SPEC, log

LEVEL = "model_checking"
SPEC_DIR = "CliParser"
MC_SWITCH_ACTIONS = ["MCGetOpt", "MCRewindR", "MCRewindO", "MCDispatch", "MCSetTable", "MCSetOptstr", "MCSetArgv"]

# Defects of the unchanged library that this check found and that are not repaired (see spec/CliParser/regress/*.script and
# the X07 paragraph of DESIGN section 13). While an id is listed here, the inputs that trigger it are kept out of the
# regular executions (an explicit assumption in the evidence) and its regression script is run as a probe whose outcome
# is recorded (and printed as KNOWN-FINDING when known_findings.txt lists the id). Remove the id once the library is
# repaired: the inputs come back and the regression script becomes one of the regular, strictly judged executions.
OPEN_DEFECTS = {}      # D1, D2, D3 were repaired in /repo (known_findings.txt: F25-F27); their inputs are driven and judged strictly


def prepare(ctx):
    return build.build_harness("cliparser_adapter", ["cliparser_adapter.c"], cflags=["-Wno-unused-function"])


def hx(s, null=False):
    if s is None:
        return "~"
    b = s.encode("latin-1") if isinstance(s, str) else bytes(s)
    return b.hex() if b else "-"


def table_line(tab):
    return " ".join(["TABLE"] + ["%s:%d:%d" % (hx(n), v, ha) for n, v, ha in tab])


def argv_line(mode, av):
    return " ".join(["ARGV", mode] + [hx(t) for t in av])


def dispatch_line(rv, tag, dt):
    return " ".join(["DISPATCH", str(rv), str(tag)] + ["%s:%d" % (hx(n), h) for n, h in dt])


# the bounded model's alphabet and tables (CliParserMC.tla)
T1 = ([("al", 97, 0), ("be", 98, 1), ("ga", 99, 2), ("de", 100, 0), (None, 101, 1)], "ab:c::e:")
T2 = ([("al", 97, 1), ("am", 97, 0), ("be", 98, 0)], "b:a")
T3 = ([], "")
TOKENS_CORE = ["--be", "--ga", "--ze", "--de", "-a", "-b", "-z", "v", "-"]
TOKENS_ALL = ["--al", "--be", "--ga", "--de", "--ze", "-a", "-b", "-c", "-e", "-z", "v", "--", "-", "-ab", "--be=v", ""]


class Run:
    """one execution under construction. Mirrors just enough (which tokens the vector holds, which table is current) to keep
    the inputs that trigger an open defect out; it never predicts a result."""

    def __init__(self, rng):
        self.rng = rng
        self.lines = ["RESET"]
        self.tab = []
        self.av = None
        self.dirty = False          # the library's hidden flag may be set (only matters while D1 is open)
        self.ngetopt = 0
        self.ndispatch = 0

    def table(self, tab, optstr):
        self.tab = list(tab)
        self.lines.append(table_line(tab))
        self.lines.append("OPTSTR " + hx(optstr))

    def set_table_only(self, tab):
        self.tab = list(tab)
        self.lines.append(table_line(tab))

    def set_optstr_only(self, optstr):
        self.lines.append("OPTSTR " + hx(optstr))

    def mode(self, want=None):
        m = want or self.rng.choice("RO")
        if self.av is None and (want is None or want == "I"):
            m = self.rng.choice("IIRO") if want is None else "I"     # first vector of a process: nothing needs resetting
        elif m == "I":
            m = "R"
        if m == "O" and self.dirty and "D1" in OPEN_DEFECTS:
            m = "R"
        if m == "R":
            self.dirty = False
        return m

    def argv(self, av, want=None):
        m = self.mode(want)
        self.av = list(av)
        self.lines.append(argv_line(m, av))

    def rewind(self, want=None):
        self.lines.append("REWIND " + self.mode(want))

    def _plain_known(self, t):
        names = {n for n, v, ha in self.tab if n}
        vals = {v for n, v, ha in self.tab}
        if t.startswith("--") and len(t) > 2 and "=" not in t:
            return t[2:] in names
        if len(t) == 2 and t[0] == "-" and t[1] != "-":
            return ord(t[1]) in vals
        return False

    def getopt(self, n=1, hl=None):
        if any(t.startswith("-") and not self._plain_known(t) for t in self.av[1:]):
            self.dirty = True
        for _ in range(n):
            self.lines.append("GETOPT %d" % (self.rng.choice([0, 1, 1]) if hl is None else hl))
            self.ngetopt += 1

    def dispatch(self, rv, tag, dt):
        self.lines.append(dispatch_line(rv, tag, dt))
        self.ndispatch += 1


def usable_argv(av):
    return not ("D2" in OPEN_DEFECTS and any(t == "" for t in av[1:]))


def bounded_execs(rng, tokens, maxlen, tables, per_exec=9):
    """every argv of <= maxlen tokens, parsed to the end (+ one call beyond it), several per execution"""
    out = []
    for tab, optstr in tables:
        argvs = []
        for k in range(maxlen + 1):
            for combo in itertools.product(tokens, repeat=k):
                av = ["p"] + list(combo)
                if usable_argv(av):
                    argvs.append(av)
        rng.shuffle(argvs)
        for i in range(0, len(argvs), per_exec):
            r = Run(rng)
            r.table(tab, optstr)
            for av in argvs[i:i + per_exec]:
                r.argv(av)
                r.getopt(len(av) + 1)
                if rng.random() < 0.08:
                    r.rewind()
                    r.getopt(rng.randint(1, len(av)))
            out.append(r)
    return out


def from_tlc(s, rng):
    """script of CliParserMC (Gen.cfg) -> execution. Returns None when the script needs an input that an open defect excludes."""
    r = Run(rng)
    for o in s["ops"]:
        op = o["op"]
        if op == "TABLE":
            r.set_table_only([(bytes(e["name"]).decode("latin-1") if e["named"] else None, e["val"], e["ha"]) for e in o["t"]])
        elif op == "OPTSTR":
            r.set_optstr_only(bytes(o["s"]).decode("latin-1"))
        elif op == "ARGV":
            av = [bytes(t).decode("latin-1") for t in o["av"]]
            if not usable_argv(av):
                return None
            r.argv(av, o["m"])
        elif op == "GETOPT":
            r.getopt(1, o["hl"])
        elif op == "REWINDR":
            r.rewind("R")
        elif op == "REWINDO":
            r.rewind("O")
        elif op == "DISPATCH":
            r.dispatch(o["rv"], 5, [(bytes(e["name"]).decode("latin-1"), e["h"]) for e in o["dt"]])
        else:
            raise ValueError("unknown generated op " + op)
    return r


# ---------------------------------------------------------------------------------------------------------------------
# seeded random command lines
NAMES = ["alpha", "beta", "gamma", "delta", "help", "h", "al", "alp", "alphabet", "Alpha", "x-y", "v", "file", "a"]
CHARS = "abcdefghABC1x"


def random_table(rng):
    k = rng.choice([0, 1, 2, 3, 3, 4, 5, 6])
    tab = []
    pool = list(NAMES)
    rng.shuffle(pool)
    for i in range(k):
        name = pool[i] if rng.random() < 0.85 else None
        if rng.random() < 0.04 and tab:
            name = tab[0][0]                                   # the same name twice
        v = ord(rng.choice(CHARS))
        q = rng.random()
        if q < 0.03:
            v = 1000                                           # not an option character at all
        elif q < 0.06:
            v = ord("?")
        tab.append((name, v, rng.choice([0, 1, 2])))
    # optstring: most characters of the table (each once), a kind for each; sometimes a character no entry has
    chars = []
    for n, v, ha in tab:
        if 0 < v < 256 and v != 58 and chr(v) not in chars and rng.random() < 0.85:
            chars.append(chr(v))
    if rng.random() < 0.2:
        extra = rng.choice("qrs")
        if extra not in chars:
            chars.append(extra)
    rng.shuffle(chars)
    optstr = ""
    fixed = []
    for c in chars:
        kind = rng.choice(["", "", ":", ":", "::"])
        optstr += c + kind
    # has_arg fields mostly agree with the optstring (the header defines the argument kind through the optstring only)
    for n, v, ha in tab:
        if rng.random() < 0.8 and 0 < v < 256 and chr(v) in optstr:
            p = optstr.index(chr(v))
            ha = 2 if optstr[p + 1:p + 3] == "::" else 1 if optstr[p + 1:p + 2] == ":" else 0
        fixed.append((n, v, ha))
    return fixed, optstr


def random_token(rng, tab):
    names = [n for n, v, ha in tab if n]
    vals = [v for n, v, ha in tab if 0 < v < 256]
    q = rng.random()
    if q < 0.22 and names:
        return "--" + rng.choice(names)
    if q < 0.42 and vals:
        return "-" + chr(rng.choice(vals))
    if q < 0.50 and names:                                     # near misses of a known name
        n = rng.choice(names)
        return "--" + rng.choice([n[:-1], n + "x", n.swapcase(), n + n, "-" + n, n[1:]])
    if q < 0.56 and vals:
        return "-" + chr(rng.choice(vals)).swapcase()
    if q < 0.62:
        return rng.choice(["--zeta", "--unknown", "-z", "-Z", "-9", "-?", "-:"])
    if q < 0.70:
        return rng.choice(["--", "-", "-ab", "-abc", "--beta=v", "--=", "-a=b", "---", "--a=b=c"] +
                          (["-" + chr(rng.choice(vals)) + "val"] if vals else []) + (["--" + rng.choice(names) + "=v"] if names else []))
    if q < 0.72:
        return ""
    return rng.choice(["v", "val", "file.txt", "123", "a", "=", ":", "?", "x-y", "a b", "x", "\xe9", "opt=1", "/dev/null"])


def random_exec(rng):
    r = Run(rng)
    tab, optstr = random_table(rng)
    r.table(tab, optstr)
    budget = rng.randint(25, 70)
    while len(r.lines) < budget:
        n = rng.choice([0, 1, 2, 3, 4, 5, 6, 8])
        av = [rng.choice(["p", "prog", "./a.out"])] + [random_token(rng, tab) for _ in range(n)]
        if not usable_argv(av):
            av = [t or "e" for t in av]
        r.argv(av)
        calls = rng.choice([len(av), len(av) + 1, len(av) + 1, len(av) + 2, rng.randint(0, len(av))])
        done = 0
        while done < calls:
            step = rng.randint(1, calls - done)
            r.getopt(step)
            done += step
            q = rng.random()
            if q < 0.10:
                r.rewind()
            elif q < 0.14:
                tab, optstr = random_table(rng)                # the table and optstring are arguments of every call
                if rng.random() < 0.5:
                    r.table(tab, optstr)
                else:
                    r.set_optstr_only(optstr)
            elif q < 0.18:
                r.dispatch(rng.choice([0, -1, 3]), rng.randint(0, 99), [(av[1] if len(av) > 1 else "x", 0)])
    return r


CMDS = ["get", "put", "GET", "Get", "ge", "gett", "list", "g-t", "G-T", "@", "`", "\xc4", "\xe4", "", "get "]


def dispatch_exec(rng):
    r = Run(rng)
    for _ in range(rng.randint(6, 30)):
        pool = rng.sample(CMDS, rng.randint(2, 6))
        n = rng.choice([0, 1, 1, 2, 3, 4, 6])
        dt = [(rng.choice(pool), rng.randrange(4)) for _ in range(n)]
        k = rng.choice([0, 1, 1, 1, 2, 4])
        av = ["prog"] + [rng.choice(pool + ["--opt", "-x"]) for _ in range(k)]
        if rng.random() < 0.5 and dt and len(av) > 1:
            av[1] = rng.choice([dt[-1][0], dt[0][0].swapcase(), dt[0][0].upper(), dt[0][0] + "x", dt[0][0][:-1]])
        r.argv(av, "R")
        r.dispatch(rng.choice([0, 0, -1, 1, 7, -5, 1000]), rng.randint(0, 1000), dt)
        if rng.random() < 0.3 and usable_argv(av):
            r.getopt(rng.randint(1, 3))            # the dispatcher and the parser do not disturb each other
            r.dispatch(rng.choice([0, -1, 9]), rng.randint(0, 1000), dt)
    return r


# ---------------------------------------------------------------------------------------------------------------------
def regress_scripts():
    """spec/CliParser/regress/*.script: (name, defect id or None, lines). A first line '# defect: Dn' ties it to OPEN_DEFECTS."""
    d = os.path.join(SPEC, SPEC_DIR, "regress")
    out = []
    for f in sorted(os.listdir(d)) if os.path.isdir(d) else []:
        if not f.endswith(".script"):
            continue
        raw = open(os.path.join(d, f)).read().splitlines()
        did = None
        for ln in raw:
            if ln.startswith("# defect:"):
                did = ln.split(":", 1)[1].strip()
        out.append((f, did, [ln for ln in raw if ln.strip() and not ln.startswith("#")]))
    return out


def probe_open_defects(ctx, exe, scripts):
    """regression scripts of defects that are still open: run, validate, record whether the defect still shows"""
    wd = os.path.join(ctx.outdir, "open_defects")
    listed = {k.get("id") for k in ctx.known}
    res = {}
    for name, did, lines in scripts:
        sp, tp, evs, died, err = pipeline.run_harness(exe, lines + ["END"], wd, name.replace(".script", ""))
        if died:
            status = "reproduces: " + died
        else:
            clean = os.path.join(wd, name + ".clean.ndjson")
            pipeline.write_clean_trace(evs, clean)
            v = tlc.validate(SPEC_DIR, "CliParserTrace", "Trace.cfg", clean, wd, tag=name.replace(".script", ""))
            if v.error:
                status = "machinery: " + v.error[:200]
            elif v.accepted:
                status = "no longer reproduces (remove %s from OPEN_DEFECTS in checks/x07.py)" % did
            else:
                status = "reproduces: trace rejected at event %d: %s" % (v.matched + 1, evs[v.matched] if v.matched < len(evs) else "?")
        res[name] = {"defect": did, "status": status[:400]}
        log("[X07] open defect %s (%s): %s" % (did, name, status[:300]))
        if status.startswith("reproduces") and did in listed:
            ctx.known_finding(did, "id=%s %s" % (did, OPEN_DEFECTS.get(did, "")))
    ctx.extra["open_defects"] = {"ids": OPEN_DEFECTS, "probes": res}


def run(ctx):
    thorough = ctx.tier == "thorough"
    exe = prepare(ctx)
    ctx.rule = ("execution = one option table / optstring (replaceable on the way) and up to ~10 argument vectors, each parsed by "
                "aws_cli_getopt_long calls up to and beyond the end, with reruns through aws_cli_reset_state() or aws_cli_optind = 1, "
                "and aws_cli_dispatch_on_subcommand calls; <= 80 events; distinct = distinct script text; non-trivial = at least one "
                "vector with an option-looking element parsed by >= 2 getopt calls, or a dispatch")
    ctx.assumptions += [
        "the contract is what command_line_parser.h documents; the argument kind of an option is what the optstring says "
        "(the has_arg field of the table is not mentioned by the header and is not read by the specification)",
        "left open (header silent): '-' and '--' alone, more than one character behind a single dash, '--name=value', the element "
        "right after an unknown option (positional or '?'), '::' options (not implemented: either with or without argument), "
        "optarg/positional/longindex where the header does not define them, error codes of the dispatcher, case-insensitive "
        "command matches",
        "intent clauses beyond the text: aws_cli_optarg is NULL after a call that reported no option argument; a missing required "
        "argument gives '?'; option characters are not ':' and appear once in the optstring",
        "argv has argc + 1 entries, the last one NULL, as main() receives it",
    ]
    for did, what in sorted(OPEN_DEFECTS.items()):
        ctx.assumptions.append("OPEN DEFECT %s - inputs excluded from the regular executions, probed separately: %s" % (did, what))
    if os.environ.get("VERIF_SKIP_MC"):
        ctx.extra["model_checking_skipped"] = True
    else:
        # the vacuity guard (every action taken) runs on the small configuration where the table, optstring and argv may also
        # be replaced on the way; the large ones run without the coverage instrumentation
        ctx.mc(SPEC_DIR, "CliParserMC", "MC_switch.cfg", timeout=900, xmx="4g", workers=4,
               required_actions=["CliParserMC!" + a for a in MC_SWITCH_ACTIONS])
        ctx.mc(SPEC_DIR, "CliParserMC", "MC.cfg", timeout=1500, xmx="6g", workers=4, coverage=False)
        if thorough:
            ctx.mc(SPEC_DIR, "CliParserMC", "MC_wide.cfg", timeout=3000, xmx="8g", workers=4, coverage=False)
            ctx.mc(SPEC_DIR, "CliParserMC", "MC_thorough.cfg", timeout=6000, xmx="12g", workers=4, coverage=False)
    rng = random.Random(ctx.seed)
    runs = []
    # 1. regression scripts (strict members of the run unless their defect is still open)
    reg = regress_scripts()
    strict_reg = [(n, d, l) for n, d, l in reg if d not in OPEN_DEFECTS]
    open_reg = [(n, d, l) for n, d, l in reg if d in OPEN_DEFECTS]
    ctx.extra["regression_scripts"] = len(strict_reg)
    # 2. model -> code: TLC-generated behaviours
    want = 300 if not thorough else 3000
    gen_cfg = "Gen_noempty.cfg" if "D2" in OPEN_DEFECTS else "Gen.cfg"      # (same model, alphabet without the empty string)
    scripts, _ = tlc.gen_scripts(SPEC_DIR, "CliParserMC", gen_cfg, ctx.outdir, num=want, depth=40, seed=ctx.seed, workers=4)
    fam = {}
    for s in scripts:        # simulation prints every candidate last step: keep one script per prefix
        fam.setdefault(repr(s["ops"][:-1]), s)
    gen = [from_tlc(s, rng) for s in list(fam.values())[:want * 2]]
    ctx.extra["tlc_generated_scripts"] = len([g for g in gen if g])
    ctx.extra["tlc_generated_scripts_skipped_open_defect"] = len([g for g in gen if not g])
    runs += [g for g in gen if g]
    # 3. the bounded set the model explores, on the real code: every argv of <= n tokens
    if not thorough:
        b = bounded_execs(rng, TOKENS_ALL, 3, [T1]) + bounded_execs(rng, TOKENS_ALL, 2, [T2, T3]) + bounded_execs(rng, TOKENS_CORE, 4, [T2])
    else:
        b = bounded_execs(rng, TOKENS_ALL, 4, [T1]) + bounded_execs(rng, TOKENS_ALL, 3, [T2, T3]) + bounded_execs(rng, TOKENS_CORE, 5, [T2])
    ctx.extra["bounded_exhaustive_executions"] = len(b)
    runs += b
    # 4. seeded random command lines and dispatches
    nrand, ndisp = (1500, 300) if not thorough else (20000, 4000)
    runs += [random_exec(rng) for _ in range(nrand)]
    runs += [dispatch_exec(rng) for _ in range(ndisp)]
    ctx.extra["random_scripts"] = nrand
    ctx.extra["dispatch_scripts"] = ndisp
    execs = [l for n, d, l in strict_reg] + [r.lines for r in runs]
    for r in runs:
        ctx.evaluations += 1
        if r.ndispatch or (r.ngetopt >= 2 and any(" 2d" in ln for ln in r.lines if ln.startswith("ARGV"))):
            ctx.distinct.add(hash("\n".join(r.lines)))
    ctx.evaluations += len(strict_reg)
    ctx.add_sample({"script": runs[0].lines[:12]})
    ctx.add_sample({"script": runs[-1].lines[:8]})
    exe = prepare(ctx)       # (the shared build directory may have been pruned while TLC ran)
    if open_reg:
        probe_open_defects(ctx, exe, open_reg)
    pipeline.drive_and_validate(ctx, exe, execs, SPEC_DIR, "CliParserTrace", "Trace.cfg", label="cli")
