"""C06 priority queue: PQ.tla (multiset + handles) model-checked; TLC-generated and random scripts replayed on
aws_priority_queue with element sizes around the 128-byte swap slice; traces validated by PQTrace.tla."""
import random

from vlib import build, pipeline, tlc

LEVEL = "model_checking"
SPEC_DIR = "PQ"
SIZES = [1, 2, 3, 8, 127, 128, 129, 255, 256, 257, 300, 384]   # around and at multiples of the 128-byte swap slice


def prepare(ctx):
    return build.build_harness("pq_adapter", ["pq_adapter.c"], cflags=["-Wno-unused-function"])


def from_tlc(s, isz):
    lines = ["RESET %s %d %d" % (s["mode"], s["cap"], isz)]
    for o in s["ops"]:
        if o["op"] == "PUSH":
            lines.append("PUSH %d %d %d" % (o["v"], o["id"], o["h"]))
        elif o["op"] == "REMOVE":
            lines.append("REMOVE %d" % o["h"])
        else:
            lines.append(o["op"])
    return lines


def random_exec(rng, nops):
    isz = rng.choice(SIZES)
    static = rng.random() < 0.25
    cap = rng.choice([1, 2, 3, 5, 8]) if static else rng.choice([0, 1, 4, 16])
    lines = ["RESET %s %d %d" % ("static" if static else "dyn", cap, isz)]
    nvals = rng.choice([1, 2, 3, 6, 200])
    nid = 1
    inq = set()        # the driver's own idea of which handles are busy: only used to respect the environment
    size = 0           # obligation "push with a handle that is not in the queue"; a wrong guess is harmless because
    first_handle_late = rng.random() < 0.5   # the spec re-checks the obligation before accepting the event
    for i in range(nops):
        r = rng.random()
        if r < 0.45:
            h = 0
            free = [x for x in range(1, 13) if x not in inq]
            if free and rng.random() < 0.5 and not (first_handle_late and size < 3 and i < 6):
                h = rng.choice(free)
            idv = nid if isz != 2 else nid % 256
            lines.append("PUSH %d %d %d" % (rng.randrange(nvals), idv, h))
            nid += 1
            if static and (size >= cap or h):
                pass
            else:
                size += 1
                if h:
                    inq.add(h)
        elif r < 0.65:
            lines.append("POP")
            inq.clear() if False else None
            size = max(0, size - 1)
            # the popped element may carry a handle; we do not know which: resync below is not needed because
            # the spec, not the driver, is the oracle. To keep the obligation we conservatively stop reusing handles
            # until they are known free again (REMOVE/CLEAR).
        elif r < 0.75:
            lines.append("TOP")
        elif r < 0.95:
            h = rng.choice(range(1, 13))
            lines.append("REMOVE %d" % h)
            if h in inq:
                inq.discard(h)
                size = max(0, size - 1)
        else:
            lines.append("CLEAR")
            inq.clear()
            size = 0
        if isz == 2 and nid > 250:
            break
    return lines


def big_heap_exec(rng):
    """fill a heap of 8..30 distinct-ish values (most elements carry a handle), then remove through handles at every
    depth of the heap and pop in between: removal from the middle of a larger heap is where the re-sift decisions
    (up or down, leaf or inner slot, moved element from another branch) are made"""
    isz = rng.choice([3, 8, 129, 256])
    lines = ["RESET dyn %d %d" % (rng.choice([0, 4, 32]), isz)]
    n = rng.randint(8, 30)
    vals = list(range(n)) if rng.random() < 0.6 else [rng.randrange(n) for _ in range(n)]
    rng.shuffle(vals)
    nid = 1
    busy = []
    free = list(range(1, 13))
    for v in vals:
        h = 0
        if free and rng.random() < 0.8:
            h = free.pop(rng.randrange(len(free)))
            busy.append(h)
        lines.append("PUSH %d %d %d" % (v % 200, nid, h))
        nid += 1
    for _ in range(rng.randint(6, 20)):
        r = rng.random()
        if r < 0.55 and busy:
            h = busy.pop(rng.randrange(len(busy)))
            lines.append("REMOVE %d" % h)       # (the handle stays unusable for the driver: it may or may not be free)
        elif r < 0.85:
            lines.append("POP")
        else:
            lines.append("PUSH %d %d 0" % (rng.randrange(n) % 200, nid))
            nid += 1
    for _ in range(n):
        lines.append("POP")
    return lines


CMPS = ["3way", "3way", "bool", "diff"]


def with_cmp(rng, ex):
    """the comparator shape is a parameter of the queue, not of the order: every family runs with all three"""
    if ex and ex[0].startswith("RESET ") and len(ex[0].split()) == 4:
        ex = [ex[0] + " " + rng.choice(CMPS)] + ex[1:]
        # ... and so is where the caller keeps the handle: in a fifth of the executions the elements are records that embed
        # their own handle and a record is removed into itself (output buffer overlapping the handle; pq_adapter.c "embed")
        if rng.random() < 0.2:
            ex[0] += " embed"
    return ex


def resift_exec(rng):
    """remove-by-handle where the element moved into the vacated slot has to travel (up towards the root or down), then
    pushes that bury it, then a complete drain: a removal that leaves the heap out of order shows only several calls
    later.  A reference heap in the driver (same algorithm: append + sift up, swap with last + sift either) picks the
    handle; it steers only - the verdict is the specification's on what the real queue returned."""
    isz = rng.choice([3, 8, 129])
    n = rng.randint(5, 12)
    lines = ["RESET dyn %d %d" % (rng.choice([0, 4, 32]), isz)]
    vals = rng.sample(range(0, 3 * n + 4), n)
    heap = []                                   # [v, handle]

    def up(i):
        moved = False
        while i and heap[(i - 1) // 2][0] > heap[i][0]:
            heap[(i - 1) // 2], heap[i] = heap[i], heap[(i - 1) // 2]
            i = (i - 1) // 2
            moved = True
        return moved

    def down(i):
        while True:
            l, r, f = 2 * i + 1, 2 * i + 2, i
            if l < len(heap) and heap[f][0] > heap[l][0]:
                f = l
            if r < len(heap) and heap[f][0] > heap[r][0]:
                f = r
            if f == i:
                return
            heap[f], heap[i] = heap[i], heap[f]
            i = f

    nid = 1
    for k, v in enumerate(vals):
        h = k + 1
        lines.append("PUSH %d %d %d" % (v, nid, h))
        nid += 1
        heap.append([v, h])
        up(len(heap) - 1)
    for _ in range(rng.choice([1, 1, 2, 3])):
        if len(heap) < 4:
            break
        last = len(heap) - 1
        ups = [i for i in range(1, last) if heap[i][1] and heap[last][0] < heap[(i - 1) // 2][0]]
        downs = [i for i in range(0, last) if heap[i][1] and i not in ups]
        if not ups and not downs:
            break
        i = rng.choice(ups) if ups and rng.random() < 0.75 else rng.choice(downs or ups)
        lines.append("REMOVE %d" % heap[i][1])
        heap[i], heap[last] = heap[last], heap[i]
        heap.pop()
        if i < len(heap) and not (i and up(i)):
            down(i)
        for _ in range(rng.choice([0, 1, 1, 2, 3])):
            v = rng.choice([3 * n + 5 + nid, rng.randrange(0, 3 * n + 4)]) % 250
            lines.append("PUSH %d %d 0" % (v, nid))
            nid += 1
            heap.append([v, 0])
            up(len(heap) - 1)
    for _ in range(len(heap)):
        lines.append("POP" if rng.random() < 0.8 else "TOP")
    lines += ["POP"] * len(heap)
    return lines


def run(ctx):
    thorough = ctx.tier == "thorough"
    exe = prepare(ctx)
    ctx.rule = ("execution = one queue (dynamic/static, element size from {1,2,3,8,127,128,129,300}) + a sequence of "
                "push/push_ref/pop/top/remove/clear; distinct = distinct script text; non-trivial = contains at least "
                "one push with a handle and one pop or remove")
    ctx.assumptions += [
        "comparator is a strict weak order on the first byte of the element, given in three shapes: -1/0/+1, 'a > b' (0/1, "
        "as the library's task scheduler passes) and a scaled difference",
        "scripts respect the API obligation that a handle is not pushed while it is still in the queue",
        "allocation cannot fail (aws_mem_acquire aborts on OOM), so push on a dynamic queue cannot fail",
    ]
    ctx.mc(SPEC_DIR, "PQMC", "MC_thorough.cfg" if thorough else "MC.cfg", timeout=3000, xmx="16g",
           required_actions=["PQMC!MCPush", "PQMC!MCPop", "PQMC!MCRemove", "PQMC!MCClear", "PQMC!MCTop"])
    # implementation-shaped layer: binary heap + back-pointer array (sift up/down/either, lazy handle array)
    ctx.mc(SPEC_DIR, "PQHeap", "MC_heap.cfg" if thorough else "MC_heap_quick.cfg", timeout=3000, xmx="12g",
           required_actions=["PQHeap!Pop", "PQHeap!Clear"])
    scripts, _ = tlc.gen_scripts(SPEC_DIR, "PQMC", "Gen.cfg", ctx.outdir, num=600 if not thorough else 8000, depth=40,
                                 seed=ctx.seed, workers=4)
    rng = random.Random(ctx.seed)
    execs = [from_tlc(s, SIZES[i % len(SIZES)] if SIZES[i % len(SIZES)] != 2 else 3) for i, s in enumerate(scripts)]
    ctx.extra["tlc_generated_scripts"] = len(execs)
    nrand = 1200 if not thorough else 30000
    for _ in range(nrand):
        execs.append(random_exec(rng, rng.randint(8, 70)))
    nbig = 500 if not thorough else 10000
    for _ in range(nbig):
        execs.append(big_heap_exec(rng))
    nres = 500 if not thorough else 10000
    for _ in range(nres):
        execs.append(resift_exec(rng))
    execs = [with_cmp(rng, ex) for ex in execs]
    ctx.extra["random_scripts"] = nrand
    ctx.extra["big_heap_scripts"] = nbig
    ctx.extra["resift_scripts"] = nres
    for ex in execs:
        ctx.evaluations += 1
        has_h = any(ln.startswith("PUSH") and not ln.endswith(" 0") for ln in ex)
        has_rm = any(ln.startswith("POP") or ln.startswith("REMOVE") for ln in ex)
        if has_h and has_rm:
            ctx.distinct.add(hash("\n".join(ex)))
    ctx.add_sample({"script": execs[0][:14]})
    ctx.add_sample({"script": execs[-1][:14]})
    pipeline.drive_and_validate(ctx, exe, execs, SPEC_DIR, "PQTrace", "Trace.cfg", label="pq")
    # queues of their own on several threads at once (Stateless.tla: an operation = a whole pseudo-random program on a private
    # queue, one outcome whoever runs it and whatever the others do) and a ThreadSanitizer pass over the same scenarios: state
    # hidden behind the API and shared between unrelated queues is a data race whatever the schedule
    from checks import stateless_common
    stateless_common.drive(ctx, ["qp", "qp", "la"], thorough, n=40 if not thorough else 1000)
