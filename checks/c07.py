"""C07 task scheduler runs every task exactly once, never early, in time order.
TaskSched.tla (exactly-once invocation per schedule, never early, run-now FIFO then timed non-decreasing, tasks
scheduled from inside a task wait for the next run_all, has_tasks = earliest pending time, clean_up cancels
everything) is model-checked with re-entrant task functions; TLC-generated and seeded random programs - external
calls plus, per task and per invocation, the calls its function makes back into the scheduler from inside the real
callback - are replayed on the real aws_task_scheduler with timestamps from {0,1,2,3,5,8,..,1000,5000,2^31,2^32,2^33,2^63,UINT64_MAX-2,UINT64_MAX-1,
UINT64_MAX}; the flat event stream (external calls, Invoked events written inside the callbacks, nested calls) is
validated by TLC against the specification."""
import random

from vlib import build, pipeline, tlc

LEVEL = "model_checking"
SPEC_DIR = "TaskSched"
NTT = 24         # size of the adapter's time table; index NTT-1 is UINT64_MAX
NT = 6


def prepare(ctx):
    return build.build_harness("tasksched_adapter", ["tasksched_adapter.c"], cflags=["-Wno-unused-function"])


def act_txt(a, tmap):
    if a["op"] == "NOW":
        return "NOW %d" % a["t"]
    if a["op"] == "FUT":
        return "FUT %d %d" % (a["t"], tmap[a["time"]])
    if a["op"] == "CANCEL":
        return "CANCEL %d" % a["t"]
    if a["op"] == "RUN":
        return "RUN %d" % tmap[a["time"]]
    return a["op"]          # HAS, CLEANUP


def from_tlc(s, rng, model_maxt=4):
    """Model times 0..model_maxt are mapped order-preservingly into the adapter's table, endpoints fixed
    (0 -> 0, model_maxt -> UINT64_MAX)."""
    mid = sorted(rng.sample(range(1, NTT - 1), model_maxt - 1))
    tmap = [0] + mid + [NTT - 1]
    lines = ["RESET"]
    for t, invs in enumerate(s["prog"], start=1):
        for k, acts in enumerate(invs, start=1):
            if acts and k <= 16:
                lines.append("PROG %d %d %s" % (t, k, " ".join(act_txt(a, tmap) for a in acts[:3])))
    for o in s["ops"]:
        lines.append(act_txt(o, tmap))
    lines.append("FIN")
    return lines


def random_exec(rng, nops):
    ntasks = rng.choice([2, 3, 4, 6])
    # few distinct times per execution => many ties; always offer 0 and UINT64_MAX
    pool = sorted(set([0, NTT - 1] + rng.sample(range(0, NTT), rng.choice([1, 2, 3]))))

    def tm():
        return rng.choice(pool)

    def task():
        return rng.randint(1, ntasks)

    lines = ["RESET"]
    for t in range(1, ntasks + 1):
        for k in range(1, rng.choice([1, 2, 3, 4]) + 1):
            if rng.random() < 0.6:
                acts = []
                for _ in range(rng.choice([1, 1, 2, 3])):
                    q = rng.random()
                    other = task()
                    if q < 0.2:
                        acts.append("NOW %d" % t)                     # re-schedule self
                    elif q < 0.35:
                        acts.append("FUT %d %d" % (t, tm()))          # re-schedule self, timed
                    elif q < 0.5:
                        acts.append("NOW %d" % other)
                    elif q < 0.7:
                        acts.append("FUT %d %d" % (other, tm()))
                    else:
                        acts.append("CANCEL %d" % other)              # maybe a task of the current batch, maybe self
                lines.append("PROG %d %d %s" % (t, k, " ".join(acts)))
    for _ in range(nops):
        r = rng.random()
        if r < 0.22:
            lines.append("NOW %d" % task())
        elif r < 0.52:
            lines.append("FUT %d %d" % (task(), tm()))
        elif r < 0.62:
            lines.append("CANCEL %d" % task())
        elif r < 0.66:
            lines.append("CANCELI %d" % task())       # cancel of a task that is not scheduled (never, or not any more)
        elif r < 0.82:
            lines.append("RUN %d" % tm())
        elif r < 0.97:
            lines.append("HAS")
        else:
            lines.append("CLEANUP")
    lines.append("FIN")
    return lines


def heap_exec(rng):
    """8..16 timed tasks with distinct times (so their order is fully determined), cancels out of the middle of the
    timed queue - from outside and from inside a running task -, the next-task-time query after every change, and
    run_all at increasing times: the removal from a larger heap is where the queue's re-sift decisions are made"""
    n = rng.randint(10, 16)
    times = rng.sample(range(1, NTT - 1), n)
    lines = ["RESET"]
    canceller = None
    if rng.random() < 0.5:
        canceller = rng.randint(1, n)
        victims = rng.sample([t for t in range(1, n + 1) if t != canceller], rng.randint(1, 3))
        lines.append("PROG %d 1 %s" % (canceller, " ".join("CANCEL %d" % v for v in victims)))
    order = list(range(1, n + 1))
    rng.shuffle(order)
    for t in order:
        if t == canceller:
            lines.append("NOW %d" % t)
        else:
            lines.append("FUT %d %d" % (t, times[t - 1]))
    lines.append("HAS")
    if canceller:
        lines.append("RUN 0")
        lines.append("HAS")
    if n < 16 and rng.random() < 0.5:
        lines.append("CANCELI %d" % (n + 1))            # a task that was initialised and never handed over
        lines.append("HAS")
    for t in rng.sample(order, rng.randint(3, min(8, n - 2))):
        lines.append("CANCEL %d" % t)
        lines.append("HAS")
        if rng.random() < 0.2:
            lines.append("CANCELI %d" % t)              # ... and once more, now that it is not scheduled any more
            lines.append("HAS")
    for tm in sorted(rng.sample(range(1, NTT), rng.randint(3, 8))):
        lines.append("RUN %d" % tm)
        lines.append("HAS")
    lines.append("FIN")
    return lines


def run(ctx):
    thorough = ctx.tier == "thorough"
    exe = prepare(ctx)
    ctx.rule = ("execution = one scheduler, up to 6 tasks, a program per task and invocation (calls made from inside the "
                "task function: schedule-now/-future of any task incl. itself, cancel) + a sequence of external "
                "schedule_now / schedule_future(time) / cancel / run_all(time) / has_tasks / clean_up; times from "
                "{0,1,2,3,5,8,..,1000,5000,2^31,2^32,2^33,2^63,UINT64_MAX-2,UINT64_MAX-1,UINT64_MAX}; distinct = distinct script text; non-trivial = at least one "
                "run_all, one task program and three schedule calls")
    ctx.assumptions += [
        "scripts respect the API preconditions: a task is scheduled only while not scheduled, only scheduled tasks are "
        "cancelled (the adapter skips script lines for which this does not hold at that moment), has_tasks / run_all / "
        "clean_up are not called from inside a task function",
        "allocation cannot fail, so the timed_list overflow path of schedule_future is unreachable and not modelled",
        "order among tasks with equal timestamps is left open; order of CANCELED invocations inside clean_up is left open",
        "model constants: 3 tasks, times {0,1,2}, <= 4 (quick) / 6 (thorough) schedule calls, 2 calls per task function",
        "memory released by clean_up is logged, not judged (not part of the property statement)",
    ]
    ctx.mc(SPEC_DIR, "TaskSchedMC", "MC_thorough.cfg" if thorough else "MC.cfg", timeout=3000, xmx="16g",
           required_actions=["TaskSchedMC!" + a for a in (
               "MCScheduleNow", "MCScheduleFuture", "MCCancel", "MCRunAllBegin", "MCInvokedRun", "MCInvokedCanceled",
               "MCRunAllEnd", "MCHasTasks", "MCCleanUpBegin", "MCCleanUpEnd")])
    scripts, _ = tlc.gen_scripts(SPEC_DIR, "TaskSchedMC", "Gen.cfg", ctx.outdir, num=400 if not thorough else 8000,
                                 depth=70, seed=ctx.seed, workers=4)
    rng = random.Random(ctx.seed)
    execs = [from_tlc(s, rng) for s in scripts[:1500 if not thorough else 30000]]
    ctx.extra["tlc_generated_scripts"] = len(execs)
    nrand = 2500 if not thorough else 60000
    for _ in range(nrand):
        execs.append(random_exec(rng, rng.randint(10, 45)))
    nheap = 1800 if not thorough else 20000
    for _ in range(nheap):
        execs.append(heap_exec(rng))
    ctx.extra["random_scripts"] = nrand
    ctx.extra["timed_heap_scripts"] = nheap
    for ex in execs:
        ctx.evaluations += 1
        if (any(ln.startswith("RUN") for ln in ex) and any(ln.startswith("PROG") for ln in ex)
                and sum(1 for ln in ex if ln.startswith(("NOW", "FUT"))) >= 3):
            ctx.distinct.add(hash("\n".join(ex)))
    ctx.add_sample({"script": execs[0][:16]})
    ctx.add_sample({"script": execs[-1][:16]})
    exe = prepare(ctx)   # the build directory is shared and pruned by other runs: re-check right before use
    pipeline.drive_and_validate(ctx, exe, execs, SPEC_DIR, "TaskSchedTrace", "Trace.cfg", label="ts")
