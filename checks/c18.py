"""C18 linked hash table keeps insertion order; FIFO / LIFO / LRU caches evict by their stated policy.
LinkedHash.tla (ordered map with exactly-once destruction of displaced keys and values) and Cache.tla (the three
eviction policies over it, with the property's clauses checked against an independent use-history) are
model-checked; TLC-generated and seeded random scripts are replayed on the real aws_linked_hash_table and on the
real fifo/lifo/lru aws_cache with keys that are equal by class but distinct as objects, with and without
destructors, under three user hash functions (spread, two buckets, all colliding); after every call the public
iteration list, the element count and the destructor counters are validated by TLC against the specification."""
import random

from vlib import build, pipeline, tlc

LEVEL = "model_checking"
POL = {1: "fifo", 2: "lifo", 3: "lru"}


def prepare(ctx):
    return build.build_harness("lhcache_adapter", ["lhcache_adapter.c"], cflags=["-Wno-unused-function"])


def ops_lines(ops):
    lines = []
    for o in ops:
        op = o["op"]
        if op == "PUT":
            lines.append("PUT %d %d %d" % (o["c"], o["p"], o["v"]))
        elif op in ("FIND", "FINDMV", "REMOVE"):
            lines.append("%s %d %d" % (op, o["c"], o["p"]))
        elif op == "TOEND":
            lines.append("TOEND %d" % o["c"])
        else:
            lines.append(op)
    return lines


def lh_from_tlc(s, n):
    r = s["ops"][0]
    return ["RESET lht %d %d %d %d %d" % ([0, 1, 4, 16][n % 4], r["c"], r["p"], n % 3, n % 2)] + ops_lines(s["ops"][1:]) + ["FIN"]


def cache_from_tlc(s, n):
    r = s["ops"][0]
    return ["RESET %s %d %d %d %d %d" % (POL[r["c"]], r["p"], r["v"] // 2, r["v"] % 2, n % 3, (n // 3) % 2)] + ops_lines(s["ops"][1:]) + ["FIN"]


def key(rng, ncls):
    return rng.randint(1, ncls), rng.randint(1, 2)


def put_args(rng, c, p, v, dv, puts):
    """arguments of the next put; appends (c, p, value) to puts and returns (c, p, highest fresh value so far).
    With a value destructor every put brings a fresh value object; without one, a third of the puts store NULL, a
    value object used before, or repeat an earlier put exactly (same key object, same value object)."""
    r = rng.random()
    if dv and r < 0.12:
        puts.append((c, p, 0))               # NULL is a value like any other: its entry is displaced (and "destroyed") like the rest
        return c, p, v
    if dv or r < 0.67 or not puts:
        v += 1
        puts.append((c, p, v))
    elif r < 0.77:
        puts.append((c, p, 0))
    elif r < 0.87:
        puts.append((c, p, rng.choice(puts)[2]))
    else:
        c, p, old = rng.choice(puts[-6:])
        puts.append((c, p, old))
    return c, p, v


def nullify(ex):
    """executions whose RESET asks for it hand the key object (1, 1) to the library as the NULL pointer.  The hash table
    makes NULL a key of its own (equal to NULL only, whatever the user's equality says), so class 1 then has this one
    key object: every (1, 2) becomes (1, 1)."""
    if not ex or not ex[0].startswith("RESET") or ex[0].split()[-1] != "1" or len(ex[0].split()) < 7:
        return ex
    out = []
    for ln in ex:
        t = ln.split()
        if t[0] in ("PUT", "FIND", "FINDMV", "REMOVE", "USE") and len(t) >= 3 and t[1] == "1":
            t[2] = "1"
        out.append(" ".join(t))
    return out


def key_inside(ex, rng):
    """where there is a value destructor and no key destructor, most executions use the layout linked_hash_table.c itself
    mentions - the key is a field of the value record: once a value's destructor has run its key reads as garbage until
    the call returns (lhcache_adapter.c kin_mode)"""
    t = ex[0].split() if ex else []
    if len(t) == 7 and t[0] == "RESET" and t[3] == "0" and t[4] == "1" and rng.random() < 0.7:
        return [ex[0] + " 1"] + ex[1:]
    return ex


def lh_random(rng, nops):
    ncls = rng.choice([1, 2, 3, 4, 6])
    dv = rng.randint(0, 1)
    lines = ["RESET lht %d %d %d %d %d" % (rng.choice([0, 1, 2, 8, 32]), rng.randint(0, 1), dv, rng.randint(0, 2), rng.randint(0, 1))]
    v = 0
    puts = []
    for _ in range(nops):
        r = rng.random()
        c, p = key(rng, ncls)
        if r < 0.45:
            c, p, v = put_args(rng, c, p, v, dv, puts)
            lines.append("PUT %d %d %d" % (c, p, puts[-1][2]))
        elif r < 0.58:
            lines.append("FIND %d %d" % (c, p))
        elif r < 0.72:
            lines.append("FINDMV %d %d" % (c, p))
        elif r < 0.86:
            lines.append("REMOVE %d %d" % (c, p))
        elif r < 0.90:
            lines.append("CLEAR")
        else:
            lines.append("TOEND %d" % c)
    lines.append("FIN")
    return lines


def cache_random(rng, nops):
    kind = rng.choice(["fifo", "lifo", "lru", "lru"])
    mx = rng.choice([1, 1, 2, 2, 3, 4, 8])
    ncls = rng.choice([min(6, mx + 1), min(6, mx + 2), 6, min(6, max(1, mx))])
    dv = rng.randint(0, 1)
    lines = ["RESET %s %d %d %d %d %d" % (kind, mx, rng.randint(0, 1), dv, rng.randint(0, 2), rng.randint(0, 1))]
    v = 0
    puts = []
    for _ in range(nops):
        r = rng.random()
        c, p = key(rng, ncls)
        if r < 0.48:
            c, p, v = put_args(rng, c, p, v, dv, puts)
            lines.append("PUT %d %d %d" % (c, p, puts[-1][2]))
        elif r < 0.70:
            lines.append("FIND %d %d" % (c, p))
        elif r < 0.82:
            lines.append("REMOVE %d %d" % (c, p))
        elif r < 0.85:
            lines.append("CLEAR")
        elif kind == "lru":
            lines.append("USELRU" if r < 0.94 else "GETMRU")
        else:
            lines.append("FIND %d %d" % (c, p))
    lines.append("FIN")
    return lines


def run(ctx):
    thorough = ctx.tier == "thorough"
    exe = prepare(ctx)
    ctx.rule = ("execution = one linked hash table, or one fifo/lifo/lru cache with max from {1,2,3,4,8}, with or without "
                "key/value destructors, one of three user hash functions, + a sequence of put (fresh value object, key "
                "object one of two per class), find, find_and_move_to_back, remove, clear, move_node_to_end_of_list, "
                "use_lru_element, get_mru_element, then clean_up/destroy; distinct = distinct script text; non-trivial = "
                "at least 4 puts and one find or remove")
    ctx.assumptions += [
        "allocation cannot fail (aws_mem_acquire aborts on OOM), so put cannot fail",
        "user hash and equality are consistent (both look at the key's class only); with a value destructor installed value objects are fresh per put or NULL, without one they may repeat or be NULL",
        "a replaced entry whose key is the same object as the new key is not 'displaced': that key object stays in the table",
        "state is observed through the public iteration list and element count only (no extra lookups on an lru cache)",
        "model constants: 3 classes x 2 key objects, max <= 2 (quick) / 3 (thorough) in the exhaustive model",
    ]
    ctx.mc("LinkedHash", "LinkedHashMC", "MC_thorough.cfg" if thorough else "MC.cfg", timeout=3000, xmx="16g",
           required_actions=["LinkedHashMC!" + a for a in ("MCPut", "MCPutAgain", "MCFind", "MCFindMove", "MCRemove", "MCClear", "MCMoveToEnd")])
    ctx.mc("Cache", "CacheMC", "MC_thorough.cfg" if thorough else "MC.cfg", timeout=3000, xmx="16g",
           required_actions=["CacheMC!" + a for a in ("MCPut", "MCPutAgain", "MCFind", "MCRemove", "MCClear", "MCUseLru", "MCGetMru")])
    cap = 600 if not thorough else 20000
    lh_scripts, _ = tlc.gen_scripts("LinkedHash", "LinkedHashMC", "Gen.cfg", ctx.outdir, num=300 if not thorough else 5000,
                                    depth=45, seed=ctx.seed, workers=4)
    lh_execs = [lh_from_tlc(s, i) for i, s in enumerate(lh_scripts[:cap])]
    c_scripts, _ = tlc.gen_scripts("Cache", "CacheMC", "Gen.cfg", ctx.outdir, num=400 if not thorough else 6000,
                                   depth=45, seed=ctx.seed, workers=4)
    c_execs = [cache_from_tlc(s, i) for i, s in enumerate(c_scripts[:cap])]
    ctx.extra["tlc_generated_scripts"] = {"linked_hash_table": len(lh_execs), "cache": len(c_execs)}
    rng = random.Random(ctx.seed)
    n_lh = 700 if not thorough else 30000
    n_c = 1200 if not thorough else 50000
    for _ in range(n_lh):
        lh_execs.append(lh_random(rng, rng.randint(8, 60)))
    for _ in range(n_c):
        c_execs.append(cache_random(rng, rng.randint(8, 60)))
    ctx.extra["random_scripts"] = {"linked_hash_table": n_lh, "cache": n_c}
    for ex in lh_execs + c_execs:
        ctx.evaluations += 1
        if sum(1 for ln in ex if ln.startswith("PUT")) >= 4 and any(ln.startswith(("FIND", "REMOVE")) for ln in ex):
            ctx.distinct.add(hash("\n".join(ex)))
    ctx.add_sample({"linked_hash_table_script": lh_execs[0][:14]})
    ctx.add_sample({"linked_hash_table_script": lh_execs[-1][:14]})
    ctx.add_sample({"cache_script": c_execs[0][:14]})
    ctx.add_sample({"cache_script": c_execs[-1][:14]})
    # the build directory is shared and pruned by other runs: make sure the executable (still) exists right before use
    exe = prepare(ctx)
    lh_execs = [key_inside(nullify(ex), rng) for ex in lh_execs]
    c_execs = [key_inside(nullify(ex), rng) for ex in c_execs]
    pipeline.drive_and_validate(ctx, exe, lh_execs, "LinkedHash", "LinkedHashTrace", "Trace.cfg", label="lht")
    exe = prepare(ctx)
    pipeline.drive_and_validate(ctx, exe, c_execs, "Cache", "CacheTrace", "Trace.cfg", label="cache")
