"""X04 (extra) OS facade: environment variables (environment.h) and the file API (file.h + the two file readers of
byte_buf.h). Env.tla / File.tla state what the headers document (environment = map name -> value; file system = tree of
directories and files with contents); TLC explores them exhaustively on a tiny name space, generates operation scripts,
and validates every event of the scripts replayed on the real functions inside a private scratch directory under the
check's output directory (tree, environment, live allocator blocks and open descriptors observed after every call)."""
import os
import random
import shutil

from vlib import build, pipeline, tlc
from vlib.common import SPEC

LEVEL = "model_checking"
SPEC_DIR = "OsFacade"
NAMES = [1, 2, 3, 4, 5, 6, 7]          # adapter: a, "b b", c.d, .h, e..f, "...", a 60-character name
ENVIDS = [0, 1, 2, 3, 11]              # 0 = HOME, n = VERIF_X04_<n> (1 and 11: one name is a prefix of the other)
# file lengths around the reader's growth steps (32 .. 4096) and its "+1 for the terminator" capacity
SIZES = [0, 1, 2, 3, 31, 32, 33, 63, 64, 65, 100, 255, 256, 1000, 4095, 4096, 4097, 8191, 8192, 8193, 12288, 12289, 20000]
SMALL = [0, 1, 2, 5, 31, 32, 33, 64, 100]
MODES_R = ["r", "rb", "r+"]
MODES_W = ["w", "wb", "w+"]
MODES_A = ["a", "ab", "a+"]


def prepare(ctx):
    return build.build_harness("osfacade_adapter", ["osfacade_adapter.c"], cflags=["-Wno-unused-function"])


def ptok(p):
    return ",".join(str(x) for x in p) if p else "-"


def hexs(b):
    return b.hex() if b else "-"


class Model:
    """The driver's own prediction of the state (posix behaviour of the unchanged library). It is used only to choose
    arguments and to keep the scripts inside the documented usage (no tree change while the iterator is open, the file
    behind the open handle stays in place, writes only through write handles ...). The oracle is the specification."""

    def __init__(self):
        self.dirs = {()}
        self.files = {}
        self.links = set()
        self.fh = None          # (path, m)
        self.it = False
        self.env = {}

    # ---- queries
    def isdir(self, p):
        return p in self.dirs

    def isfile(self, p):
        return p in self.files

    def exists(self, p):
        return p in self.dirs or p in self.files or p in self.links

    def under(self, p):
        return [q for q in list(self.dirs) + list(self.files) + list(self.links) if len(q) > len(p) and q[:len(p)] == p]

    def nolink(self, p):
        """documented usage: a path handed to the library neither names nor crosses a symbolic link"""
        return not any(p[:k] in self.links for k in range(1, len(p) + 1))

    def mutable(self, p):
        if self.it:
            return False
        if self.fh and self.fh[0][:len(p)] == p:
            return False
        return True

    # ---- predicted effects
    def put(self, p, n):
        self.files[p] = n

    def mkdir(self, p):
        if not self.exists(p) and self.isdir(p[:-1]):
            self.dirs.add(p)

    def ddelete(self, p, rec):
        if self.isdir(p):
            u = self.under(p)
            if u and not rec:
                return
            for q in u:
                self.dirs.discard(q)
                self.files.pop(q, None)
                self.links.discard(q)
            self.dirs.discard(p)

    def fdelete(self, p):
        self.files.pop(p, None)

    def move(self, a, b):
        if not self.exists(a) or not self.isdir(b[:-1]) or a == b or b[:len(a)] == a:
            return
        if self.exists(b):
            if self.isdir(a):
                if not self.isdir(b) or self.under(b):
                    return
            elif not self.isfile(b):
                return
            self.dirs.discard(b)
            self.files.pop(b, None)
        moved_d = [q for q in self.dirs if q[:len(a)] == a]
        moved_f = [q for q in self.files if q[:len(a)] == a]
        for q in moved_d:
            self.dirs.discard(q)
            self.dirs.add(b + q[len(a):])
        for q in moved_f:
            self.files[b + q[len(a):]] = self.files.pop(q)
        for q in [q for q in self.links if q[:len(a)] == a]:
            self.links.discard(q)
            self.links.add(b + q[len(a):])

    def fopen(self, p, m):
        if m == "r":
            if self.isfile(p):
                self.fh = (p, m)
        elif not self.isdir(p) and self.isdir(p[:-1]):
            if m == "w" or not self.isfile(p):
                self.files[p] = 0
            self.fh = (p, m)


def sanitize(model, line):
    """Applies one script line to the model if the documented usage allows it now; returns False to drop the line."""
    t = line.split()
    op = t[0]

    def P(s):
        return tuple(int(x) for x in s.split(",")) if s != "-" else ()
    # a path handed to the library neither names nor crosses a symbolic link
    lib_paths = {"DCREATE": [2], "DEXISTS": [2], "PEXISTS": [2], "DDELETE": [2], "FDELETE": [2], "MOVE": [2, 3], "TRAVERSE": [2],
                 "ITNEW": [2], "FOPEN": [3], "BUFFILE": [2]}
    for i in lib_paths.get(op, []):
        if not model.nolink(P(t[i])):
            return False
    if op in ("MKFILE", "APPENDRAW"):
        p = P(t[1])
        if not model.mutable(p) or not model.isdir(p[:-1]) or model.isdir(p) or p in model.links or not p:
            return False
        if op == "APPENDRAW":
            if not model.isfile(p):
                return False
            model.files[p] += int(t[3])
        else:
            model.put(p, int(t[3]))
    elif op == "MKDIRRAW":
        p = P(t[1])
        if not model.mutable(p) or model.exists(p) or not model.isdir(p[:-1]):
            return False
        model.mkdir(p)
    elif op == "MKLINKRAW":
        p = P(t[1])
        if not model.mutable(p) or model.exists(p) or not model.isdir(p[:-1]) or not p:
            return False
        model.links.add(p)
    elif op == "DCREATE":
        p = P(t[2])
        if not model.mutable(p) or not p:
            return False
        model.mkdir(p)
    elif op == "DDELETE":
        p = P(t[2])
        if not model.mutable(p) or not p:
            return False
        model.ddelete(p, t[3] == "1")
    elif op == "FDELETE":
        p = P(t[2])
        if not model.mutable(p) or not p:
            return False
        model.fdelete(p)
    elif op == "MOVE":
        a, b = P(t[2]), P(t[3])
        if not model.mutable(a) or not model.mutable(b) or not a or not b:
            return False
        model.move(a, b)
    elif op == "ITNEW":
        if model.it:
            return False
        model.it = model.isdir(P(t[2]))
    elif op in ("ITNEXT", "ITPREV"):
        return model.it
    elif op == "ITDESTROY":
        if not model.it:
            return False
        model.it = False
    elif op == "FOPEN":
        p, m = P(t[3]), t[4][0]
        if model.fh or not p or model.isdir(p) or (m != "r" and model.it):
            return False
        model.fopen(p, m)
    elif op == "FWRITE":
        if not model.fh or model.fh[1] == "r" or model.it:
            return False
        model.files[model.fh[0]] += int(t[2])
    elif op == "FLEN":
        return model.fh is not None
    elif op in ("FSEEK", "FREADREST"):
        return model.fh is not None and model.fh[1] == "r"
    elif op == "FCLOSE":
        if not model.fh:
            return False
        model.fh = None
    return True


def style_for(rng, model, p, dirish):
    """trailing-separator styles only where the name is (predicted to be) a directory or free"""
    if dirish and not model.isfile(p) and not any(model.isfile(p[:k]) for k in range(len(p))) and rng.random() < 0.25:
        return rng.choice(["R", "A"])
    return rng.choice(["r", "r", "a", "d"])


def from_tlc(s, rng):
    """TLC-generated operation sequence (FileMC.tla, names 1..3) -> script; sizes, styles, modes, hints chosen here"""
    model = Model()
    lines = ["RESET"]
    ren = rng.sample(NAMES, 3)

    def mp(p):
        return tuple(ren[x - 1] for x in p)
    for o in s["ops"]:
        op, p, q = o["op"], mp(o["p"]), mp(o["q"])
        if op == "MKFILE":
            ln = "MKFILE %s %d %d" % (ptok(p), rng.randrange(2, 1000), rng.choice(SMALL if o["x"] == 1 else SIZES))
        elif op == "MKDIRRAW":
            ln = "MKDIRRAW %s" % ptok(p)
        elif op == "MKLINKRAW":
            ln = "MKLINKRAW %s %s" % (ptok(p), rng.choice("dfx"))
        elif op in ("DCREATE", "DEXISTS", "PEXISTS", "FDELETE"):
            ln = "%s %s %s" % (op, style_for(rng, model, p, op != "FDELETE"), ptok(p))
        elif op == "DDELETE":
            ln = "DDELETE %s %s %d" % (style_for(rng, model, p, True), ptok(p), o["x"])
        elif op == "MOVE":
            ln = "MOVE %s %s %s" % (rng.choice(["r", "a", "d"]), ptok(p), ptok(q))
        elif op == "TRAVERSE":
            stop = o["y"]
            if stop and rng.random() < 0.5:
                stop = rng.randint(1, 6)
            ln = "TRAVERSE %s %s %d %d" % (style_for(rng, model, p, True), ptok(p), o["x"], stop)
        elif op == "ITNEW":
            ln = "ITNEW %s %s" % (style_for(rng, model, p, True), ptok(p))
        elif op == "FOPEN":
            mode = rng.choice({"r": MODES_R, "w": MODES_W, "a": MODES_A}[o["m"]])
            ln = "FOPEN %s %s %s %s" % (rng.choice("cs"), rng.choice(["r", "a", "d"]), ptok(p), mode)
        elif op == "FWRITE":
            ln = "FWRITE %d %d" % (rng.randrange(0, 1000), rng.choice(SMALL if o["x"] == 1 else SIZES))
        elif op == "FSEEK":
            off = o["x"] * (1 << 30) + o["y"]
            if o["x"] == 0 and rng.random() < 0.5:
                off = rng.choice(SMALL)
            if o["x"] == -1 and rng.random() < 0.5:
                off = -rng.choice(SMALL)
            ln = "FSEEK %d %s" % (off, o["m"])
        elif op == "BUFFILE":
            hinted = rng.random() < 0.5
            n = model.files.get(p, 0)
            hint = rng.choice([0, 1, max(0, n - 1), n, n + 1, 2 * n, 31, 32, 33, 4096])
            ln = "BUFFILE %s %s %d %d" % (rng.choice(["r", "a", "d"]), ptok(p), 1 if hinted else 0, hint if hinted else 0)
        else:
            ln = op           # ITNEXT ITPREV ITDESTROY FLEN FREADREST FCLOSE
        if sanitize(model, ln):
            lines.append(ln)
    return lines


# ---------------------------------------------------------------------------------------------- random executions
def pick_path(rng, model, kind):
    dirs = sorted(model.dirs)
    files = sorted(model.files)
    if kind == "dir":
        return rng.choice(dirs)
    if kind == "subdir":
        c = [d for d in dirs if d]
        return rng.choice(c) if c else None
    if kind == "file":
        return rng.choice(files) if files else None
    if kind == "new":
        c = [d for d in dirs if len(d) < 3]
        d = rng.choice(c)
        free = [n for n in NAMES if not model.exists(d + (n,))]
        return d + (rng.choice(free),) if free else None
    if kind == "missing-deep":
        p = pick_path(rng, model, "new")
        return p + (rng.choice(NAMES),) if p and len(p) < 4 else None
    if kind == "through-file":
        return rng.choice(files) + (rng.choice(NAMES),) if files else None
    if kind == "any":
        return pick_path(rng, model, rng.choice(["dir", "subdir", "file", "file", "new", "missing-deep", "through-file"]))
    return None


def tree_exec(rng, nops, flavour):
    model = Model()
    lines = ["RESET"]

    def emit(ln):
        if sanitize(model, ln):
            lines.append(ln)
    # a starting tree made by the adapter itself (ground truth), so that even the first library call sees content
    for _ in range(rng.randint(0, 6)):
        p = pick_path(rng, model, "new")
        if p is None:
            continue
        r0 = rng.random()
        if r0 < 0.45:
            emit("MKDIRRAW %s" % ptok(p))
        elif r0 < 0.55 and flavour != "read":
            emit("MKLINKRAW %s %s" % (ptok(p), rng.choice("dfx")))
        else:
            emit("MKFILE %s %d %d" % (ptok(p), rng.randrange(0, 1000), rng.choice(SIZES if flavour == "read" else SMALL)))
    w = {"tree": [30, 8, 8, 6, 6, 6], "read": [6, 4, 3, 30, 12, 0], "iter": [10, 25, 4, 3, 3, 0]}[flavour]
    while len(lines) < nops:
        cat = rng.choices(["mut", "walk", "query", "buf", "handle", "pure"], weights=w)[0]
        r = rng.random()
        if cat == "mut":
            if r < 0.22:
                p = pick_path(rng, model, rng.choice(["new", "new", "new", "dir", "file", "missing-deep", "through-file", "subdir"]))
                if p:
                    emit("DCREATE %s %s" % (style_for(rng, model, p, True), ptok(p)))
            elif r < 0.36:
                p = pick_path(rng, model, "new")
                if p:
                    r1 = rng.random()
                    if r1 < 0.4:
                        emit("MKDIRRAW %s" % ptok(p))
                    elif r1 < 0.55:
                        emit("MKLINKRAW %s %s" % (ptok(p), rng.choice("dfx")))
                    else:
                        emit("MKFILE %s %d %d" % (ptok(p), rng.randrange(0, 1000), rng.choice(SIZES if rng.random() < 0.3 else SMALL)))
            elif r < 0.42:
                p = pick_path(rng, model, "file")
                if p:
                    emit("%s %s %d %d" % (rng.choice(["MKFILE", "APPENDRAW"]), ptok(p), rng.randrange(0, 1000), rng.choice(SMALL)))
            elif r < 0.60:
                p = pick_path(rng, model, rng.choice(["subdir", "subdir", "subdir", "new", "file", "missing-deep", "through-file"]))
                if p:
                    emit("DDELETE %s %s %d" % (style_for(rng, model, p, True), ptok(p), rng.choice([0, 1, 1])))
            elif r < 0.75:
                p = pick_path(rng, model, rng.choice(["file", "file", "file", "new", "subdir", "missing-deep", "through-file"]))
                if p:
                    emit("FDELETE %s %s" % (rng.choice(["r", "a", "d"]), ptok(p)))
            else:
                a = pick_path(rng, model, rng.choice(["file", "subdir", "subdir", "file", "new"]))
                b = pick_path(rng, model, rng.choice(["new", "new", "new", "new", "file", "subdir", "missing-deep", "through-file"]))
                if a and b:
                    if rng.random() < 0.05:
                        b = a
                    if rng.random() < 0.05 and len(a) < 3:
                        b = a + (rng.choice(NAMES),)       # into itself
                    emit("MOVE %s %s %s" % (rng.choice(["r", "a", "d"]), ptok(a), ptok(b)))
        elif cat == "walk":
            if r < 0.5:
                p = pick_path(rng, model, rng.choice(["dir"] * 5 + ["subdir"] * 3 + ["file", "new"]))
                if p is not None:
                    total = len(model.under(p))
                    stop = 0 if rng.random() < 0.6 else rng.choice([1, 1, 2, max(1, total - 1), max(1, total), total + 1, rng.randint(1, 8)])
                    emit("TRAVERSE %s %s %d %d" % (style_for(rng, model, p, True), ptok(p), rng.choice([0, 1, 1]), stop))
            elif model.it:
                emit(rng.choice(["ITNEXT", "ITNEXT", "ITNEXT", "ITPREV", "ITPREV", "ITDESTROY"]))
            else:
                p = pick_path(rng, model, rng.choice(["dir", "dir", "subdir", "subdir", "file", "new"]))
                if p is not None:
                    emit("ITNEW %s %s" % (style_for(rng, model, p, True), ptok(p)))
                    if model.it:
                        # a full sweep forward (one step past the end) and back (one step past the start)
                        n = len([q for q in model.under(p) if len(q) == len(p) + 1])
                        if rng.random() < 0.5:
                            for _ in range(n + rng.choice([0, 1])):
                                emit("ITNEXT")
                            for _ in range(rng.randint(0, n + 1)):
                                emit("ITPREV")
                            if rng.random() < 0.5:
                                emit("ITNEXT")
        elif cat == "query":
            p = pick_path(rng, model, "any")
            if p is not None:
                emit("%s %s %s" % (rng.choice(["DEXISTS", "PEXISTS"]), style_for(rng, model, p, True), ptok(p)))
        elif cat == "buf":
            p = pick_path(rng, model, rng.choice(["file"] * 8 + ["new", "subdir", "missing-deep", "through-file"]))
            if p:
                n = model.files.get(p, 0)
                hinted = rng.random() < 0.5
                hint = rng.choice([0, 1, max(0, n - 1), n, n + 1, 2 * n, 31, 32, 33, 4096, 4097, 30000])
                st = "e" if rng.random() < 0.03 else rng.choice(["r", "a", "d"])
                emit("BUFFILE %s %s %d %d" % (st, ptok(p), 1 if hinted else 0, hint if hinted else 0))
        elif cat == "handle":
            if not model.fh:
                if r < 0.06:
                    emit("FOPENBAD %s %s" % (rng.choice(["path", "mode"]), ptok(pick_path(rng, model, "any") or (1,))))
                    continue
                kind = rng.choice(["r", "r", "w", "a"])
                if kind == "r":
                    p = pick_path(rng, model, rng.choice(["file", "file", "file", "new", "missing-deep"]))
                    modes = MODES_R
                else:
                    p = pick_path(rng, model, rng.choice(["file", "file", "new", "new", "missing-deep", "through-file"]))
                    modes = MODES_W if kind == "w" else MODES_A
                if p:
                    emit("FOPEN %s %s %s %s" % (rng.choice("cs"), rng.choice(["r", "a", "d"]), ptok(p), rng.choice(modes)))
            else:
                p, m = model.fh
                n = model.files.get(p, 0)
                if r < 0.2:
                    emit("FCLOSE")
                elif r < 0.4:
                    emit("FLEN")
                elif m == "r":
                    if r < 0.8:
                        off = rng.choice([0, 1, n - 1, n, n + 1, n // 2, 2 * n + 3, (1 << 32) + 5, (1 << 31), (1 << 31) - 1, rng.randint(0, n + 2)])
                        if rng.random() < 0.5:
                            emit("FSEEK %d set" % max(0, off) if rng.random() < 0.9 else "FSEEK %d set" % -rng.randint(1, 5))
                        else:
                            emit("FSEEK %d end" % rng.choice([0, -1, -n, -n - 1, -(n // 2), 1, 7, -n + 1, -2 * n - 2, (1 << 32) + 5]))
                    else:
                        emit("FREADREST")
                else:
                    emit("FWRITE %d %d" % (rng.randrange(0, 1000), rng.choice(SMALL + [4096, 5000])))
        else:
            if r < 0.2:
                emit("ISSEP")
            elif r < 0.3:
                emit("PLATSEP")
            else:
                k = rng.choice([0, 1, 2, 5, 17, 40])
                alphabet = [47, 92, 47, 92, 46, 97, 0, 58, 255, 32]
                emit("NORMALIZE %s" % hexs(bytes(rng.choice(alphabet) for _ in range(k))))
    if model.it and rng.random() < 0.7:
        emit("ITDESTROY")
    if model.fh and rng.random() < 0.7:
        emit("FCLOSE")
    return lines


ENV_VALUES = [b"", b"", b"x", b"a=b", b"two words", b"=", b'q"uo\\te', b"VERIF_X04_1", b"VERIF_X04_1=1", b"\xc3\xa9t\xc3\xa9", b"/home/x", b"/a b/c",
              b"A" * 300, b"0123456789" * 200, b" ", b"\t", b"x" * 31, b"y" * 32]


def env_exec(rng, nops):
    lines = ["RESET"]
    for _ in range(nops):
        r = rng.random()
        n = rng.choice(ENVIDS)
        if r < 0.35:
            lines.append("SETENV %d %s" % (n, hexs(rng.choice(ENV_VALUES))))
        elif r < 0.5:
            lines.append("UNSETENV %d" % n)
        elif r < 0.9:
            lines.append("GETENV %d %d" % (rng.choice([0, 1, 2]), n))
        else:
            lines.append("GETHOME")
    return lines


def nontrivial(ex):
    ops = set(ln.split()[0] for ln in ex)
    mut = ops & {"DCREATE", "DDELETE", "FDELETE", "MOVE", "FOPEN", "SETENV", "UNSETENV"}
    obs = ops & {"TRAVERSE", "ITNEW", "BUFFILE", "FLEN", "FREADREST", "GETENV", "GETHOME", "DEXISTS", "PEXISTS"}
    return bool(mut) and bool(obs)


def design_level(ctx, thorough):
    ctx.mc(SPEC_DIR, "FileMC", "MC_thorough.cfg" if thorough else "MC.cfg", timeout=3000, xmx="8g", workers=4,
           required_actions=["FileMC!MC" + a for a in (
               "RawPut", "RawMkdir", "DirCreate", "DirExists", "PathExists", "DirDelete", "FileDelete", "Move", "Traverse",
               "IterNew", "IterNext", "IterPrev", "IterDestroy", "Fopen", "Fwrite", "Flen", "Fseek", "FreadRest", "Fclose",
               "BufFromFile")])
    ctx.mc(SPEC_DIR, "FileMC", "MC_trav_thorough.cfg" if thorough else "MC_trav.cfg", timeout=3000, xmx="8g", workers=4,
           coverage=False, deadlock=False)     # (both names taken by links: nothing left to do in the tree-only configuration)
    ctx.mc(SPEC_DIR, "EnvMC", "MC_env.cfg", timeout=1200, xmx="4g", workers=4,
           required_actions=["EnvMC!MC" + a for a in ("Set", "Unset", "GetOld", "Get", "GetNonempty", "GetHome")])


def regress_execs():
    """stored executions that once exposed a defect (F16: iterator over an empty directory; F17: recursive delete of a
    directory that contains symbolic links): always run first"""
    out = []
    d = os.path.join(SPEC, SPEC_DIR, "regress")
    for f in sorted(os.listdir(d)):
        if f.endswith(".script"):
            out.append([ln for ln in open(os.path.join(d, f)).read().splitlines() if ln.strip() and not ln.startswith("#")])
    return out


def reader_execs(rng, thorough):
    """aws_byte_buf_init_from_file[_with_size_hint] as a byte-buffer initialiser (also run by C01): random trees with the
    'read' mix, every kind of path that must be refused after the file was opened or before, and files above the 128 MiB
    mark with hints below, at and above their size"""
    execs = [tree_exec(rng, rng.randint(15, 50), "read") for _ in range(60 if not thorough else 1500)]
    for _ in range(6 if not thorough else 60):
        a, b = rng.sample(NAMES, 2)
        ex = ["RESET", "MKDIRRAW %d" % a, "MKFILE %d,%d %d %d" % (a, b, rng.randrange(2, 1000), rng.choice(SIZES)), "MKDIRRAW %d,%d" % (a, a)]
        for _ in range(12):
            path = rng.choice(["%d" % a, "%d,%d" % (a, a), "%d,%d" % (a, b), "%d,%d,%d" % (a, b, a), "%d" % b, "-"])
            hinted = rng.random() < 0.6
            ex.append("BUFFILE %s %s %d %d" % (rng.choice("rad"), path, 1 if hinted else 0, rng.choice([0, 1, 31, 4096, 4097, 1 << 20]) if hinted else 0))
        execs.append(ex)
    # sources whose size fstat() does not know (a FIFO fed by another process): every size around the reader's growth steps,
    # with and without hints
    fx = ["RESET"]
    for n in [0, 1, 31, 32, 33, 63, 64, 65, 70, 100, 120, 131, 132, 133, 1000, 3000, 4095, 4096, 4097, 8192, 20000, 70000]:
        hinted = rng.random() < 0.4
        fx.append("FIFOREAD %d %d %d %d" % (rng.randrange(2, 1000), n, 1 if hinted else 0, rng.choice([0, 1, n, n + 1, 2 * n, 4096]) if hinted else 0))
        if len(fx) > 12:
            execs.append(fx)
            fx = ["RESET"]
    if len(fx) > 1:
        execs.append(fx)
    m = 1 << 20
    big = []
    for size in [129 * m + 10000] + ([128 * m + 1] if thorough else []):        # (a 257 MiB file cost 20 minutes on a loaded machine)
        f = rng.choice(NAMES)
        ex = ["RESET", "MKFILE %d %d %d" % (f, rng.randrange(2, 1000), size)]
        for hint in [size - 10000, 128 * m + 1, size] + ([size + 1, 4096] if thorough else []):
            if hint > 0:
                ex.append("BUFFILE a %d 1 %d" % (f, hint))
        ex.append("BUFFILE r %d 0 0" % f)
        big.append(ex)
    return execs, big


def reader_family(ctx, thorough, label="filereader"):
    exe = prepare(ctx)
    rng = random.Random(ctx.seed * 17 + 3)
    execs, big = reader_execs(rng, thorough)
    fsdir = os.path.join(ctx.outdir, "fs_" + label)
    shutil.rmtree(fsdir, ignore_errors=True)
    os.makedirs(fsdir)
    for ex in execs + big:
        ctx.distinct.add(hash("reader|" + "\n".join(ex)))
    try:
        n = pipeline.drive_and_validate(ctx, exe, execs, SPEC_DIR, "OsFacadeTrace", "Trace.cfg", label=label, harness_args=[fsdir],
                                        tlc_timeout=1500, harness_timeout=900)
        # files above 128 MiB: slow by design (the adapter re-reads the tree after every call), one process each
        n += pipeline.drive_and_validate(ctx, exe, big, SPEC_DIR, "OsFacadeTrace", "Trace.cfg", label=label + "_big", nbatch=len(big),
                                         harness_args=[fsdir], tlc_timeout=1500, harness_timeout=1500, env={"VH_WATCHDOG": "1400"},
                                         stale_errors=0)
    finally:
        shutil.rmtree(fsdir, ignore_errors=True)
    ctx.extra["file_reader_executions"] = len(execs) + len(big)
    return n


def run(ctx):
    thorough = ctx.tier == "thorough"
    exe = prepare(ctx)
    ctx.rule = ("execution = a fresh scratch directory and a clean set of model variables + a sequence of <= ~75 calls "
                "(environment set/unset/get in three forms/home; directory create/exists/delete, file delete, move, path "
                "exists, traverse with abort point, entry iterator forward/backward, fopen in r/w/a modes + length/seek, "
                "both file readers with size hints, separator helpers); distinct = distinct script text; non-trivial = at "
                "least one state-changing library call and one observing call")
    ctx.assumptions += [
        "the contract is what environment.h / file.h / byte_buf.h document; where they are silent (directory_create over a "
        "regular file or with missing ancestors, file_delete of a directory or through a file, move onto an existing name, "
        "the return value of an aborted traversal, file_size of a directory, home directory with HOME unset) the result is left open",
        "posix build: platform separator '/', empty values stay set (the header's Windows latitude is allowed, not required)",
        "symbolic links exist only as contents of directories (made by the adapter, targets outside the tree): no path handed "
        "to the library names or crosses one; for a link entry only the SYM_LINK bit and the relative path are specified; "
        "single thread, no permission / resource-exhaustion failures (the process runs as the only user of "
        "its private scratch directory); the tree is not modified while the entry iterator is open; the file behind the open "
        "handle is not deleted, moved or replaced",
        "ground truth for the tree and for file contents is what plain POSIX calls of the adapter see after every call; contents "
        "are compared as length + two 15-bit polynomial digests (composable, so append = concatenation is checked)",
        "the home directory of the current user is what HOME says when HOME is set and not empty (POSIX)",
    ]
    # 1. design level (independent of the library: mutation runs may skip it with VERIF_SKIP_MC=1)
    if os.environ.get("VERIF_SKIP_MC"):
        ctx.extra["model_checking_skipped"] = True
    else:
        design_level(ctx, thorough)
    fsdir = os.path.join(ctx.outdir, "fs")
    # 2. model -> code: TLC-generated operation sequences
    scripts, _ = tlc.gen_scripts(SPEC_DIR, "FileMC", "Gen.cfg", ctx.outdir, num=40 if not thorough else 400, depth=45,
                                 seed=ctx.seed, workers=4)
    rng = random.Random(ctx.seed)
    rng.shuffle(scripts)
    scripts = scripts[:200 if not thorough else 4000]
    execs = regress_execs()
    nreg = len(execs)
    ctx.extra["regression_scripts"] = nreg
    execs += [from_tlc(s, rng) for s in scripts]
    ctx.extra["tlc_generated_scripts"] = len(execs) - nreg
    # 3. seeded random executions
    n_tree, n_read, n_iter, n_env = (350, 200, 120, 130) if not thorough else (10000, 5000, 3000, 3000)
    for _ in range(n_tree):
        execs.append(tree_exec(rng, rng.randint(15, 70), "tree"))
    for _ in range(n_read):
        execs.append(tree_exec(rng, rng.randint(15, 60), "read"))
    for _ in range(n_iter):
        execs.append(tree_exec(rng, rng.randint(15, 60), "iter"))
    for _ in range(n_env):
        execs.append(env_exec(rng, rng.randint(10, 70)))
    execs += reader_execs(rng, thorough)[0][-6:]
    ctx.extra["random_scripts"] = {"tree": n_tree, "read": n_read, "iter": n_iter, "env": n_env}
    for ex in execs:
        ctx.evaluations += 1
        if nontrivial(ex):
            ctx.distinct.add(hash("\n".join(ex)))
    ctx.add_sample({"script": execs[nreg][:14]})
    ctx.add_sample({"script": execs[nreg + len(scripts) + 1][:14]})
    ctx.add_sample({"script": execs[-1][:10]})
    # 4. code -> model. The scratch directories live under the check's output directory and nowhere else.
    shutil.rmtree(fsdir, ignore_errors=True)
    os.makedirs(fsdir)
    exe = prepare(ctx)
    try:
        pipeline.drive_and_validate(ctx, exe, execs, SPEC_DIR, "OsFacadeTrace", "Trace.cfg", label="osfacade",
                                    harness_args=[fsdir], tlc_timeout=1500)
    finally:
        leftover = os.listdir(fsdir) if os.path.isdir(fsdir) else []
        if leftover and not ctx.violations:
            ctx.extra["scratch_directories_left_behind"] = len(leftover)
        shutil.rmtree(fsdir, ignore_errors=True)
