"""X06 mutex, condition variable and clock wrappers (aws/common/mutex.h, condition_variable.h, clock.h): SyncMC.tla (the
library's predicate loops, time-out arithmetic and error translation transcribed over a POSIX-level model; every
interleaving of three threads) model-checked against the contract Sync.tla; the real code executed under the controlled
scheduler with a virtual clock; traces validated against Sync.tla; data-race scan."""
import random

from vlib import build, pipeline, tlc
from vlib.common import CheckError

LEVEL = "model_checking"
SPEC_DIR = "Sync"

MS = 1000000
SEC = 1000000000
I64MAX = 9223372036854775807
TIMEOUTS = [0, 1, 1000, MS, MS, 999999999, SEC, SEC, 5 * SEC, 1500 * MS]
SLEEPS = [0, 1, 1000, MS, MS, 999999999, SEC, 1500 * MS, 5 * SEC]
HUGE = [I64MAX, I64MAX - 1, I64MAX - 999999999, 1 << 62, 9 * 10 ** 18, 10 ** 17]


def prepare(ctx):
    return build.build_harness("sync_scenario", ["sync_scenario.c"], cflags=["-Wno-unused-function"], wrap=True)


CORE = [
    # mutual exclusion, try_lock against holders
    ["INIT dyn", "THREAD 1 L I U T", "THREAD 2 T L I U", "THREAD 3 L I U", "MAIN T L I U"],
    # predicate loop: a notify that does not make the predicate true must not end the wait
    ["INIT dyn", "THREAD 1 L W1 I U", "THREAD 2 L S1 U NA", "THREAD 3 N1 L I U"],
    ["INIT static", "THREAD 1 L W1 I U", "THREAD 2 L S1 U NA", "THREAD 3 N1 L I U N1"],
    # two predicates behind one condition variable: the broadcast for one wakes the waiter of the other
    ["INIT dyn", "THREAD 1 L W1 U", "THREAD 2 L W2 U", "THREAD 3 L S1 U NA L S2 NA U"],
    # notify_one with a single waiter per condition variable
    ["INIT static", "THREAD 1 L W1/1 U", "THREAD 2 L W3/2 I U", "THREAD 3 L S1 N1/1 U T", "MAIN L S3 U N1/2"],
    # nobody makes the predicate true: time-out error, and not before the time has elapsed; a notify restarts the wait
    ["INIT dyn", "THREAD 1 L F1:1000000 U", "THREAD 2 Z:500000 N1 L I U", "THREAD 3 T K"],
    # the setter races the deadline
    ["INIT dyn", "THREAD 1 L F1:1000000 I U", "THREAD 2 Z:1000000 L S1 U N1", "THREAD 3 L G:1000000 U"],
    # time_to_wait = 0 and 1 ns
    ["INIT static", "THREAD 1 L F1:0 U", "THREAD 2 L S1 N1 U", "THREAD 3 T L G:0 U"],
    ["INIT dyn", "THREAD 1 L F2:1 U L G:1 U", "THREAD 2 K Z:1 K", "MAIN K L F1:1 U K"],
    # seconds
    ["INIT dyn", "THREAD 1 L F1:5000000000 U K", "THREAD 2 L F2:1000000000 U K", "THREAD 3 Z:1500000000 L S1 U NA K"],
    # the largest time_to_wait: must wait (not report a time-out at once) until the predicate is made true
    ["INIT dyn", "THREAD 1 L F1:9223372036854775807 I U", "THREAD 2 Z:1000000000 L S1 U NA", "MAIN K"],
    # try_lock returns instead of blocking: main holds the mutex until thread 1 is done
    ["INIT dyn", "THREAD 1 T K T", "MAIN L J1 U"],
    # a chain: thread 1 waits for 3, then releases 2
    ["INIT static", "THREAD 1 L W1 U L S2 U NA", "THREAD 2 L F2:3000000000 U", "THREAD 3 Z:2000000000 L S1 U NA"],
]

REQUIRED = ["SyncMC!" + a for a in ("ILock", "IUnlock", "ITry", "IEnter", "ILeave", "ISet", "IWaitBegin", "ILoop", "IReacq",
                                     "INotify", "ISpurious", "ISleepBegin", "ISleepRet", "ITick")]


def random_scenario(rng):
    """Deadlock-free by construction (a deadlock must be the library's, never the script's):
    * every program is lock-balanced, never locks twice, waits / flag writes / critical sections only under the mutex;
    * an untimed (or practically untimed: huge time_to_wait) wait only on a 'sure' flag: one thread sets it exactly once,
      unconditionally, followed by notify_all on that flag's condition variable (notify_one only when that condition
      variable has a single wait in the whole scenario), it is never reset, and the setter itself waits untimed only for
      sure flags with a smaller number (no cycles);
    * timed waits and sleeps are bounded by seconds (the scheduler reports more than one virtual hour of pure waiting)."""
    nthr = rng.randint(1, 4)
    actors = list(range(0, nthr + 1))            # 0 = main
    sure = sorted(rng.sample([1, 2, 3], rng.choice([0, 1, 1, 2, 3])))
    cv_of = {p: rng.randint(1, 2) for p in (1, 2, 3)}
    setter = {p: rng.choice(actors) for p in sure}
    free_flags = [p for p in (1, 2, 3) if p not in sure]
    progs = {a: [] for a in actors}
    waits_on_cv = {1: 0, 2: 0}
    huge_used = [False]
    pending_notify = []

    def note_wait(c):
        waits_on_cv[c] += 1

    def seg_cs():
        s = ["L"]
        if rng.random() < 0.2:
            s.append(rng.choice(["P", "K", "Z:%d" % rng.choice([1, 1000, MS])]))
        s += ["I", "U"]
        return s

    def seg_timed():
        p = rng.choice([1, 2, 3])
        c = cv_of[p] if rng.random() < 0.8 else rng.randint(1, 2)
        note_wait(c)
        s = ["L", "F%d:%d/%d" % (p, rng.choice(TIMEOUTS), c)]
        if rng.random() < 0.3:
            s.append("I")
        return s + ["U"]

    def seg_plain():
        c = rng.randint(1, 2)
        note_wait(c)
        return ["L", "G:%d/%d" % (rng.choice(TIMEOUTS), c), "U"]

    def seg_free_set():
        if not free_flags:
            return ["K"]
        p = rng.choice(free_flags)
        n = rng.choice(["N1", "NA"]) + "/%d" % cv_of[p]
        return rng.choice([["L", "S%d" % p, "U", n], ["L", "S%d" % p, n, "U"], ["L", "R%d" % p, "U"], ["L", "S%d" % p, "U"]])

    def seg_noise():
        return [rng.choice(["N1", "NA"]) + "/%d" % rng.randint(1, 2)]

    def filler(a, n):
        out = []
        for _ in range(n):
            r = rng.random()
            if r < 0.22:
                out += seg_cs()
            elif r < 0.34:
                out += ["T"]
            elif r < 0.52:
                out += seg_timed()
            elif r < 0.60:
                out += seg_plain()
            elif r < 0.72:
                out += seg_free_set()
            elif r < 0.80:
                out += seg_noise()
            elif r < 0.90:
                out += ["Z:%d" % rng.choice(SLEEPS)]
            elif r < 0.96:
                out += ["K"]
            else:
                out += ["L", "Z:%d" % rng.choice([1000, MS]), "U"]          # hold the mutex for a while
        return out

    def seg_sure_wait(a, maxflag):
        cands = [p for p in sure if p < maxflag and setter[p] != a]
        if not cands:
            return []
        p = rng.choice(cands)
        note_wait(cv_of[p])
        if not huge_used[0] and rng.random() < 0.2:
            huge_used[0] = True
            w = "F%d:%d/%d" % (p, rng.choice(HUGE), cv_of[p])
        else:
            w = "W%d/%d" % (p, cv_of[p])
        s = ["L", w]
        if rng.random() < 0.5:
            s.append("I")
        return s + ["U"]

    for a in actors:
        mine = [p for p in sure if setter[p] == a]
        ops = []
        for p in mine:                       # ascending: what comes before the set of p may wait for sure flags < p only
            ops += filler(a, rng.choice([0, 0, 1, 2]))
            if rng.random() < 0.4:
                ops += seg_sure_wait(a, p)
            pending_notify.append((a, len(ops), p))
            ops += ["L", "S%d" % p, "@%d" % p]          # placeholder: the notify is chosen when all waits are known
        ops += filler(a, rng.choice([0, 1, 1, 2, 3]))
        if rng.random() < 0.6:
            ops += seg_sure_wait(a, 4)
            ops += filler(a, rng.choice([0, 0, 1]))
        progs[a] = ops
    # resolve the notify after each sure set
    for a in actors:
        out = []
        for op in progs[a]:
            if op.startswith("@"):
                p = int(op[1:])
                c = cv_of[p]
                n = ("N1" if (waits_on_cv[c] <= 1 and rng.random() < 0.6) else "NA") + "/%d" % c
                out += rng.choice([["U", n], [n, "U"]])
            else:
                out.append(op)
        progs[a] = out
    lines = ["INIT " + rng.choice(["dyn", "static"])]
    for a in actors[1:]:
        lines.append(("THREAD %d %s" % (a, " ".join(progs[a]))).rstrip())
    main = progs[0]
    # main may join a thread early; under the mutex only a thread that never blocks on it
    for a in actors[1:]:
        toks = progs[a]
        if all(t[0] in "TKZNP" for t in toks) and rng.random() < 0.5 and not any(t[0] in "LW" or t.startswith("F") for t in main):
            main = ["L", "J%d" % a, "U"] + main
            break
    lines.append(("MAIN " + " ".join(main)).rstrip())
    return lines


def _balanced(lines):
    """generator self-check (the script, not the library, is at fault for an unbalanced program)"""
    for ln in lines:
        toks = ln.split()[2:] if ln.startswith("THREAD") else ln.split()[1:] if ln.startswith("MAIN") else []
        held = False
        for t in toks:
            if t == "L":
                if held:
                    return False
                held = True
            elif t == "U":
                if not held:
                    return False
                held = False
            elif t[0] in "IWFGSR":
                if not held:
                    return False
            elif t == "T" and held:
                return False
        if held:
            return False
    return True


def run(ctx):
    thorough = ctx.tier == "thorough"
    exe = prepare(ctx)
    ctx.rule = ("execution = scenario (1-4 threads + main: critical sections on a shared counter, try_lock, predicate waits "
                "with and without time-out 0 / 1 ns / us / ms / s / INT64_MAX, plain timed waits, flag set + notify_one / "
                "notify_all inside or outside the lock, notifies without the predicate, sleeps, clock reads) x schedule at "
                "lock / condvar / clock-deadline points; distinct = distinct (scenario, schedule policy); non-trivial = at "
                "least two threads contend for the mutex or one wait blocks")
    ctx.assumptions += [
        "sequentially consistent serialised execution on a virtual clock (both library clocks read it); the scheduler "
        "itself produces no spurious wake-ups - notifies without the predicate and broadcasts for another predicate play "
        "that part; SyncMC.tla has real spurious wake-ups",
        "bounded exploration: preemption bound 2 (quick) / 3 (thorough) on the core scenarios + PCT/random schedules",
        "try_lock on a held mutex must fail with AWS_ERROR_MUTEX_TIMEOUT (what both platform implementations raise; "
        "mutex.h names no code); a timed predicate wait may report the time-out although the predicate became true at "
        "the deadline (POSIX leaves it open), but never before time_to_wait has elapsed",
        "scenarios respect the documented preconditions (wait only with the mutex held, no recursive lock); negative "
        "time_to_wait and waits that nobody ever ends are not driven",
    ]
    ctx.mc(SPEC_DIR, "SyncMC", "MC_thorough.cfg" if thorough else "MC.cfg", timeout=900, xmx="4g", workers=4,
           required_actions=REQUIRED)
    ctx.mc(SPEC_DIR, "SyncMC", "MC_live.cfg", timeout=900, xmx="4g", workers=4, coverage=False)
    # the model can tell a wrong predicate loop / deadline from the right one
    for cfg in ("MC_bug_if.cfg", "MC_bug_noadd.cfg"):
        res = tlc.run_tlc(SPEC_DIR, "SyncMC", cfg, ctx.outdir, workers=4, timeout=300, xmx="2g")
        if "NotBad" not in res.violated:
            raise CheckError("MODEL-BROKEN (sensitivity): %s did not violate NotBad: %s" % (cfg, res.summary()))
        ctx.extra.setdefault("model_sensitivity", []).append({"cfg": cfg, "violated": "NotBad"})

    rng = random.Random(ctx.seed)
    blocks = []
    budget, bound = (200, 2) if not thorough else (4000, 3)
    for sc in CORE:
        blocks.append(("dfs %d %d" % (budget, bound), sc))
    nrand = 320 if not thorough else 8000
    made = 0
    while made < nrand:
        sc = random_scenario(rng)
        if any(len(ln.split()) > 58 for ln in sc):
            continue                                   # the harness keeps at most 64 operations per program
        if not _balanced(sc):
            raise CheckError("scenario generator produced an unbalanced program: %r" % sc)
        pol = rng.choice(["pct %d 2 80", "pct %d 3 120", "rand %d", "pct %d 1 60", "rand %d"]) % rng.randrange(1, 10 ** 6)
        blocks.append((pol, sc))
        made += 1
    for sc in CORE:                                    # the core scenarios under random schedules too
        for _ in range(4 if not thorough else 60):
            blocks.append((rng.choice(["pct %d 3 60", "rand %d"]) % rng.randrange(1, 10 ** 6), sc))
    for pol, sc in blocks:
        ctx.distinct.add(hash(pol + "|" + "\n".join(sc)))
    ctx.add_sample({"policy": blocks[1][0], "scenario": blocks[1][1]})
    ctx.add_sample({"policy": blocks[len(CORE)][0], "scenario": blocks[len(CORE)][1]})
    rng.shuffle(blocks)
    n, acc = pipeline.drive_vsched(ctx, exe, blocks, SPEC_DIR, "SyncTrace", "Trace.cfg", label="sy")
    # data-race scan on the ThreadSanitizer build (what a serialising scheduler cannot see)
    scan = [b for b in blocks if not b[0].startswith("dfs")][: (120 if not thorough else 1500)]
    pipeline.race_scan(ctx, "sync_scenario", "sync_scenario.c", scan)
    ctx.evaluations += n
    ctx.distinct_extra += max(0, n - len(blocks))
    ctx.extra["executions"] = n
