"""Build libaws-c-common.a (ASan, hook guard on) from /repo's *current working tree* and the harness
executables, into a directory keyed by a content hash of the sources (DESIGN 4.6): a stale object can
never survive a restore of an older file, because a different tree is a different directory."""
import fcntl
import hashlib
import os
import shutil

from .common import BUILD_ROOT, GUARD, HARNESS, REPO, CheckError, log, run

CFLAGS = "-O1 -g -fsanitize=address -fno-omit-frame-pointer -fno-optimize-sibling-calls -D%s -Wno-error" % GUARD
# second variant: ThreadSanitizer build of the library, used only by the data-race scan of the controlled-scheduler checks
# third variant: source-coverage build (no sanitizer), only used by tools/coverage.py to find library code no check drives
CFLAGS_COV = "-O0 -g -fprofile-instr-generate -fcoverage-mapping -D%s -Wno-error" % GUARD
# fourth variant: the configuration users run (gcc, RelWithDebInfo = -O2 -g -DNDEBUG, no sanitizer). Compiler-dependent
# behaviour (e.g. a store the optimiser drops as dead) only shows there.
CFLAGS_REL = "-O2 -g -DNDEBUG -D%s -Wno-error" % GUARD
CFLAGS_TSAN = "-O1 -g -fsanitize=thread -fno-omit-frame-pointer -D%s -Wno-error" % GUARD
KEEP = 8            # plus: never prune a directory used within the last 90 minutes (concurrent checks / worktrees)


def tree_hash(variant="asan"):
    h = hashlib.sha256()
    h.update({"asan": CFLAGS, "tsan": CFLAGS_TSAN, "cov": CFLAGS_COV, "rel": CFLAGS_REL}[variant].encode())
    roots = ["source", "include", "cmake", "CMakeLists.txt"]
    for r in roots:
        p = os.path.join(REPO, r)
        if os.path.isfile(p):
            files = [p]
        else:
            files = []
            for d, dn, fn in os.walk(p):
                dn.sort()
                for f in sorted(fn):
                    files.append(os.path.join(d, f))
        for f in files:
            h.update(os.path.relpath(f, REPO).encode())
            h.update(b"\0")
            try:
                with open(f, "rb") as fh:
                    h.update(fh.read())
            except OSError:
                h.update(b"<unreadable>")
            h.update(b"\0")
    return h.hexdigest()[:16]


def _prune(keep_name):
    try:
        ents = [e for e in os.listdir(BUILD_ROOT) if os.path.isdir(os.path.join(BUILD_ROOT, e)) and len(e) == 16]
    except FileNotFoundError:
        return
    ents = sorted(ents, key=lambda e: os.path.getmtime(os.path.join(BUILD_ROOT, e)), reverse=True)
    import time
    for e in [x for x in ents if x != keep_name][KEEP - 1:]:
        if time.time() - os.path.getmtime(os.path.join(BUILD_ROOT, e)) < 90 * 60:
            continue
        shutil.rmtree(os.path.join(BUILD_ROOT, e), ignore_errors=True)


def ensure_lib(variant="asan"):
    """Returns the build directory (containing libaws-c-common.a and generated/include)."""
    if variant == "asan" and os.environ.get("VERIF_BUILD_VARIANT") == "cov":
        variant = "cov"
    os.makedirs(BUILD_ROOT, exist_ok=True)
    th = tree_hash(variant)
    bdir = os.path.join(BUILD_ROOT, th)
    lock = open(os.path.join(BUILD_ROOT, ".lock"), "w")
    fcntl.flock(lock, fcntl.LOCK_EX)
    try:
        stamp = os.path.join(bdir, ".ok")
        if os.path.exists(stamp):
            os.utime(bdir)
            return bdir
        shutil.rmtree(bdir, ignore_errors=True)
        os.makedirs(bdir)
        log("[build] library for tree %s" % th)
        cfg = [
            "cmake", "-G", "Ninja", "-S", REPO, "-B", bdir, "-DCMAKE_C_COMPILER=" + ("gcc" if variant == "rel" else "clang"),
            "-DCMAKE_BUILD_TYPE=None",
            "-DBUILD_TESTING=OFF", "-DAWS_WARNINGS_ARE_ERRORS=OFF",
            "-DCMAKE_C_FLAGS=" + {"asan": CFLAGS, "tsan": CFLAGS_TSAN, "cov": CFLAGS_COV, "rel": CFLAGS_REL}[variant],
        ]
        rc, out, err, to = run(cfg, timeout=600)
        if rc != 0:
            raise CheckError("BUILD-FAILED (cmake configure)\n" + (out + err).decode(errors="replace")[-3000:])
        rc, out, err, to = run(["ninja", "-C", bdir], timeout=1200)
        if rc != 0:
            raise CheckError("BUILD-FAILED (compile)\n" + (out + err).decode(errors="replace")[-3000:])
        open(stamp, "w").write(th)
        _prune(th)
        return bdir
    finally:
        fcntl.flock(lock, fcntl.LOCK_UN)
        lock.close()


WRAP_SYMS = [
    "pthread_create", "pthread_join", "pthread_detach", "pthread_mutex_lock", "pthread_mutex_trylock",
    "pthread_mutex_unlock", "pthread_mutex_init", "pthread_mutex_destroy", "pthread_cond_init", "pthread_cond_destroy",
    "pthread_cond_wait", "pthread_cond_timedwait", "pthread_cond_signal",
    "pthread_cond_broadcast", "clock_gettime", "nanosleep", "pthread_self", "pthread_equal", "posix_memalign", "free",
    "pthread_once",
    "pthread_rwlock_init", "pthread_rwlock_destroy", "pthread_rwlock_rdlock", "pthread_rwlock_wrlock",
    "pthread_rwlock_tryrdlock", "pthread_rwlock_trywrlock", "pthread_rwlock_unlock",
]


def build_harness(name, srcs, cflags=None, ldflags=None, wrap=False, includes=None, variant="asan"):
    """Compile harness/<srcs> and link against the library of the current tree. Returns exe path."""
    if variant == "asan" and os.environ.get("VERIF_BUILD_VARIANT") == "cov":
        variant = "cov"
    bdir = ensure_lib(variant)
    hdir = os.path.join(bdir, "harness")
    os.makedirs(hdir, exist_ok=True)
    srcs = [s if os.path.isabs(s) else os.path.join(HARNESS, s) for s in srcs]
    h = hashlib.sha256()
    deps = list(srcs)
    for d, dn, fn in os.walk(HARNESS):
        for f in fn:
            if f.endswith(".h") or f.endswith(".inl"):
                deps.append(os.path.join(d, f))
    for s in sorted(set(deps)):
        h.update(s.encode())
        h.update(open(s, "rb").read())
    h.update(repr((cflags, ldflags, wrap, includes, variant, "recipe-v3", tuple(WRAP_SYMS))).encode())
    key = h.hexdigest()[:16]
    exe = os.path.join(hdir, name)
    stamp = exe + ".stamp"
    lock = open(os.path.join(hdir, ".lock." + name), "w")
    fcntl.flock(lock, fcntl.LOCK_EX)
    try:
        if os.path.exists(exe) and os.path.exists(stamp) and open(stamp).read() == key:
            return exe
        if variant == "asan":
            base = CFLAGS.split()
        elif variant == "cov":
            base = CFLAGS_COV.split() + ["-DVH_NO_ASAN", "-DVH_COV"]
        elif variant == "rel":
            base = ["-O1", "-g", "-D" + GUARD, "-DVH_NO_ASAN"]
        else:
            # harness code itself is NOT instrumented (its own bookkeeping is shared on purpose); only linked with the runtime
            base = ["-O1", "-g", "-fno-omit-frame-pointer", "-fno-builtin", "-D" + GUARD, "-DVS_TSAN"]
        cmd = ["gcc" if variant == "rel" else "clang"] + base + ["-std=gnu11", "-D_GNU_SOURCE",
               "-I", os.path.join(REPO, "include"), "-I", os.path.join(bdir, "generated", "include"),
               "-I", os.path.join(HARNESS, "core"), "-I", HARNESS]
        for i in includes or []:
            cmd += ["-I", i]
        if variant == "tsan":
            # compile the harness WITHOUT the sanitizer (a single compile-and-link command would instrument it too),
            # then link the uninstrumented objects with the instrumented library and the runtime
            objs = []
            for i, src in enumerate(srcs):
                obj = os.path.join(hdir, "%s.%d.o" % (name, i))
                rc, out, err, to = run(cmd + (cflags or []) + ["-c", src, "-o", obj], timeout=600)
                if rc != 0:
                    raise CheckError("BUILD-FAILED (harness %s)\n%s" % (name, (out + err).decode(errors="replace")[-4000:]))
                objs.append(obj)
            cmd = ["clang", "-g", "-fsanitize=thread"] + objs + ["-o", exe, os.path.join(bdir, "libaws-c-common.a")]
        else:
            cmd += (cflags or []) + srcs + ["-o", exe, os.path.join(bdir, "libaws-c-common.a")]
        if wrap:
            cmd.append("-Wl," + ",".join("--wrap=" + s for s in WRAP_SYMS))
        cmd += (ldflags or []) + ["-lpthread", "-ldl", "-lm"]
        rc, out, err, to = run(cmd, timeout=600)
        if rc != 0:
            raise CheckError("BUILD-FAILED (harness %s)\n%s" % (name, (out + err).decode(errors="replace")[-4000:]))
        open(stamp, "w").write(key)
        return exe
    finally:
        fcntl.flock(lock, fcntl.LOCK_UN)
        lock.close()
