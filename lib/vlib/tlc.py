"""TLC runner: model checking (BFS), simulation (behaviour generation) and trace validation."""
import os
import re
import shutil
import json

from .common import SPEC, CheckError, NCPU, log, run

JAR = "/opt/veriftools/tla/tla2tools.jar"
CM = "/opt/veriftools/tla/CommunityModules-deps.jar"
COMMON = os.path.join(SPEC, "common")


class TlcResult:
    def __init__(self):
        self.rc = None
        self.text = ""
        self.generated = 0
        self.distinct = 0
        self.depth = 0
        self.timed_out = False
        self.errors = []          # 'Error:' lines
        self.violated = []        # names of violated invariants/properties
        self.coverage = {}        # action -> (taken, generated)
        self.printed = []         # PrintT lines captured (raw text lines)
        self.ok = False           # finished without any error
        self.wall_s = 0.0

    def summary(self):
        return {"generated": self.generated, "distinct": self.distinct, "depth": self.depth, "ok": self.ok,
                "violated": self.violated, "errors": self.errors[:5], "timed_out": self.timed_out}


def _parse(res):
    t = res.text
    for m in re.finditer(r"(\d+) states generated, (\d+) distinct states found", t):
        res.generated, res.distinct = int(m.group(1)), int(m.group(2))
    m = re.search(r"The number of states generated: (\d+)", t)
    if m and not res.generated:
        res.generated = int(m.group(1))
    m = re.search(r"The depth of the complete state graph search is (\d+)", t)
    if m:
        res.depth = int(m.group(1))
    for line in t.splitlines():
        if line.startswith("Error:"):
            res.errors.append(line.strip())
            m = re.match(r"Error: Invariant (\S+) is violated", line)
            if m:
                res.violated.append(m.group(1))
            m = re.match(r"Error: Action property (\S+) is violated", line)
            if m:
                res.violated.append(m.group(1))
            if "Temporal properties were violated" in line:
                res.violated.append("<temporal>")
            if "Deadlock reached" in line:
                res.violated.append("<deadlock>")
        m = re.match(r"<(\w+) line \d+, col \d+ to line \d+, col \d+ of module (\w+)(?: \([\d ]+\))?>: (\d+):(\d+)", line.strip())
        if m:
            k = m.group(2) + "!" + m.group(1)
            a = res.coverage.get(k, (0, 0))
            res.coverage[k] = (a[0] + int(m.group(3)), a[1] + int(m.group(4)))
    res.ok = (not res.errors) and (not res.timed_out) and ("Model checking completed. No error has been found" in t
                                                           or "Finished in" in t or "Simulation" in t)
    if res.rc not in (0, None) and not res.errors and not res.timed_out:
        res.errors.append("tlc exit code %s" % res.rc)
        res.ok = False


def run_tlc(spec_dir, module, cfg, outdir, *, workers=None, timeout=600, simulate=None, depth=None, env=None,
            xmx="8g", extra=None, coverage=False, deadlock=True, dfs_queue=False, seed=None, tag=None):
    """spec_dir relative to /verif/spec (or absolute). simulate = number of behaviours (per run)."""
    sd = spec_dir if os.path.isabs(spec_dir) else os.path.join(SPEC, spec_dir)
    tag = tag or (module + "_" + os.path.splitext(os.path.basename(cfg))[0])
    meta = os.path.join(outdir, "tlc", tag)
    shutil.rmtree(meta, ignore_errors=True)
    os.makedirs(meta, exist_ok=True)
    java = ["java", "-XX:+UseParallelGC", "-Xmx" + xmx, "-Xss256m", "-DTLA-Library=" + COMMON]   # deep RECURSIVE operators
    if dfs_queue:
        java.append("-Dtlc2.tool.queue.IStateQueue=StateDeque")
    cmd = java + ["-cp", JAR + ":" + CM, "tlc2.TLC", "-metadir", meta, "-noGenerateSpecTE", "-config", cfg]
    cmd += ["-workers", str(workers or NCPU)]
    if not deadlock:
        cmd.append("-deadlock")  # -deadlock = do NOT check deadlock
    if coverage:
        cmd += ["-coverage", "1"]
    if simulate is not None:
        cmd += ["-simulate", "num=%d" % simulate]
        if depth:
            cmd += ["-depth", str(depth)]
        if seed is not None:
            cmd += ["-seed", str(seed)]
    cmd += extra or []
    cmd.append(module + ".tla")
    import time
    t0 = time.time()
    rc, out, err, to = run(cmd, timeout=timeout, env=env, cwd=sd)
    res = TlcResult()
    res.rc, res.timed_out = rc, to
    res.text = out.decode(errors="replace") + err.decode(errors="replace")
    res.wall_s = round(time.time() - t0, 2)
    _parse(res)
    with open(os.path.join(outdir, "tlc", tag + ".log"), "w") as f:
        f.write(" ".join(cmd) + "\n" + res.text)
    shutil.rmtree(meta, ignore_errors=True)
    return res


def mc(spec_dir, module, cfg, outdir, **kw):
    """Design-level model check. A failure here is a broken model (exit 2), never a verdict (DESIGN 3.2)."""
    kw.setdefault("coverage", True)
    res = run_tlc(spec_dir, module, cfg, outdir, **kw)
    if res.timed_out:
        raise CheckError("MODEL-BROKEN: TLC timed out on %s/%s %s" % (spec_dir, module, cfg))
    if not res.ok:
        raise CheckError("MODEL-BROKEN: %s/%s %s: %s\n%s" % (spec_dir, module, cfg, res.errors[:3], res.text[-3000:]))
    return res


def gen_scripts(spec_dir, module, cfg, outdir, num, depth, seed, workers=4, timeout=300, marker="SCRIPT"):
    """Simulation with a history variable; the spec prints <<"SCRIPT", ToJson(hist)>> lines via PrintT."""
    res = run_tlc(spec_dir, module, cfg, outdir, simulate=max(1, num // workers), depth=depth, seed=seed,
                  workers=workers, timeout=timeout, deadlock=False)
    scripts = []
    seen = set()
    for line in res.text.splitlines():
        line = line.strip()
        if line.startswith('<<"%s"' % marker):
            m = re.match(r'<<"%s", "(.*)">>$' % marker, line)
            if m:
                js = m.group(1).encode().decode("unicode_escape")
                if js in seen:
                    continue
                seen.add(js)
                try:
                    scripts.append(json.loads(js))
                except ValueError:
                    pass
    if res.errors and not scripts:
        raise CheckError("MODEL-BROKEN (gen): %s\n%s" % (res.errors[:3], res.text[-2000:]))
    return scripts, res


class TraceVerdict:
    def __init__(self):
        self.accepted = False
        self.matched = 0      # number of trace lines consumed on the longest path
        self.total = 0
        self.error = None     # machinery error text (TLC evaluation error etc.)
        self.text = ""
        self.generated = 0
        self.distinct = 0
        self.printed = []


def validate(spec_dir, module, cfg, trace_file, outdir, *, timeout=900, env=None, tag=None, xmx="4g", dfs_queue=False):
    """Trace validation: the spec reads IOEnv.TRACE, acceptance via POSTCONDITION TraceAccepted which prints
    <<"TRACE-RESULT", matched, total>>."""
    e = {"TRACE": os.path.abspath(trace_file)}
    if env:
        e.update(env)
    res = run_tlc(spec_dir, module, cfg, outdir, workers=1, timeout=timeout, env=e, deadlock=False, tag=tag, xmx=xmx,
                  dfs_queue=dfs_queue)
    v = TraceVerdict()
    v.text = res.text
    v.generated, v.distinct = res.generated, res.distinct
    m = re.search(r'<<"TRACE-RESULT", (\d+), (\d+)>>', res.text)
    if res.timed_out:
        v.error = "TLC timed out during trace validation"
        return v
    if not m:
        v.error = "no TRACE-RESULT from TLC: " + "; ".join(res.errors[:3]) + "\n" + res.text[-1500:]
        return v
    v.matched, v.total = int(m.group(1)), int(m.group(2))
    other = [x for x in res.errors if "Postcondition" not in x and "TraceAccepted" not in x]
    other = [x for x in other if "postcondition" not in x.lower()]
    if other:
        v.error = "TLC error during trace validation: " + "; ".join(other[:3]) + "\n" + res.text[-1500:]
        return v
    v.accepted = v.matched == v.total
    for line in res.text.splitlines():
        if line.startswith('<<"FIRED"'):
            v.printed.append(line.strip())
    return v
