"""The 'process locale' family: the embedding application has called setlocale() before it uses the library.

None of the listed properties is conditioned on the "C" locale, yet every harness run so far inherited it, so a byte
classification routed through <ctype.h>, a number through strtod()/printf("%g") or a month name through strftime()
behaves exactly as the locale-independent code it replaced.  This module compiles small private locales with localedef(1)
from sources written here (the image carries no /usr/share/i18n), selected through LOCPATH:

  xx_XX  LC_CTYPE only: single-byte charset in which the Latin-1 letters 0xC0-0xFF are alphabetic (upper/lower with case
         mapping), 0xA0 is a blank and 0xB2/0xB3/0xB9 are NOT digits.  Every other category stays "C".
  yy_YY  xx_XX's LC_CTYPE + LC_NUMERIC with ',' as decimal point and '.' as thousands separator.
  zz_ZZ  xx_XX's LC_CTYPE + LC_TIME with non-English day and month names.

A harness built on vh_core.h selects them when VH_SETLOCALE is set (vh_install_handlers: setlocale(LC_ALL, "") and a
self-test that the locale is really in force; exit 97 otherwise, which the pipeline reports as a machinery failure).
The same executions and the same specifications are used: the specs say nothing about locales, so a trace that is accepted
under "C" must be accepted under these.
"""
import os
import subprocess

from .common import VERIF

ROOT = os.path.join(VERIF, ".build", "locale8-v2")

_CTYPE = """LC_CTYPE
upper <U0041>..<U005A>;<U00C0>..<U00D6>;<U00D8>..<U00DE>
lower <U0061>..<U007A>;<U00DF>..<U00F6>;<U00F8>..<U00FF>
digit <U0030>..<U0039>
alpha <U0041>..<U005A>;<U0061>..<U007A>;<U00AA>;<U00B5>;<U00BA>;<U00C0>..<U00D6>;<U00D8>..<U00F6>;<U00F8>..<U00FF>
space <U0020>;<U0009>..<U000D>;<U00A0>
blank <U0020>;<U0009>;<U00A0>
punct <U0021>..<U002F>;<U003A>..<U0040>;<U005B>..<U0060>;<U007B>..<U007E>;<U00A1>..<U00A9>;<U00AB>..<U00B4>;<U00B6>..<U00B9>;<U00BB>..<U00BF>;<U00D7>;<U00F7>
xdigit <U0030>..<U0039>;<U0041>..<U0046>;<U0061>..<U0066>
toupper (<U0061>,<U0041>);(<U0062>,<U0042>);(<U0063>,<U0043>);(<U0064>,<U0044>);(<U0065>,<U0045>);(<U0066>,<U0046>);(<U0067>,<U0047>);(<U0068>,<U0048>);(<U0069>,<U0049>);(<U006A>,<U004A>);(<U006B>,<U004B>);(<U006C>,<U004C>);(<U006D>,<U004D>);(<U006E>,<U004E>);(<U006F>,<U004F>);(<U0070>,<U0050>);(<U0071>,<U0051>);(<U0072>,<U0052>);(<U0073>,<U0053>);(<U0074>,<U0054>);(<U0075>,<U0055>);(<U0076>,<U0056>);(<U0077>,<U0057>);(<U0078>,<U0058>);(<U0079>,<U0059>);(<U007A>,<U005A>);(<U00E0>,<U00C0>);(<U00E9>,<U00C9>);(<U00FC>,<U00DC>)
tolower (<U0041>,<U0061>);(<U0042>,<U0062>);(<U0043>,<U0063>);(<U0044>,<U0064>);(<U0045>,<U0065>);(<U0046>,<U0066>);(<U0047>,<U0067>);(<U0048>,<U0068>);(<U0049>,<U0069>);(<U004A>,<U006A>);(<U004B>,<U006B>);(<U004C>,<U006C>);(<U004D>,<U006D>);(<U004E>,<U006E>);(<U004F>,<U006F>);(<U0050>,<U0070>);(<U0051>,<U0071>);(<U0052>,<U0072>);(<U0053>,<U0073>);(<U0054>,<U0074>);(<U0055>,<U0075>);(<U0056>,<U0076>);(<U0057>,<U0077>);(<U0058>,<U0078>);(<U0059>,<U0079>);(<U005A>,<U007A>);(<U00C0>,<U00E0>);(<U00C9>,<U00E9>);(<U00DC>,<U00FC>)
END LC_CTYPE
"""

_NUMERIC = """LC_NUMERIC
decimal_point "<U002C>"
thousands_sep "<U002E>"
grouping 3;3
END LC_NUMERIC
"""


def _u(s):
    return '"' + "".join("<U%04X>" % ord(c) for c in s) + '"'


_DAYS_AB = ["dim", "lun", "mar", "mer", "jeu", "ven", "sam"]
_DAYS = ["dimanche", "lundi", "mardi", "mercredi", "jeudi", "vendredi", "samedi"]
_MON_AB = ["jan", "fev", "mrs", "avr", "mai", "jun", "jul", "aou", "sep", "okt", "nov", "dez"]
_MON = ["janvier", "fevrier", "mars", "avril", "mai", "juin", "juillet", "aout", "septembre", "oktober", "novembre", "dezember"]
_TIME = ("LC_TIME\nabday " + ";".join(map(_u, _DAYS_AB)) + "\nday " + ";".join(map(_u, _DAYS)) + "\nabmon " + ";".join(map(_u, _MON_AB)) +
         "\nmon " + ";".join(map(_u, _MON)) + "\nd_t_fmt " + _u("%a %d %b %Y %T") + "\nd_fmt " + _u("%d.%m.%Y") + "\nt_fmt " + _u("%T") +
         "\nam_pm " + _u("") + ";" + _u("") + "\nt_fmt_ampm " + _u("") + "\nEND LC_TIME\n")

LOCALES = {
    "xx_XX": ["escape_char /\ncomment_char %\n", _CTYPE],
    "yy_YY": ["escape_char /\ncomment_char %\n", _CTYPE, _NUMERIC],
    "zz_ZZ": ["escape_char /\ncomment_char %\n", _CTYPE, _TIME],
}

_state = {}


def _charmap():
    out = ["<code_set_name> VERIF-LATIN1", "<mb_cur_min> 1", "<mb_cur_max> 1", "<escape_char> /", "<comment_char> %", "CHARMAP"]
    for c in range(0x100):
        if 0x80 <= c < 0xA0:
            continue
        out.append("<U%04X> /x%02x c%02x" % (c, c, c))
    out.append("END CHARMAP")
    return "\n".join(out) + "\n"


def ensure():
    """Builds the private locales once; returns None when localedef is missing or fails (the family is then reported as
    not run - it is never a reason to fail a check)."""
    if "ok" in _state:
        return _state["ok"]
    ok = True
    try:
        os.makedirs(ROOT, exist_ok=True)
        cm = os.path.join(ROOT, "charmap")
        open(cm, "w").write(_charmap())
        for name, parts in LOCALES.items():
            dst = os.path.join(ROOT, name)
            if os.path.exists(os.path.join(dst, "LC_CTYPE")):
                continue
            src = os.path.join(ROOT, name + ".src")
            open(src, "w").write("".join(parts))
            # -c: the sources leave most categories out on purpose; localedef warns and fills in "C"
            subprocess.run(["localedef", "-c", "-i", src, "-f", cm, dst], stdout=subprocess.DEVNULL, stderr=subprocess.DEVNULL, timeout=120)
            if not os.path.exists(os.path.join(dst, "LC_CTYPE")):
                ok = False
    except (OSError, subprocess.SubprocessError):
        ok = False
    _state["ok"] = ROOT if ok else None
    return _state["ok"]


def env(name="xx_XX"):
    """Environment for a harness run under the private locale, or None."""
    root = ensure()
    if not root:
        return None
    return {"LOCPATH": root, "LC_ALL": name, "LANG": name, "VH_SETLOCALE": name}


def note(ctx, label, n, name="xx_XX"):
    ctx.extra.setdefault("locale_family", []).append({"locale": name, "what": label, "executions": n})


def rerun(ctx, exe, execs, spec_dir, module, cfg, label, names=("xx_XX",), base_env=None, what=None, **kw):
    """The executions again, unchanged, in a process that selected one of the private locales; validated by the same trace
    specification.  Returns the number of executions run (0 when the locales could not be built)."""
    from . import pipeline
    total = 0
    for name in names:
        e = env(name)
        if not e:
            ctx.assumptions.append("locale family not run: localedef could not build the private locales")
            return 0
        if base_env:
            e = dict(base_env, **e)
        pipeline.drive_and_validate(ctx, exe, execs, spec_dir, module, cfg, label="%s_%s" % (label, name), env=e, **kw)
        note(ctx, what or label, len(execs), name)
        total += len(execs)
    return total
