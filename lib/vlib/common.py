"""Shared paths and small helpers for the /verif checks."""
import json
import os
import subprocess
import sys
import time

VERIF = os.path.dirname(os.path.dirname(os.path.dirname(os.path.abspath(__file__))))
REPO = os.environ.get("VERIF_REPO", "/repo")
BUILD_ROOT = os.path.join(VERIF, ".build")
OUT_ROOT = os.path.join(VERIF, "out")
SPEC = os.path.join(VERIF, "spec")
HARNESS = os.path.join(VERIF, "harness")
EVIDENCE = os.path.join(VERIF, "evidence")
GUARD = "AWS_C_COMMON_VERIF"
NCPU = os.cpu_count() or 4


class CheckError(Exception):
    """Machinery failure (not a verdict): exit code 2."""


def log(*a):
    print(*a, file=sys.stderr, flush=True)


def run(cmd, timeout=None, env=None, cwd=None, stdin=None, check=False):
    """Run a command; returns (rc, stdout, stderr, timed_out). Never raises on timeout."""
    e = dict(os.environ)
    if env:
        e.update(env)
    try:
        p = subprocess.run(
            cmd, cwd=cwd, env=e, input=stdin, stdout=subprocess.PIPE, stderr=subprocess.PIPE, timeout=timeout
        )
        rc, out, err, to = p.returncode, p.stdout, p.stderr, False
    except subprocess.TimeoutExpired as x:
        rc, out, err, to = -9, x.stdout or b"", x.stderr or b"", True
    if check and rc != 0:
        raise CheckError("command failed rc=%s: %s\n%s" % (rc, " ".join(map(str, cmd)), err.decode(errors="replace")[-4000:]))
    return rc, out, err, to


def read_ndjson(path):
    out = []
    with open(path, "r") as f:
        for line in f:
            line = line.strip()
            if line:
                out.append(json.loads(line))
    return out


def write_ndjson(path, items):
    with open(path, "w") as f:
        for it in items:
            f.write(json.dumps(it, separators=(",", ":")))
            f.write("\n")


class Timer:
    def __init__(self):
        self.t0 = time.time()

    def s(self):
        return round(time.time() - self.t0, 2)
