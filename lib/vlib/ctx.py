"""Check context: accumulates what a run covered, decides the exit status, writes the evidence file."""
import json
import os
import shutil

from . import tlc
from .common import EVIDENCE, OUT_ROOT, VERIF, CheckError, Timer, log


def load_known():
    """known_findings.txt -> list of dicts {status, property, id, commit, what}"""
    import re
    p = os.path.join(VERIF, "known_findings.txt")
    out = []
    if os.path.exists(p):
        for line in open(p):
            line = line.strip()
            m = re.match(r"(known|fixed): property=(\S+) (.*)$", line)
            if not m:
                continue
            rec = {"status": m.group(1), "property": m.group(2), "what": m.group(3), "id": "", "commit": ""}
            if rec["status"] == "known":
                mm = re.match(r"id=(\S+) (.*)$", rec["what"])
                if mm:
                    rec["id"], rec["what"] = mm.group(1), mm.group(2)
            else:
                mm = re.match(r"(\S+) (.*)$", rec["what"])
                if mm:
                    rec["commit"], rec["what"] = mm.group(1), mm.group(2)
            out.append(rec)
    return out


class Ctx:
    def __init__(self, pid, tier, seed, level, replay=None):
        self.pid, self.tier, self.seed, self.level = pid, tier, seed, level
        self.replay = replay
        self.timer = Timer()
        name = (pid if tier == "quick" else pid + "-" + tier) if not replay else pid + "_replay"
        # runs against another tree (mutants, seeded changes) get their own scratch directory, so that they can run
        # next to a check of /repo itself
        tag = os.environ.get("VERIF_OUT_TAG") or (os.path.basename(os.environ["VERIF_REPO"].rstrip("/"))
                                                  if os.environ.get("VERIF_REPO", "/repo").rstrip("/") != "/repo" else "")
        if tag:
            name += "@" + tag
        self.outdir = os.path.join(OUT_ROOT, name)
        if os.path.isdir(self.outdir):
            # keep earlier violation replays (they are referenced by printed lines) but drop scratch
            for e in os.listdir(self.outdir):
                if e != "violations":
                    p = os.path.join(self.outdir, e)
                    shutil.rmtree(p, ignore_errors=True) if os.path.isdir(p) else os.remove(p)
        os.makedirs(self.outdir, exist_ok=True)
        self.states = 0
        self.transitions = 0
        self.traces_ok = 0
        self.evaluations = 0
        self.distinct = set()
        self.distinct_extra = 0
        self.samples = []
        self.assumptions = []
        self.models = []       # per TLC model-checking run summary
        self.coverage = {}     # action -> [taken, generated]
        self.extra = {}
        self.violations = []   # (what, replay_path)
        self.known_fired = []  # (finding id, what)
        self.rule = ""
        self.known = [k for k in load_known() if k.get("property") == pid]
        self.inconclusive = []

    # ---- model checking (design level)
    def mc(self, spec_dir, module, cfg, required_actions=(), **kw):
        log("[%s] TLC model check %s/%s %s" % (self.pid, spec_dir, module, cfg))
        res = tlc.mc(spec_dir, module, cfg, self.outdir, **kw)
        self.states += res.distinct
        self.transitions += res.generated
        for k, (t, g) in res.coverage.items():
            a = self.coverage.setdefault(k, [0, 0])
            a[0] += t
            a[1] += g
        missing = [a for a in required_actions if res.coverage.get(a, (0, 0))[1] == 0]
        if missing:
            raise CheckError("MODEL-BROKEN (vacuity): actions never taken in %s %s: %s" % (module, cfg, missing))
        self.models.append({"spec": "%s/%s" % (spec_dir, module), "cfg": cfg, "distinct": res.distinct,
                            "generated": res.generated, "depth": res.depth, "wall_s": res.wall_s})
        return res

    def add_sample(self, s, cap=6):
        if len(self.samples) < cap:
            self.samples.append(s)

    def violation(self, what, replay_path):
        self.violations.append((what, replay_path))

    def known_finding(self, fid, what):
        if (fid, what) not in self.known_fired:
            self.known_fired.append((fid, what))

    def new_replay_dir(self, label):
        d = os.path.join(self.outdir, "violations", "%s_%d" % (label, len(os.listdir(os.path.join(self.outdir, "violations"))) if os.path.isdir(os.path.join(self.outdir, "violations")) else 0))
        os.makedirs(d, exist_ok=True)
        return d

    # ---- finish
    def finish(self):
        cov = {
            "states": self.states,
            "transitions": self.transitions,
            "traces_validated_against_impl": self.traces_ok,
            "evaluations": self.evaluations,
            "distinct_nontrivial": len(self.distinct) + self.distinct_extra,
            "rule": self.rule,
            "samples": self.samples if self.samples else ["<none>"],
            "models": self.models,
            "action_coverage": {k: "%d:%d" % (v[0], v[1]) for k, v in sorted(self.coverage.items())},
            "known_findings_fired": [{"id": a, "what": b} for a, b in self.known_fired],
            "inconclusive": self.inconclusive,
        }
        cov.update(self.extra)
        ev = {
            "property_id": self.pid,
            "tier": self.tier,
            "seed": self.seed,
            "level": self.level,
            "coverage": cov,
            "assumptions": self.assumptions,
            "wall_s": self.timer.s(),
            "violations": len(self.violations),
        }
        if not self.replay and not os.environ.get('VERIF_EVIDENCE_SUPPRESS'):
            # checks beyond the given property list (X..: spec growth, DESIGN section 13) report under evidence/extra/
            evdir = EVIDENCE if not self.pid.startswith("X") else os.path.join(EVIDENCE, "extra")
            os.makedirs(evdir, exist_ok=True)
            tmp = os.path.join(evdir, self.pid + ".json.tmp")
            with open(tmp, "w") as f:
                json.dump(ev, f, indent=1)
            os.replace(tmp, os.path.join(evdir, self.pid + ".json"))
        for fid, what in self.known_fired:
            print("KNOWN-FINDING: property=%s %s" % (self.pid, what), flush=True)
        for what, path in self.violations:
            print("VIOLATION property=%s replay=%s" % (self.pid, path), flush=True)
            log("  -> %s" % what)
        return 1 if self.violations else 0
