"""model -> code -> model pipeline for script-driven adapters:
   executions (scripts) --harness--> ndjson trace --TLC Trace spec--> accepted / rejected.
An execution is a list of text lines; its first line makes the adapter emit exactly one {"e":"Reset",...}
event, which is how a rejected line is attributed to one execution (DESIGN 4.2)."""
import concurrent.futures as cf
import json
import os
import shutil

from . import tlc
from .common import CheckError, NCPU, log, run

ASAN_ENV = {
    "ASAN_OPTIONS": "abort_on_error=0:detect_leaks=0:allocator_may_return_null=1:handle_abort=0:print_summary=1:"
                    "detect_stack_use_after_return=0:malloc_context_size=8",
    "TZ": "UTC",
}


def _chunks(xs, n):
    n = max(1, n)
    k = (len(xs) + n - 1) // n
    return [xs[i:i + k] for i in range(0, len(xs), k)] if xs else []


def read_trace(path):
    """Returns list of (event dict) ; unparseable lines (half-written before a crash) are dropped."""
    evs = []
    try:
        with open(path) as f:
            for line in f:
                line = line.strip()
                if not line:
                    continue
                try:
                    evs.append(json.loads(line))
                except ValueError:
                    continue
    except FileNotFoundError:
        pass
    return evs


def run_harness(exe, script_lines, workdir, name, *, timeout=300, env=None, args=None, asan_log=True):
    os.makedirs(workdir, exist_ok=True)
    sp = os.path.join(workdir, name + ".script")
    tp = os.path.join(workdir, name + ".ndjson")
    with open(sp, "w") as f:
        f.write("\n".join(script_lines) + "\n")
    e = dict(ASAN_ENV)
    if env:
        e.update(env)
    rc, out, err, to = run([exe, sp, tp] + list(args or []), timeout=timeout, env=e)
    with open(os.path.join(workdir, name + ".stderr"), "wb") as f:
        f.write(err[-200000:])
    # a runaway harness is not read into memory (vh_core.h caps the number of events; this is the second line of defence)
    if os.path.exists(tp) and os.path.getsize(tp) > 3 * 1024 ** 3:
        evs = [{"e": "Died", "sig": 98}]
        with open(tp, "r+b") as f:
            f.truncate(64 * 1024 * 1024)
    else:
        evs = read_trace(tp)
    died = None
    if to:
        died = "watchdog: harness did not finish within %ss" % timeout
    elif evs and evs[-1].get("e") == "Died":
        died = "process died with signal %s (ASan/abort/segv)" % evs[-1].get("sig")
    elif rc != 0:
        died = "harness exit code %s" % rc
    elif not evs or evs[-1].get("e") not in ("End", "BatchEnd"):
        died = "trace does not end with End event"
    return sp, tp, evs, died, err.decode(errors="replace")


def exec_of_line(evs, line_no):
    """1-based trace line -> 0-based execution index (count of Reset events up to that line) - 1"""
    c = 0
    for i, e in enumerate(evs[:line_no]):
        if e.get("e") == "Reset":
            c += 1
    return max(0, c - 1)


def write_clean_trace(evs, path):
    with open(path, "w") as f:
        for e in evs:
            f.write(json.dumps(e, separators=(",", ":")) + "\n")


MAX_TRACE_EVENTS = int(os.environ.get("VERIF_MAX_TRACE_EVENTS", "60000"))      # TLC handles behaviours of at most 65535 states; one state per trace line


def validate_events(evs, clean, spec_dir, module, cfg, wd, *, tag, timeout=900, env=None, xmx="3g"):
    """Writes evs to `clean` and validates them; a trace longer than TLC can follow is validated in segments that each
    start at a Reset event (v.matched is reported in coordinates of the whole trace)."""
    write_clean_trace(evs, clean)
    if len(evs) <= MAX_TRACE_EVENTS:
        return tlc.validate(spec_dir, module, cfg, clean, wd, timeout=timeout, env=env, tag=tag, xmx=xmx)
    starts = [i for i, e in enumerate(evs) if e.get("e") == "Reset"] or [0]
    segs, a = [], starts[0]
    for k, st in enumerate(starts):
        nxt = starts[k + 1] if k + 1 < len(starts) else len(evs)
        if nxt - a > MAX_TRACE_EVENTS and st > a:
            segs.append((a, st))
            a = st
    segs.append((a, len(evs)))
    v, gen = None, 0
    for si, (lo, hi) in enumerate(segs):
        part = clean.replace(".clean.ndjson", ".s%02d.clean.ndjson" % si)
        write_clean_trace(evs[lo:hi], part)
        v = tlc.validate(spec_dir, module, cfg, part, wd, timeout=timeout, env=env, tag="%s_s%02d" % (tag, si), xmx=xmx)
        if v.error:
            return v
        gen += v.generated
        if not v.accepted:
            v.matched += lo
            v.total = len(evs)
            break
    v.generated = gen
    return v


def drive_and_validate(ctx, exe, executions, spec_dir, module, cfg, *, label="run", nbatch=None, harness_timeout=300,
                       tlc_timeout=900, env=None, harness_args=None, tlc_env=None, sample_every=None, end_line="END",
                       lenient_cfg=None, on_fired=None, xmx="3g", stale_errors=0.3):
    """Runs all executions (batched), validates each batch with TLC. Records violations in ctx.
    Returns number of executions accepted."""
    if not executions:
        return 0
    if stale_errors:
        # every script-driven adapter understands "ERR <code>" (vh_core.h): a stale thread-local error code is left
        # behind before some calls. It produces no event, so the specification requires that it changes nothing.
        import random
        prng = random.Random(ctx.seed * 7919 + len(executions))
        poisoned = []
        for ex in executions:
            ex = list(ex)
            if len(ex) > 2 and prng.random() < stale_errors:
                for _ in range(prng.choice([1, 1, 2, 3])):
                    ex.insert(prng.randrange(1, len(ex)), "ERR %d" % prng.choice([1, 2, 3, 4, 5, 6, 7, 10, 10, 10, 11, 14, 15, 16, 25, 26, 27, 34]))
            poisoned.append(ex)
        executions = poisoned
        ctx.extra["executions_with_stale_error_codes"] = sum(1 for ex in executions if any(l.startswith("ERR ") for l in ex))
    nbatch = nbatch or min(NCPU, max(1, len(executions) // 20))
    batches = _chunks(executions, nbatch)
    wd = os.path.join(ctx.outdir, label)
    shutil.rmtree(wd, ignore_errors=True)
    os.makedirs(wd)
    use_cfg = lenient_cfg or cfg

    def one(bi):
        b = batches[bi]
        lines = [ln for ex in b for ln in ex] + [end_line]
        sp, tp, evs, died, err = run_harness(exe, lines, wd, "b%03d" % bi, timeout=harness_timeout, env=env, args=harness_args)
        if died:
            nres = sum(1 for e in evs if e.get("e") == "Reset")
            return ("died", bi, max(0, nres - 1), died, err)
        clean = os.path.join(wd, "b%03d.clean.ndjson" % bi)
        v = validate_events(evs, clean, spec_dir, module, use_cfg, wd, tag="b%03d" % bi, timeout=tlc_timeout, env=tlc_env, xmx=xmx)
        if v.error:
            return ("error", bi, 0, v.error, "")
        if v.accepted:
            return ("ok", bi, len(b), v, "")
        return ("rejected", bi, exec_of_line(evs, v.matched + 1), v, evs)

    results = []
    with cf.ThreadPoolExecutor(max_workers=min(NCPU, len(batches))) as pool:
        for r in pool.map(one, range(len(batches))):
            results.append(r)

    accepted = 0
    for kind, bi, idx, info, aux in results:
        if len(ctx.violations) >= 3 and kind in ("died", "rejected"):
            if kind == "rejected":
                accepted += idx
            ctx.extra["further_rejections_not_confirmed"] = ctx.extra.get("further_rejections_not_confirmed", 0) + 1
            continue
        b = batches[bi]
        if kind == "ok":
            accepted += idx
            ctx.transitions += info.generated
            if on_fired:
                on_fired(info)
        elif kind == "error":
            raise CheckError("trace validation machinery error (batch %d): %s" % (bi, info))
        elif kind == "died":
            ex = b[min(idx, len(b) - 1)]
            confirm_and_report(ctx, exe, ex, spec_dir, module, cfg, label, "died: " + info, env, harness_args, tlc_env,
                               harness_timeout, tlc_timeout, end_line, asan_text=aux)
        elif kind == "rejected":
            ex = b[min(idx, len(b) - 1)]
            accepted += idx
            what = "trace rejected at line %d of batch %d (execution %d): event %s" % (
                info.matched + 1, bi, idx, json.dumps(aux[info.matched]) if info.matched < len(aux) else "?")
            confirm_and_report(ctx, exe, ex, spec_dir, module, use_cfg, label, what, env, harness_args, tlc_env,
                               harness_timeout, tlc_timeout, end_line)
    ctx.traces_ok += accepted
    return accepted


def confirm_and_report(ctx, exe, ex, spec_dir, module, cfg, label, what, env, harness_args, tlc_env, harness_timeout,
                       tlc_timeout, end_line, asan_text=""):
    """Re-executes the single failing execution in isolation and re-validates it (DESIGN 3.1: a rejection is
    reported only if it repeats)."""
    rd = ctx.new_replay_dir(label)
    lines = list(ex) + [end_line]
    sp, tp, evs, died, err = run_harness(exe, lines, rd, "replay", timeout=harness_timeout, env=env, args=harness_args)
    meta = {"property": ctx.pid, "label": label, "spec_dir": spec_dir, "module": module, "cfg": cfg,
            "harness": os.path.basename(exe), "env": env or {}, "harness_args": harness_args or [],
            "tlc_env": tlc_env or {}, "end_line": end_line, "what": what}
    if died:
        meta["confirmed"] = "died: " + died
        with open(os.path.join(rd, "asan.txt"), "w") as f:
            f.write(err[-20000:])
        json.dump(meta, open(os.path.join(rd, "replay.json"), "w"), indent=1)
        ctx.violation(what + " | reproduced in isolation: " + died, rd)
        return
    clean = os.path.join(rd, "replay.clean.ndjson")
    write_clean_trace(evs, clean)
    v = tlc.validate(spec_dir, module, cfg, clean, rd, timeout=tlc_timeout, env=tlc_env, tag="replay")
    if v.error:
        raise CheckError("trace validation machinery error on isolated execution: " + v.error)
    if v.accepted:
        # not reproducible in isolation: the batch leaked state between executions, or the crash was not
        # deterministic. Either way this is not a verdict.
        raise CheckError("rejection/crash did not reproduce in isolation (%s); replay dir %s" % (what, rd))
    meta["confirmed"] = "rejected at line %d: %s" % (v.matched + 1, json.dumps(evs[v.matched]) if v.matched < len(evs) else "?")
    json.dump(meta, open(os.path.join(rd, "replay.json"), "w"), indent=1)
    ctx.violation(what + " | reproduced in isolation: " + meta["confirmed"], rd)


def replay_dir(ctx, rd):
    """./check <ID> --replay <dir>"""
    from . import build
    meta = json.load(open(os.path.join(rd, "replay.json")))
    if meta.get("tsan"):
        exe = os.path.join(build.ensure_lib("tsan"), "harness", meta["harness"])
        wd = os.path.join(ctx.outdir, "replay")
        lines = _vs_script(meta["policy"], meta["scenario"]) + ["END"]
        sp, tp, evs, died, err = run_harness(exe, lines, wd, "replay", env=dict(TSAN_ENV, **(meta.get("env") or {})))
        if any(e.get("e") == "Died" and e.get("sig") == 166 for e in evs):
            ctx.violation("replay: data race reported again", rd)
        return
    if meta.get("vsched"):
        return replay_vsched(ctx, rd, meta)
    exe = os.path.join(build.ensure_lib(), "harness", meta["harness"])
    if not os.path.exists(exe):
        raise CheckError("harness %s not built; run the check once first" % meta["harness"])
    script = open(os.path.join(rd, "replay.script")).read().splitlines()
    wd = os.path.join(ctx.outdir, "replay")
    sp, tp, evs, died, err = run_harness(exe, script, wd, "replay", env=meta.get("env"), args=meta.get("harness_args"))
    if died:
        ctx.violation("replay: " + died, rd)
        return
    clean = os.path.join(wd, "replay.clean.ndjson")
    write_clean_trace(evs, clean)
    v = tlc.validate(meta["spec_dir"], meta["module"], meta["cfg"], clean, wd, env=meta.get("tlc_env"), tag="replay")
    if v.error:
        raise CheckError(v.error)
    if not v.accepted:
        ctx.violation("replay: rejected at line %d" % (v.matched + 1), rd)


# ----------------------------------------------------------------------------------------------------------------
# controlled-scheduler executions (harness/vsched): one forked child per execution, the Reset event carries the
# schedule policy that reproduces it ("rand <seed>", "pct <seed> <d>", "fixed a,b,c").

FATAL = ("Died", "Deadlock")


def split_vsched(evs):
    """-> list of executions: dict(policy, events (without Reset), block) ; dfs summaries are returned separately"""
    execs, summaries = [], []
    cur = None
    for e in evs:
        k = e.get("e")
        if k == "Reset":
            cur = {"policy": e.get("sched", ""), "events": [], "reset": e}
            if cur["policy"] == "dfs-summary":
                summaries.append(cur)
            else:
                execs.append(cur)
        elif k == "BatchEnd":
            cur = None
        elif cur is not None:
            cur["events"].append(e)
    return execs, summaries


def _assign_blocks(execs_and_summaries_in_order, blocks):
    """Walks Reset events in file order and attaches the scenario lines of the block that produced each."""
    bi = 0
    for ex in execs_and_summaries_in_order:
        if bi >= len(blocks):
            ex["scenario"] = []
            continue
        pol, lines = blocks[bi]
        ex["scenario"] = lines
        if pol.startswith("dfs"):
            if ex["policy"] == "dfs-summary":
                bi += 1
        else:
            bi += 1


def _vs_script(policy, lines):
    return ["EXEC " + policy] + list(lines)


def drive_vsched(ctx, exe, blocks, spec_dir, module, cfg, *, label="vs", nbatch=None, harness_timeout=900,
                 tlc_timeout=900, env=None, xmx="3g", max_confirm=3, classify=None):
    """blocks: list of (policy, scenario_lines). Returns (n_executions, n_accepted).
    classify(execution) -> None | (finding_id, what): lets a check route executions that match a *listed* known
    finding (DESIGN 3.3) away from the verdict; it is consulted only for executions TLC or the scheduler rejected."""
    if not blocks:
        return 0, 0
    nbatch = nbatch or min(NCPU, max(1, len(blocks) // 8))
    batches = _chunks(blocks, nbatch)
    wd = os.path.join(ctx.outdir, label)
    shutil.rmtree(wd, ignore_errors=True)
    os.makedirs(wd)

    def one(bi):
        b = batches[bi]
        lines = []
        for pol, sc in b:
            lines += _vs_script(pol, sc)
        lines.append("END")
        sp, tp, evs, died, err = run_harness(exe, lines, wd, "b%03d" % bi, timeout=harness_timeout, env=env)
        if died:
            return ("runner-died", bi, died, None, None)
        # attach scenario to each execution (file order)
        order = []
        cur = None
        for e in evs:
            if e.get("e") == "Reset":
                cur = {"policy": e.get("sched", ""), "events": [], "reset": e}
                order.append(cur)
            elif e.get("e") == "BatchEnd":
                cur = None
            elif cur is not None:
                cur["events"].append(e)
        _assign_blocks(order, b)
        execs = [x for x in order if x["policy"] != "dfs-summary"]
        summ = [x for x in order if x["policy"] == "dfs-summary"]
        bad, capped, good = [], [], []
        for ex in execs:
            kinds = [e.get("e") for e in ex["events"]]
            if any(k in FATAL for k in kinds):
                bad.append(ex)
            elif "StepCap" in kinds:
                capped.append(ex)
            elif not kinds or kinds[-1] != "End":
                bad.append(ex)
            else:
                good.append(ex)
        clean = os.path.join(wd, "b%03d.clean.ndjson" % bi)
        flat = []
        for ex in good:
            flat.append(ex["reset"])
            flat += ex["events"]
        write_clean_trace(flat, clean)
        rejected = []
        accepted = 0
        gen = 0
        remaining = good
        # validate; on rejection drop the offending execution and continue with the rest (bounded)
        for _round in range(max_confirm + 1):
            if not remaining:
                break
            flat = []
            for ex in remaining:
                flat.append(ex["reset"])
                flat += ex["events"]
            v = validate_events(flat, clean, spec_dir, module, cfg, wd, tag="b%03d" % bi, timeout=tlc_timeout, xmx=xmx)
            if v.error:
                return ("error", bi, v.error, None, None)
            gen += v.generated
            if v.accepted:
                accepted += len(remaining)
                break
            idx = exec_of_line(flat, v.matched + 1)
            accepted += idx
            ex = remaining[idx]
            ex["rejected_event"] = flat[v.matched] if v.matched < len(flat) else None
            rejected.append(ex)
            remaining = remaining[idx + 1:]
        else:
            pass
        return ("done", bi, {"bad": bad, "capped": capped, "rejected": rejected, "accepted": accepted,
                             "n": len(execs), "summ": summ, "gen": gen, "unvalidated": len(remaining) if rejected and len(rejected) > max_confirm else 0}, None, None)

    results = []
    with cf.ThreadPoolExecutor(max_workers=min(NCPU, len(batches))) as pool:
        for r in pool.map(one, range(len(batches))):
            results.append(r)
    total = accepted = 0
    for kind, bi, info, _a, _b in results:
        if kind == "runner-died":
            raise CheckError("vsched runner failed on batch %d: %s" % (bi, info))
        if kind == "error":
            raise CheckError("trace validation machinery error (batch %d): %s" % (bi, info))
        total += info["n"]
        accepted += info["accepted"]
        ctx.transitions += info["gen"]
        for sm in info["summ"]:
            for e in sm["events"]:
                if e.get("e") == "DfsSummary":
                    d = ctx.extra.setdefault("dfs", {"runs": 0, "unexplored": 0})
                    d["runs"] += e.get("runs", 0)
                    d["unexplored"] += e.get("unexplored", 0)
        if info["capped"]:
            ctx.inconclusive.append("%d executions hit the step cap (batch %d)" % (len(info["capped"]), bi))
        for ex in info["bad"] + info["rejected"]:
            if "rejected_event" in ex:
                what = "trace rejected at event %s (policy '%s')" % (json.dumps(ex["rejected_event"]), ex["policy"][:80])
            else:
                fatal = [e for e in ex["events"] if e.get("e") in FATAL]
                what = "execution ended with %s (policy '%s')" % (json.dumps(fatal[0]) if fatal else "no End event", ex["policy"][:80])
            if classify:
                kf = classify(ex)
                if kf:
                    ctx.known_finding(kf[0], kf[1])
                    continue
            if len(ctx.violations) >= max_confirm:
                ctx.extra["further_rejections_not_confirmed"] = ctx.extra.get("further_rejections_not_confirmed", 0) + 1
                continue
            confirm_vsched(ctx, exe, ex, spec_dir, module, cfg, label, what, env, harness_timeout, tlc_timeout)
    ctx.traces_ok += accepted
    return total, accepted


def _run_vs_single(exe, policy, scenario, rd, name, env, harness_timeout):
    lines = _vs_script(policy, scenario) + ["END"]
    sp, tp, evs, died, err = run_harness(exe, lines, rd, name, timeout=harness_timeout, env=env)
    if died:
        raise CheckError("vsched runner failed in isolated re-run: " + died)
    execs, _ = split_vsched(evs)
    return execs[0] if execs else {"policy": policy, "events": [], "reset": {"e": "Reset"}}


def _vs_judge(ex, spec_dir, module, cfg, rd, tag, tlc_timeout):
    """-> None if the execution is fine, else a description"""
    kinds = [e.get("e") for e in ex["events"]]
    fatal = [e for e in ex["events"] if e.get("e") in FATAL]
    if fatal:
        return "execution ended with %s" % json.dumps(fatal[0])
    if "StepCap" in kinds:
        return None
    if not kinds or kinds[-1] != "End":
        return "execution did not reach its End event"
    clean = os.path.join(rd, tag + ".clean.ndjson")
    write_clean_trace([ex["reset"]] + ex["events"], clean)
    v = tlc.validate(spec_dir, module, cfg, clean, rd, timeout=tlc_timeout, tag=tag)
    if v.error:
        raise CheckError("trace validation machinery error on isolated execution: " + v.error)
    if v.accepted:
        return None
    allv = [ex["reset"]] + ex["events"]
    return "rejected at line %d: %s" % (v.matched + 1, json.dumps(allv[v.matched]) if v.matched < len(allv) else "?")


def confirm_vsched(ctx, exe, ex, spec_dir, module, cfg, label, what, env, harness_timeout, tlc_timeout):
    rd = ctx.new_replay_dir(label)
    ex2 = _run_vs_single(exe, ex["policy"], ex["scenario"], rd, "replay", env, harness_timeout)
    verdict = _vs_judge(ex2, spec_dir, module, cfg, rd, "replay", tlc_timeout)
    meta = {"property": ctx.pid, "vsched": True, "label": label, "spec_dir": spec_dir, "module": module, "cfg": cfg,
            "harness": os.path.basename(exe), "env": env or {}, "policy": ex["policy"], "scenario": ex["scenario"],
            "what": what}
    if verdict is None:
        if '"sig": 14' in what:
            # the wall-clock limit of one execution fired in the batch (a loaded machine) and the same schedule - it is
            # deterministic - runs to its End event and is accepted in isolation: not a verdict in either direction
            ctx.inconclusive.append("one execution hit the wall-clock limit in its batch and completed (accepted) when re-run alone: "
                                    "policy %r, replay dir %s" % (ex["policy"], rd))
            return
        raise CheckError("vsched rejection did not reproduce in isolation (%s); replay dir %s" % (what, rd))
    meta["confirmed"] = verdict
    json.dump(meta, open(os.path.join(rd, "replay.json"), "w"), indent=1)
    ctx.violation(what + " | reproduced in isolation: " + verdict, rd)


def replay_vsched(ctx, rd, meta):
    from . import build
    exe = os.path.join(build.ensure_lib(), "harness", meta["harness"])
    wd = os.path.join(ctx.outdir, "replay")
    os.makedirs(wd, exist_ok=True)
    ex = _run_vs_single(exe, meta["policy"], meta["scenario"], wd, "replay", meta.get("env"), 600)
    verdict = _vs_judge(ex, meta["spec_dir"], meta["module"], meta["cfg"], wd, "replay", 900)
    if verdict:
        ctx.violation("replay: " + verdict, rd)


# ----------------------------------------------------------------------------------------------------------------
# data-race scan: the same scenarios on a ThreadSanitizer build of the library under the controlled scheduler.
# The serialising scheduler cannot exhibit the effect of a race on plain memory (no schedule point inside), so a
# missing or wrong lock is reported by the happens-before detector instead. The baton is invisible to TSan; the
# modelled mutexes are annotated (harness/vsched). A report = the child exits with TSan's exit code (Died sig 166).

TSAN_ENV = {"TSAN_OPTIONS": "halt_on_error=1:exitcode=66:report_signal_unsafe=0:report_thread_leaks=0:report_destroy_locked=0:history_size=4"
                            ":suppressions=" + os.path.join(os.path.dirname(os.path.abspath(__file__)), "tsan.supp"),
            "TZ": "UTC"}


def race_scan(ctx, harness_name, src, blocks, *, label="race", nbatch=None, timeout=900, max_confirm=2, env=None):
    from . import build
    blocks = [(p, sc) for p, sc in blocks if not p.startswith("dfs")]
    if not blocks or os.environ.get("VERIF_NO_RACE_SCAN"):
        return 0
    exe = build.build_harness(harness_name + "_tsan", [src], cflags=["-Wno-unused-function"], wrap=True, variant="tsan")
    nbatch = nbatch or min(NCPU, max(1, len(blocks) // 10))
    batches = _chunks(blocks, nbatch)
    wd = os.path.join(ctx.outdir, label)
    shutil.rmtree(wd, ignore_errors=True)
    os.makedirs(wd)

    def one(bi):
        lines = []
        for pol, sc in batches[bi]:
            lines += _vs_script(pol, sc)
        lines.append("END")
        sp, tp, evs, died, err = run_harness(exe, lines, wd, "b%03d" % bi, timeout=timeout, env=dict(TSAN_ENV, **(env or {})))
        if died:
            return ("runner-died", bi, died, err)
        order = []
        cur = None
        for e in evs:
            if e.get("e") == "Reset":
                cur = {"policy": e.get("sched", ""), "events": [], "reset": e}
                order.append(cur)
            elif e.get("e") == "BatchEnd":
                cur = None
            elif cur is not None:
                cur["events"].append(e)
        _assign_blocks(order, batches[bi])
        racy = [x for x in order if any(e.get("e") == "Died" and e.get("sig") == 166 for e in x["events"])]
        return ("done", bi, (len(order), racy), err)

    n = 0
    with cf.ThreadPoolExecutor(max_workers=min(NCPU, len(batches))) as pool:
        results = list(pool.map(one, range(len(batches))))
    for kind, bi, info, err in results:
        if kind == "runner-died":
            raise CheckError("race scan runner failed on batch %d: %s" % (bi, info))
        cnt, racy = info
        n += cnt
        for ex in racy:
            if len([v for v in ctx.violations if "data race" in v[0]]) >= max_confirm:
                break
            rd = ctx.new_replay_dir(label)
            lines = _vs_script(ex["policy"], ex["scenario"]) + ["END"]
            again = False
            err2 = ""
            for _try in range(3):
                sp, tp, evs, died, err2 = run_harness(exe, lines, rd, "replay", timeout=timeout, env=dict(TSAN_ENV, **(env or {})))
                again = any(e.get("e") == "Died" and e.get("sig") == 166 for e in evs)
                if again:
                    break
            rep = ""
            for src_err in (err2, err):
                i = src_err.find("WARNING: ThreadSanitizer")
                if i >= 0:
                    rep = src_err[i:i + 3000]
                    break
            open(os.path.join(rd, "tsan_report.txt"), "w").write(rep)
            json.dump({"property": ctx.pid, "vsched": True, "tsan": True, "harness": os.path.basename(exe), "policy": ex["policy"],
                       "scenario": ex["scenario"], "what": "data race", "env": env or {}}, open(os.path.join(rd, "replay.json"), "w"), indent=1)
            if "data race" not in rep:
                # only data races are judged here (thread leaks, lock-order reports etc. are other checks' business)
                ctx.extra["tsan_other_reports"] = ctx.extra.get("tsan_other_reports", 0) + 1
                continue
            if not again:
                # a report that does not repeat is not a verdict (DESIGN 3.1); it is recorded, not raised
                ctx.inconclusive.append("ThreadSanitizer report did not reproduce in 3 isolated re-runs (%s)" % rd)
                continue
            first = [l.strip() for l in rep.splitlines() if l.strip().startswith("#0") or "data race" in l][:3]
            ctx.violation("data race on library state (ThreadSanitizer, happens-before via the modelled mutexes) in scenario "
                          "%s under '%s': %s" % (ex["scenario"], ex["policy"][:60], " | ".join(first)), rd)
    ctx.extra["race_scan_executions"] = ctx.extra.get("race_scan_executions", 0) + n
    return n
