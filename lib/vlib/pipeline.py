"""model -> code -> model pipeline for script-driven adapters:
   executions (scripts) --harness--> ndjson trace --TLC Trace spec--> accepted / rejected.
An execution is a list of text lines; its first line makes the adapter emit exactly one {"e":"Reset",...}
event, which is how a rejected line is attributed to one execution (DESIGN 4.2)."""
import concurrent.futures as cf
import json
import os
import shutil

from . import tlc
from .common import CheckError, NCPU, log, run

ASAN_ENV = {
    "ASAN_OPTIONS": "abort_on_error=0:detect_leaks=0:allocator_may_return_null=1:handle_abort=0:print_summary=1:"
                    "detect_stack_use_after_return=0:malloc_context_size=8",
    "TZ": "UTC",
}


def _chunks(xs, n):
    n = max(1, n)
    k = (len(xs) + n - 1) // n
    return [xs[i:i + k] for i in range(0, len(xs), k)] if xs else []


def read_trace(path):
    """Returns list of (event dict) ; unparseable lines (half-written before a crash) are dropped."""
    evs = []
    try:
        with open(path) as f:
            for line in f:
                line = line.strip()
                if not line:
                    continue
                try:
                    evs.append(json.loads(line))
                except ValueError:
                    continue
    except FileNotFoundError:
        pass
    return evs


def run_harness(exe, script_lines, workdir, name, *, timeout=300, env=None, args=None, asan_log=True):
    os.makedirs(workdir, exist_ok=True)
    sp = os.path.join(workdir, name + ".script")
    tp = os.path.join(workdir, name + ".ndjson")
    with open(sp, "w") as f:
        f.write("\n".join(script_lines) + "\n")
    e = dict(ASAN_ENV)
    if env:
        e.update(env)
    rc, out, err, to = run([exe, sp, tp] + list(args or []), timeout=timeout, env=e)
    with open(os.path.join(workdir, name + ".stderr"), "wb") as f:
        f.write(err[-200000:])
    evs = read_trace(tp)
    died = None
    if to:
        died = "watchdog: harness did not finish within %ss" % timeout
    elif evs and evs[-1].get("e") == "Died":
        died = "process died with signal %s (ASan/abort/segv)" % evs[-1].get("sig")
    elif rc != 0:
        died = "harness exit code %s" % rc
    elif not evs or evs[-1].get("e") != "End":
        died = "trace does not end with End event"
    return sp, tp, evs, died, err.decode(errors="replace")


def exec_of_line(evs, line_no):
    """1-based trace line -> 0-based execution index (count of Reset events up to that line) - 1"""
    c = 0
    for i, e in enumerate(evs[:line_no]):
        if e.get("e") == "Reset":
            c += 1
    return max(0, c - 1)


def write_clean_trace(evs, path):
    with open(path, "w") as f:
        for e in evs:
            f.write(json.dumps(e, separators=(",", ":")) + "\n")


def drive_and_validate(ctx, exe, executions, spec_dir, module, cfg, *, label="run", nbatch=None, harness_timeout=300,
                       tlc_timeout=900, env=None, harness_args=None, tlc_env=None, sample_every=None, end_line="END",
                       lenient_cfg=None, on_fired=None, xmx="3g"):
    """Runs all executions (batched), validates each batch with TLC. Records violations in ctx.
    Returns number of executions accepted."""
    if not executions:
        return 0
    nbatch = nbatch or min(NCPU, max(1, len(executions) // 20))
    batches = _chunks(executions, nbatch)
    wd = os.path.join(ctx.outdir, label)
    shutil.rmtree(wd, ignore_errors=True)
    os.makedirs(wd)
    use_cfg = lenient_cfg or cfg

    def one(bi):
        b = batches[bi]
        lines = [ln for ex in b for ln in ex] + [end_line]
        sp, tp, evs, died, err = run_harness(exe, lines, wd, "b%03d" % bi, timeout=harness_timeout, env=env, args=harness_args)
        if died:
            nres = sum(1 for e in evs if e.get("e") == "Reset")
            return ("died", bi, max(0, nres - 1), died, err)
        clean = os.path.join(wd, "b%03d.clean.ndjson" % bi)
        write_clean_trace(evs, clean)
        v = tlc.validate(spec_dir, module, use_cfg, clean, wd, timeout=tlc_timeout, env=tlc_env, tag="b%03d" % bi, xmx=xmx)
        if v.error:
            return ("error", bi, 0, v.error, "")
        if v.accepted:
            return ("ok", bi, len(b), v, "")
        return ("rejected", bi, exec_of_line(evs, v.matched + 1), v, evs)

    results = []
    with cf.ThreadPoolExecutor(max_workers=min(NCPU, len(batches))) as pool:
        for r in pool.map(one, range(len(batches))):
            results.append(r)

    accepted = 0
    for kind, bi, idx, info, aux in results:
        if len(ctx.violations) >= 3 and kind in ("died", "rejected"):
            if kind == "rejected":
                accepted += idx
            ctx.extra["further_rejections_not_confirmed"] = ctx.extra.get("further_rejections_not_confirmed", 0) + 1
            continue
        b = batches[bi]
        if kind == "ok":
            accepted += idx
            ctx.transitions += info.generated
            if on_fired:
                on_fired(info)
        elif kind == "error":
            raise CheckError("trace validation machinery error (batch %d): %s" % (bi, info))
        elif kind == "died":
            ex = b[min(idx, len(b) - 1)]
            confirm_and_report(ctx, exe, ex, spec_dir, module, cfg, label, "died: " + info, env, harness_args, tlc_env,
                               harness_timeout, tlc_timeout, end_line, asan_text=aux)
        elif kind == "rejected":
            ex = b[min(idx, len(b) - 1)]
            accepted += idx
            what = "trace rejected at line %d of batch %d (execution %d): event %s" % (
                info.matched + 1, bi, idx, json.dumps(aux[info.matched]) if info.matched < len(aux) else "?")
            confirm_and_report(ctx, exe, ex, spec_dir, module, use_cfg, label, what, env, harness_args, tlc_env,
                               harness_timeout, tlc_timeout, end_line)
    ctx.traces_ok += accepted
    return accepted


def confirm_and_report(ctx, exe, ex, spec_dir, module, cfg, label, what, env, harness_args, tlc_env, harness_timeout,
                       tlc_timeout, end_line, asan_text=""):
    """Re-executes the single failing execution in isolation and re-validates it (DESIGN 3.1: a rejection is
    reported only if it repeats)."""
    rd = ctx.new_replay_dir(label)
    lines = list(ex) + [end_line]
    sp, tp, evs, died, err = run_harness(exe, lines, rd, "replay", timeout=harness_timeout, env=env, args=harness_args)
    meta = {"property": ctx.pid, "label": label, "spec_dir": spec_dir, "module": module, "cfg": cfg,
            "harness": os.path.basename(exe), "env": env or {}, "harness_args": harness_args or [],
            "tlc_env": tlc_env or {}, "end_line": end_line, "what": what}
    if died:
        meta["confirmed"] = "died: " + died
        with open(os.path.join(rd, "asan.txt"), "w") as f:
            f.write(err[-20000:])
        json.dump(meta, open(os.path.join(rd, "replay.json"), "w"), indent=1)
        ctx.violation(what + " | reproduced in isolation: " + died, rd)
        return
    clean = os.path.join(rd, "replay.clean.ndjson")
    write_clean_trace(evs, clean)
    v = tlc.validate(spec_dir, module, cfg, clean, rd, timeout=tlc_timeout, env=tlc_env, tag="replay")
    if v.error:
        raise CheckError("trace validation machinery error on isolated execution: " + v.error)
    if v.accepted:
        # not reproducible in isolation: the batch leaked state between executions, or the crash was not
        # deterministic. Either way this is not a verdict.
        raise CheckError("rejection/crash did not reproduce in isolation (%s); replay dir %s" % (what, rd))
    meta["confirmed"] = "rejected at line %d: %s" % (v.matched + 1, json.dumps(evs[v.matched]) if v.matched < len(evs) else "?")
    json.dump(meta, open(os.path.join(rd, "replay.json"), "w"), indent=1)
    ctx.violation(what + " | reproduced in isolation: " + meta["confirmed"], rd)


def replay_dir(ctx, rd):
    """./check <ID> --replay <dir>"""
    from . import build
    meta = json.load(open(os.path.join(rd, "replay.json")))
    exe = os.path.join(build.ensure_lib(), "harness", meta["harness"])
    if not os.path.exists(exe):
        raise CheckError("harness %s not built; run the check once first" % meta["harness"])
    script = open(os.path.join(rd, "replay.script")).read().splitlines()
    wd = os.path.join(ctx.outdir, "replay")
    sp, tp, evs, died, err = run_harness(exe, script, wd, "replay", env=meta.get("env"), args=meta.get("harness_args"))
    if died:
        ctx.violation("replay: " + died, rd)
        return
    clean = os.path.join(wd, "replay.clean.ndjson")
    write_clean_trace(evs, clean)
    v = tlc.validate(meta["spec_dir"], meta["module"], meta["cfg"], clean, wd, env=meta.get("tlc_env"), tag="replay")
    if v.error:
        raise CheckError(v.error)
    if not v.accepted:
        ctx.violation("replay: rejected at line %d" % (v.matched + 1), rd)
