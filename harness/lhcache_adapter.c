/* C18 adapter: one aws_linked_hash_table or one aws_cache (fifo / lifo / lru) driven by a script.
 * Keys are objects (class, ptr): the user hash and equality look at the class only, so two distinct key objects of
 * one class compare equal. Destructors only count (per key object / per value object) and append to the list of
 * destructor calls seen during the current API call. State is observed through the public iteration list
 * (aws_linked_hash_table_get_iteration_list; for caches on the public member aws_cache.table) and the element
 * count - never through extra lookups, which would change LRU recency. No expected values live here. */
#include "vh_core.h"

#include <aws/common/cache.h>
#include <aws/common/fifo_cache.h>
#include <aws/common/lifo_cache.h>
#include <aws/common/linked_hash_table.h>
#include <aws/common/lru_cache.h>

#define NC 6
#define NP 2
#define MAXV 256
#define MAXCALL 64

struct key_obj {
    int cls, ptr;
    long long destroyed;
};
struct val_obj {
    int id;
    long long destroyed;
};
static struct key_obj *keys[NC + 1][NP + 1]; /* each its own heap block */
static struct val_obj *vals[MAXV + 1];
static int hash_mode;
static long long nvd_total;
static long long call_dk[MAXCALL][2], call_dv[MAXCALL];
static size_t n_call_dk, n_call_dv;

/* NULL is a key like any other (callers store small integers cast to pointers): with null_mode the key object
 * (class 1, pointer 1) is handed to the library as the NULL pointer */
static int null_mode;
#define KEY(c, p) ((null_mode && (c) == 1 && (p) == 1) ? NULL : (void *)keys[c][p])
static const struct key_obj *key_of(const void *k) {
    return k ? (const struct key_obj *)k : keys[1][1];
}
static uint64_t key_hash(const void *k) {
    int c = key_of(k)->cls;
    switch (hash_mode) {
        case 1:
            return 7; /* everything collides */
        case 2:
            return (uint64_t)(c & 1);
        default:
            return (uint64_t)c * 0x9E3779B97F4A7C15ull;
    }
}
static bool key_eq(const void *a, const void *b) {
    return key_of(a)->cls == key_of(b)->cls;
}
static void key_destroy(void *k) {
    struct key_obj *o = k ? k : keys[1][1];
    o->destroyed++;
    if (n_call_dk < MAXCALL) {
        call_dk[n_call_dk][0] = o->cls;
        call_dk[n_call_dk][1] = o->ptr;
        n_call_dk++;
    }
}
/* "key inside the value" (RESET ... <null_mode> 1): the layout linked_hash_table.c mentions itself - the key is a field of
 * the value record, there is no key destructor, and the value destructor gives the whole record back.  Here: from the
 * moment a value's destructor has run until the API call returns, the key object that was put with it reads as garbage
 * (restored afterwards, the scripts reuse key objects), so a library that still hashes or compares it sees a dead key. */
static int kin_mode;
static struct key_obj *val_key[MAXV + 1];
static struct key_obj *scrubbed[MAXCALL];
static int scrubbed_cls[MAXCALL];
static size_t n_scrubbed;
static void unscrub(void) {
    while (n_scrubbed) {
        --n_scrubbed;
        scrubbed[n_scrubbed]->cls = scrubbed_cls[n_scrubbed];
    }
}
static void val_destroy(void *v) {
    struct val_obj *o = v;
    if (o) {
        o->destroyed++;
        if (kin_mode && o->id >= 1 && o->id <= MAXV && val_key[o->id] && n_scrubbed < MAXCALL) {
            scrubbed[n_scrubbed] = val_key[o->id];
            scrubbed_cls[n_scrubbed] = val_key[o->id]->cls;
            n_scrubbed++;
            val_key[o->id]->cls = 1000003 + 17 * (int)n_scrubbed;
            val_key[o->id] = NULL;
        }
    }
    nvd_total++;
    if (n_call_dv < MAXCALL) {
        call_dv[n_call_dv++] = o ? o->id : 0;
    }
}

static struct aws_linked_hash_table table;
static struct aws_cache *cache;
static int kind; /* 0 none, 1 lht, 2 fifo, 3 lifo, 4 lru */
static const char *kind_names[] = {"none", "lht", "fifo", "lifo", "lru"};

static struct aws_linked_hash_table *tab(void) {
    return kind == 1 ? &table : &cache->table;
}
static void arr_open(void) {
    vh_sep();
    fputc('[', vh_out);
    vh_first_field = 1;
}
static void destructor_calls(void) {
    vh_arr_begin("dks");
    for (size_t i = 0; i < n_call_dk; ++i) {
        arr_open();
        vh_raw_int(call_dk[i][0]);
        vh_raw_int(call_dk[i][1]);
        vh_arr_end();
    }
    vh_arr_end();
    vh_ints("dvs", call_dv, n_call_dv);
    n_call_dk = n_call_dv = 0;
    unscrub();
}
static void counters(void) {
    long long kd[NC * NP];
    for (int c = 1; c <= NC; ++c) {
        for (int p = 1; p <= NP; ++p) {
            kd[(c - 1) * NP + (p - 1)] = keys[c][p]->destroyed;
        }
    }
    vh_ints("kd", kd, NC * NP);
    vh_int("nvd", nvd_total);
}
static void state(void) {
    const struct aws_linked_list *list = aws_linked_hash_table_get_iteration_list(tab());
    long long kc[MAXCALL], kp[MAXCALL], vv[MAXCALL];
    size_t n = 0;
    int fok = 0;
    const struct aws_linked_list_node *it = aws_linked_list_begin(list);
    while (n < MAXCALL) {
        if (it == aws_linked_list_end(list)) {
            fok = 1;
            break;
        }
        if (!it) {
            break;
        }
        const struct aws_linked_hash_table_node *node = AWS_CONTAINER_OF(it, struct aws_linked_hash_table_node, node);
        const struct key_obj *k = (node->key || null_mode) ? key_of(node->key) : NULL;
        const struct val_obj *v = node->value;
        kc[n] = k ? k->cls : -1;
        kp[n] = k ? k->ptr : -1;
        vv[n] = v ? v->id : 0;
        ++n;
        it = it->next;
    }
    vh_obj_begin("s");
    vh_arr_begin("keys");
    for (size_t i = 0; i < n; ++i) {
        arr_open();
        vh_raw_int(kc[i]);
        vh_raw_int(kp[i]);
        vh_arr_end();
    }
    vh_arr_end();
    vh_ints("vals", vv, n);
    vh_int("fok", fok);
    vh_int("n", (long long)(kind == 1 ? aws_linked_hash_table_get_element_count(&table) : aws_cache_get_element_count(cache)));
    counters();
    vh_obj_end();
}
static long long val_id(void *p) {
    return p ? ((struct val_obj *)p)->id : 0;
}
static void kv_args(int c, int p) {
    vh_int("c", c);
    vh_int("p", p);
}

int main(int argc, char **argv) {
    if (argc < 3) {
        return 3;
    }
    FILE *in = fopen(argv[1], "r");
    vh_open(argv[2]);
    vh_install_handlers(120);
    while (vh_next(in)) {
        if (vh_is("RESET")) { /* RESET kind max dk dv hashmode */
            const char *kn = vh_args(1);
            size_t max = (size_t)vh_argi(2);
            int dk = (int)vh_argi(3), dv = (int)vh_argi(4);
            hash_mode = (int)vh_argi(5);
            null_mode = vh_ntok > 6 ? (int)vh_argi(6) : 0;
            kin_mode = vh_ntok > 7 && vh_argi(7) && !dk && dv;
            unscrub();
            memset(val_key, 0, sizeof(val_key));
            for (int c = 1; c <= NC; ++c) {
                for (int p = 1; p <= NP; ++p) {
                    free(keys[c][p]);
                    keys[c][p] = calloc(1, sizeof(struct key_obj));
                    keys[c][p]->cls = c;
                    keys[c][p]->ptr = p;
                }
            }
            for (int v = 1; v <= MAXV; ++v) {
                free(vals[v]);
                vals[v] = calloc(1, sizeof(struct val_obj));
                vals[v]->id = v;
            }
            nvd_total = 0;
            n_call_dk = n_call_dv = 0;
            aws_hash_callback_destroy_fn *kf = dk ? key_destroy : NULL, *vf = dv ? val_destroy : NULL;
            kind = 0;
            for (int i = 1; i <= 4; ++i) {
                if (!strcmp(kn, kind_names[i])) {
                    kind = i;
                }
            }
            switch (kind) {
                case 1:
                    aws_linked_hash_table_init(&table, vh_alloc(), key_hash, key_eq, kf, vf, max);
                    break;
                case 2:
                    cache = aws_cache_new_fifo(vh_alloc(), key_hash, key_eq, kf, vf, max);
                    break;
                case 3:
                    cache = aws_cache_new_lifo(vh_alloc(), key_hash, key_eq, kf, vf, max);
                    break;
                case 4:
                    cache = aws_cache_new_lru(vh_alloc(), key_hash, key_eq, kf, vf, max);
                    break;
                default:
                    return 3;
            }
            vh_begin("Reset");
            vh_str("kind", kind_names[kind]);
            vh_int("max", (long long)max);
            vh_int("dk", dk);
            vh_int("dv", dv);
            vh_int("hm", hash_mode);
            state();
            vh_end();
            continue;
        }
        if (vh_is("END") || !kind) {
            continue;
        }
        if (vh_is("FIN")) {
            if (kind == 1) {
                aws_linked_hash_table_clean_up(&table);
            } else {
                aws_cache_destroy(cache);
                cache = NULL;
            }
            kind = 0;
            vh_begin("Fin");
            destructor_calls();
            counters();
            vh_int("live", (long long)vh_live_blocks);
            vh_end();
            continue;
        }
        void *out = NULL;
        if (vh_is("PUT")) {
            int c = (int)vh_argi(1), p = (int)vh_argi(2), v = (int)vh_argi(3);
            if (kin_mode && KEY(c, p)) {
                val_key[v] = keys[c][p];
            }
            int rc = kind == 1 ? aws_linked_hash_table_put(&table, KEY(c, p), vals[v]) : aws_cache_put(cache, KEY(c, p), vals[v]);
            vh_begin("Put");
            kv_args(c, p);
            vh_int("v", v);
            vh_rc(rc);
        } else if (vh_is("FIND") || vh_is("FINDMV")) {
            int c = (int)vh_argi(1), p = (int)vh_argi(2), mv = vh_is("FINDMV");
            int rc;
            if (kind == 1) {
                rc = mv ? aws_linked_hash_table_find_and_move_to_back(&table, KEY(c, p), &out)
                        : aws_linked_hash_table_find(&table, KEY(c, p), &out);
            } else {
                rc = aws_cache_find(cache, KEY(c, p), &out);
            }
            vh_begin(mv && kind == 1 ? "FindMove" : "Find");
            kv_args(c, p);
            vh_rc(rc);
            vh_int("v", val_id(out));
        } else if (vh_is("REMOVE")) {
            int c = (int)vh_argi(1), p = (int)vh_argi(2);
            int rc = kind == 1 ? aws_linked_hash_table_remove(&table, KEY(c, p)) : aws_cache_remove(cache, KEY(c, p));
            vh_begin("Remove");
            kv_args(c, p);
            vh_rc(rc);
        } else if (vh_is("CLEAR")) {
            if (kind == 1) {
                aws_linked_hash_table_clear(&table);
            } else {
                aws_cache_clear(cache);
            }
            vh_begin("Clear");
        } else if (vh_is("TOEND")) { /* linked hash table only: the node comes from the public iteration list */
            int c = (int)vh_argi(1);
            if (kind != 1) {
                continue;
            }
            const struct aws_linked_list *list = aws_linked_hash_table_get_iteration_list(&table);
            struct aws_linked_hash_table_node *found = NULL;
            for (struct aws_linked_list_node *it = aws_linked_list_begin(list); it && it != aws_linked_list_end(list);
                 it = it->next) {
                struct aws_linked_hash_table_node *node = AWS_CONTAINER_OF(it, struct aws_linked_hash_table_node, node);
                if (key_of(node->key)->cls == c) {
                    found = node;
                    break;
                }
            }
            if (!found) {
                continue; /* no such node: nothing to call */
            }
            aws_linked_hash_table_move_node_to_end_of_list(&table, found);
            vh_begin("MoveToEnd");
            vh_int("c", c);
        } else if (vh_is("USELRU") || vh_is("GETMRU")) {
            if (kind != 4) {
                continue; /* documented for the lru cache only */
            }
            int use = vh_is("USELRU");
            out = use ? aws_lru_cache_use_lru_element(cache) : aws_lru_cache_get_mru_element(cache);
            vh_begin(use ? "UseLru" : "GetMru");
            vh_int("v", val_id(out));
        } else {
            fprintf(stderr, "unknown op %s\n", vh_tok[0]);
            return 3;
        }
        destructor_calls();
        state();
        vh_end();
    }
    vh_begin("End");
    vh_int("live", (long long)vh_live_blocks);
    vh_end();
    fclose(vh_out);
    return 0;
}
