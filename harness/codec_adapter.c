/* C05 adapter: base64 / hex / UTF-8 functions of aws-c-common driven by a script; one ndjson event per call with the
 * inputs and everything the call reported or wrote. No expected values here. The CPU code path is whatever the
 * process environment selects (AWS_COMMON_AVX2=0/1, read once by the library); it is logged in every Reset event.
 *
 * Output buffers are exact-size heap blocks (ASan sees a one-byte overrun): [0,prelen) holds a known pattern, the rest
 * a canary byte; after the call the event carries len, buffer[0..min(len,cap)) and wrote = 1 + highest index whose
 * byte changed (0 = nothing changed). Inputs are exact-size heap copies as well (over-reads are visible). */
#include "vh_core.h"

#include <aws/common/byte_buf.h>
#include <aws/common/cpuid.h>
#include <aws/common/encoding.h>

static uint8_t *in_buf;
static size_t in_len;

static int hexval(int c) {
    return c <= '9' ? c - '0' : (c | 0x20) - 'a' + 10;
}
/* script token -> exact-size heap copy in in_buf/in_len; "-" is the empty string */
static void load_input(const char *tok) {
    free(in_buf);
    size_t n = strcmp(tok, "-") == 0 ? 0 : strlen(tok) / 2;
    in_buf = malloc(n);
    in_len = n;
    for (size_t i = 0; i < n; ++i) {
        in_buf[i] = (uint8_t)(hexval(tok[2 * i]) * 16 + hexval(tok[2 * i + 1]));
    }
}

typedef int(codec_fn)(const struct aws_byte_cursor *AWS_RESTRICT, struct aws_byte_buf *AWS_RESTRICT);

static void buffer_op(const char *ev, codec_fn *fn, size_t cap, size_t prelen, uint8_t canary) {
    uint8_t *buf = malloc(cap);
    uint8_t *before = malloc(cap ? cap : 1);
    if (prelen > cap) {
        prelen = cap;
    }
    for (size_t i = 0; i < cap; ++i) {
        buf[i] = i < prelen ? (uint8_t)(0x50 + i) : canary;
    }
    memcpy(before, buf, cap);
    struct aws_byte_cursor cur = aws_byte_cursor_from_array(in_buf, in_len);
    struct aws_byte_buf out = aws_byte_buf_from_empty_array(buf, cap);
    out.len = prelen;
    int rc = fn(&cur, &out);
    size_t wrote = 0;
    for (size_t i = 0; i < cap; ++i) {
        if (buf[i] != before[i]) {
            wrote = i + 1;
        }
    }
    vh_begin(ev);
    vh_bytes("inp", in_buf, in_len);
    vh_int("cap", (long long)cap);
    vh_bytes("pre", before, prelen);
    vh_int("canary", canary);
    vh_rc(rc);
    vh_int("len", (long long)(out.len > 1000000 ? 1000000 : out.len));
    vh_bytes("out", buf, out.len < cap ? out.len : cap);
    vh_int("wrote", (long long)wrote);
    vh_end();
    free(buf);
    free(before);
}

/* ---- UTF-8 */
#define MAXCP 8192
static long long cps[MAXCP];
static size_t ncps;
static int on_cp(uint32_t cp, void *ud) {
    (void)ud;
    if (ncps < MAXCP) {
        cps[ncps++] = (long long)cp;
    }
    return AWS_OP_SUCCESS;
}
static struct aws_utf8_decoder *dec;
static bool dec_cb = true;
static bool dec_failed; /* an update reported an error: the header gives no meaning to further calls, so they are skipped */

static void dec_destroy(void) {
    if (dec) {
        aws_utf8_decoder_destroy(dec);
        dec = NULL;
    }
}

int main(int argc, char **argv) {
    if (argc < 3) {
        return 3;
    }
    FILE *in = fopen(argv[1], "r");
    vh_open(argv[2]);
    vh_install_handlers(120);
    struct aws_utf8_decoder_options opt = {.on_codepoint = on_cp, .user_data = NULL};
    while (vh_next(in)) {
        if (vh_is("RESET")) {
            dec_destroy();
            dec_failed = false;
            const char *e = getenv("AWS_COMMON_AVX2");
            vh_begin("Reset");
            vh_str("path", !e ? "auto" : (atoi(e) ? "avx2" : "portable"));
            vh_int("hw_avx2", aws_cpu_has_feature(AWS_CPU_FEATURE_AVX2) ? 1 : 0);
            vh_end();
        } else if (vh_is("B64ENC") || vh_is("B64DEC") || vh_is("HEXENC") || vh_is("HEXDEC")) {
            load_input(vh_args(1));
            codec_fn *fn = vh_is("B64ENC")   ? aws_base64_encode
                           : vh_is("B64DEC") ? aws_base64_decode
                           : vh_is("HEXENC") ? aws_hex_encode
                                             : aws_hex_decode;
            const char *ev = vh_is("B64ENC") ? "B64Enc" : vh_is("B64DEC") ? "B64Dec" : vh_is("HEXENC") ? "HexEnc" : "HexDec";
            buffer_op(ev, fn, (size_t)vh_argu(2), (size_t)vh_argu(3), (uint8_t)vh_argu(4));
        } else if (vh_is("B64ENCAT")) {
            /* B64ENCAT <input> <k> <d> <slack>: the appending encoder on a buffer that already holds k * 2^32 + d bytes
             * (address space only: the mapping is touched at its start, around the append position and nowhere else).
             * The event describes the window that starts 8 bytes in front of the append position the way B64Enc
             * describes a whole buffer; low = 1 iff the first page of the buffer - where a write through an offset
             * truncated to 32 bits lands, d < 4096 - still holds what was put there. */
            load_input(vh_args(1));
            size_t at = ((size_t)vh_argu(2) << 32) + (size_t)vh_argu(3);
            long long slack = vh_argi(4);
            size_t need = 4 * ((in_len + 2) / 3), P = 8;
            size_t cap = (size_t)((long long)(at + need) + slack);
            size_t maplen = (cap > at + need ? cap : at + need) + 4096;
            uint8_t *map = mmap(NULL, maplen, PROT_READ | PROT_WRITE, MAP_PRIVATE | MAP_ANONYMOUS | MAP_NORESERVE, -1, 0);
            if (map == MAP_FAILED || at < 8192) {
                return 3;
            }
            memset(map, 0x77, 4096);
            size_t B = at - P, W = cap - B;
            uint8_t *before = malloc(W + 64);
            for (size_t i = 0; i < W; ++i) {
                map[B + i] = i < P ? (uint8_t)(0x50 + i) : 0xC3;
            }
            memcpy(before, map + B, W);
            struct aws_byte_cursor cur = aws_byte_cursor_from_array(in_buf, in_len);
            struct aws_byte_buf out = aws_byte_buf_from_empty_array(map, cap);
            out.len = at;
            int rc = aws_base64_encode(&cur, &out);
            size_t wrote = 0;
            for (size_t i = 0; i < W; ++i) {
                if (map[B + i] != before[i]) {
                    wrote = i + 1;
                }
            }
            int low = 1;
            for (size_t i = 0; i < 4096; ++i) {
                low &= map[i] == 0x77;
            }
            long long wlen = out.len >= B ? (long long)(out.len - B) : -1;
            vh_begin("B64EncAt");
            vh_bytes("inp", in_buf, in_len);
            vh_int("cap", (long long)W);
            vh_bytes("pre", before, P);
            vh_int("canary", 0xC3);
            vh_rc(rc);
            vh_int("len", wlen > 1000000 ? 1000000 : wlen);
            vh_bytes("out", map + B, wlen < 0 ? 0 : ((size_t)wlen < W ? (size_t)wlen : W));
            vh_int("wrote", (long long)wrote);
            vh_int("low", low);
            vh_end();
            free(before);
            munmap(map, maplen);
        } else if (vh_is("HEXAPP")) {
            load_input(vh_args(1));
            size_t cap = (size_t)vh_argu(2), prelen = (size_t)vh_argu(3);
            struct aws_byte_buf out;
            aws_byte_buf_init(&out, vh_alloc(), cap);
            for (size_t i = 0; i < prelen && i < out.capacity; ++i) {
                out.buffer[i] = (uint8_t)(0x50 + i);
            }
            out.len = prelen < out.capacity ? prelen : out.capacity;
            size_t pl = out.len;
            uint8_t *pre = malloc(pl ? pl : 1);
            memcpy(pre, out.buffer, pl);
            struct aws_byte_cursor cur = aws_byte_cursor_from_array(in_buf, in_len);
            int rc = aws_hex_encode_append_dynamic(&cur, &out);
            vh_begin("HexApp");
            vh_bytes("inp", in_buf, in_len);
            vh_bytes("pre", pre, pl);
            vh_rc(rc);
            vh_int("len", (long long)out.len);
            vh_bytes("out", out.buffer, out.len <= out.capacity ? out.len : out.capacity);
            vh_end();
            free(pre);
            aws_byte_buf_clean_up(&out);
        } else if (vh_is("LEN")) {
            uint64_t n = vh_argu(2);
            size_t r = 0;
            int rc;
            if (!strcmp(vh_args(1), "b64enc")) {
                rc = aws_base64_compute_encoded_len((size_t)n, &r);
            } else if (!strcmp(vh_args(1), "hexenc")) {
                rc = aws_hex_compute_encoded_len((size_t)n, &r);
            } else {
                rc = aws_hex_compute_decoded_len((size_t)n, &r);
            }
            vh_begin("Len");
            vh_str("fn", vh_args(1));
            vh_wide("n", n);
            vh_rc(rc);
            vh_wide("r", rc == 0 ? r : 0);
            vh_end();
        } else if (vh_is("B64DLEN")) {
            load_input(vh_args(1));
            struct aws_byte_cursor cur = aws_byte_cursor_from_array(in_buf, in_len);
            size_t r = 0;
            int rc = aws_base64_compute_decoded_len(&cur, &r);
            vh_begin("B64DecLen");
            vh_bytes("inp", in_buf, in_len);
            vh_rc(rc);
            vh_int("r", rc == 0 ? (long long)r : -1);
            vh_end();
        } else if (vh_is("U8WHOLE")) {
            load_input(vh_args(1));
            struct aws_byte_cursor cur = aws_byte_cursor_from_array(in_buf, in_len);
            ncps = 0;
            int rc = aws_decode_utf8(cur, &opt);
            vh_begin("U8Whole");
            vh_bytes("inp", in_buf, in_len);
            vh_rc(rc);
            vh_ints("cps", cps, ncps);
            vh_int("rc0", aws_decode_utf8(cur, NULL)); /* validation only */
            vh_end();
        } else if (vh_is("U8BEGIN")) {
            const char *how = vh_args(1);
            if (!strcmp(how, "new") || !strcmp(how, "newnocb") || !dec) {
                dec_destroy();
                dec_cb = strcmp(how, "newnocb") != 0;
                /* options are a temporary of the caller's: an exact-size heap copy that is gone as soon as the constructor
                 * has returned (a constructor that keeps the pointer reads released memory later) */
                struct aws_utf8_decoder_options *tmp = malloc(sizeof(*tmp));
                *tmp = opt;
                dec = aws_utf8_decoder_new(vh_alloc(), dec_cb ? tmp : NULL); /* NULL options = validate only */
                memset(tmp, 0xDD, sizeof(*tmp));
                free(tmp);
                how = "new";
            } else if (!strcmp(how, "reset") || dec_failed) {
                aws_utf8_decoder_reset(dec);
                how = "reset";
            }
            dec_failed = false;
            vh_begin("U8Begin");
            vh_str("how", how);
            vh_int("cb", dec_cb);
            vh_end();
        } else if (vh_is("U8UPD")) {
            if (!dec || dec_failed) {
                continue;
            }
            load_input(vh_args(1));
            struct aws_byte_cursor cur = aws_byte_cursor_from_array(in_buf, in_len);
            ncps = 0;
            int rc = aws_utf8_decoder_update(dec, cur);
            dec_failed = rc != 0;
            vh_begin("U8Update");
            vh_bytes("inp", in_buf, in_len);
            vh_rc(rc);
            vh_ints("cps", cps, ncps);
            vh_end();
        } else if (vh_is("U8FIN")) {
            if (!dec || dec_failed) {
                continue;
            }
            ncps = 0;
            int rc = aws_utf8_decoder_finalize(dec);
            vh_begin("U8Final");
            vh_rc(rc);
            vh_int("ncb", (long long)ncps);
            vh_end();
        }
    }
    dec_destroy();
    free(in_buf);
    vh_begin("End");
    vh_int("live", (long long)vh_live_blocks);
    vh_end();
    fclose(vh_out);
    return 0;
}
