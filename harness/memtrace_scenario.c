/* C17 scenario: aws_mem_tracer (levels none / bytes / stacks) under the controlled scheduler.
 * Scenario lines:
 *   TRACER <level 0|1|2> <frames_per_stack> [<flavour>]   flavour of the traced allocator: 0 = acquire/release/realloc/
 *                        calloc (default), 1 = acquire/release only, 2 = no calloc, 3 = no realloc (the library's
 *                        front-end then emulates the missing calls on top of the tracer)
 *   MAIN <op> ...        main thread, before the worker threads
 *   THREAD <k> <op> ...  k = 1..3 worker threads, each owns slots k*16 .. k*16+15
 *   POST <op> ...        main thread, after the workers were joined
 *   (then: everything still live is released, a final query, destroy)
 *  ops:  A<slot>:<n>      acquire n bytes          C<slot>:<k>x<n>  calloc(k, n)
 *        R<slot>:<n>      realloc to n bytes (n = 0 releases)       F<slot>   release
 *        Q                query tracer bytes / count                P         schedule point
 *        D                aws_mem_tracer_dump
 *        U<slot>:<n>      acquire n bytes from the wrapped allocator directly (a block the tracer has never seen)
 *        z<op>            the operation performed from 300 stack frames further down (stack traces of full depth)
 *   UNIT <bytes>         every size of the script is multiplied by <bytes> (e.g. 2^30) and every reported size / total
 *                        divided by it; the traced allocator then only reserves address space (nothing touches it; no
 *                        calloc, no content checks): blocks and totals beyond 4 GiB
 * Every block is filled with an id-derived pattern over its REQUESTED size; after every operation the calling
 * thread re-checks the patterns of all blocks that are not in the middle of another thread's operation. */
#include "vh_core.h"

#include "vsched/vsched_impl.h"

#include <aws/common/logging.h>
#include <aws/common/thread.h>

#define NSLOT 320
#define MAXOPS 900
struct blk {
    uint8_t *p;
    size_t n;
    int id;
    bool busy; /* inside a release / realloc call of its owner */
};
static struct blk slots[NSLOT];
static size_t unit = 1;
#include <sys/mman.h>
/* reserve-only allocator for UNIT scenarios: sizes are remembered in front of nothing - a small table instead */
static struct {
    void *p;
    size_t n;
} resv[64];
static void *resv_acquire(struct aws_allocator *a, size_t n) {
    (void)a;
    void *p = mmap(NULL, n, PROT_NONE, MAP_PRIVATE | MAP_ANONYMOUS | MAP_NORESERVE, -1, 0);
    if (p == MAP_FAILED) {
        abort();
    }
    for (int i = 0; i < 64; ++i) {
        if (!resv[i].p) {
            resv[i].p = p;
            resv[i].n = n;
            vh_live_blocks++;
            return p;
        }
    }
    abort();
}
static void resv_release(struct aws_allocator *a, void *p) {
    (void)a;
    for (int i = 0; i < 64; ++i) {
        if (resv[i].p == p) {
            munmap(p, resv[i].n);
            resv[i].p = NULL;
            vh_live_blocks--;
            return;
        }
    }
    abort(); /* a block this allocator never handed out */
}
static void *resv_realloc(struct aws_allocator *a, void *old, size_t oldsize, size_t newsize) {
    (void)oldsize;
    void *p = resv_acquire(a, newsize);
    if (old) {
        resv_release(a, old);
    }
    return p;
}
static struct aws_allocator *sba; /* the tracing allocator */
static int level;
static int flavour;
static struct aws_allocator traced; /* the allocator handed to aws_mem_tracer_new: vh_alloc() or a reduced copy of it */
static int next_id;
static bool concurrent_phase;
static uintptr_t pages[4096];
static int npages;

struct prog {
    int k, nops;
    char ops[MAXOPS][24];
    struct aws_thread thread;
};
static struct prog mainp, postp, thr[4];
static int nthr;

static uint8_t pat(int id, size_t i) {
    return (uint8_t)(id * 31 + i * 7 + 3);
}
static void fill(struct blk *b, size_t from) {
    if (unit > 1) {
        return;
    }
    for (size_t i = from; i < b->n; ++i) {
        b->p[i] = pat(b->id, i);
    }
}
static int count_bad(void) {
    int bad = 0;
    if (unit > 1) {
        return 0; /* reserved address space: nobody reads or writes it */
    }
    for (int s = 0; s < NSLOT; ++s) {
        struct blk *b = &slots[s];
        if (!b->p || b->busy) {
            continue;
        }
        for (size_t i = 0; i < b->n; ++i) {
            if (b->p[i] != pat(b->id, i)) {
                bad++;
                break;
            }
        }
    }
    return bad;
}
static int page_of(const void *p) {
    /* stored inverted: a table of plain page addresses would make every page look reachable to the leak checker */
    uintptr_t base = ~((uintptr_t)p & ~(uintptr_t)4095);
    for (int i = 0; i < npages; ++i) {
        if (pages[i] == base) {
            return i + 1;
        }
    }
    if (npages < 4096) {
        pages[npages++] = base;
    }
    return npages;
}
static void where(const void *p) {
    vh_int("page", page_of(p));
    vh_int("off", (long long)((uintptr_t)p & 4095));
    vh_int("al16", ((uintptr_t)p & 15) == 0);
}
static void tail(void) {
    vh_int("bad", count_bad());
    if (concurrent_phase) {
        vh_int("active", -1);
    } else {
        vh_int("active", (long long)(aws_mem_tracer_bytes(sba) / unit));
    }
}

/* a logger that takes every line (so that aws_mem_tracer_dump really formats its report) and lets other threads run between
 * two lines: what the dump reads while it prints must stay valid whatever they do */
static int dump_lines;
static int frames_per_stack;
static int null_log(struct aws_logger *l, enum aws_log_level lv, aws_log_subject_t subj, const char *fmt, ...) {
    (void)l;
    (void)lv;
    (void)subj;
    (void)fmt;
    dump_lines++;
    vs_point();
    return AWS_OP_SUCCESS;
}
static enum aws_log_level null_level(struct aws_logger *l, aws_log_subject_t subj) {
    (void)l;
    (void)subj;
    return AWS_LL_TRACE;
}
static void null_cleanup(struct aws_logger *l) {
    (void)l;
}
static struct aws_logger_vtable null_vt = {.log = null_log, .get_log_level = null_level, .clean_up = null_cleanup};
static struct aws_logger null_logger = {.vtable = &null_vt};

static void do_ops(struct prog *pg);
/* 300 frames further down: every frame keeps something on the stack and calls on (no tail call) */
static __attribute__((noinline)) int deep(int d, struct prog *one) {
    volatile char pad[48];
    pad[0] = (char)d;
    if (d == 0) {
        do_ops(one);
        return pad[0];
    }
    int r = deep(d - 1, one);
    return r + pad[0];
}

static void do_ops(struct prog *pg) {
    for (int i = 0; i < pg->nops; ++i) {
        const char *op = pg->ops[i];
        if (op[0] == 'z') {
            static __thread struct prog one; /* a program of its own with just this operation */
            memset(&one, 0, sizeof(one));
            one.k = pg->k;
            one.nops = 1;
            strncpy(one.ops[0], op + 1, sizeof(one.ops[0]) - 1);
            deep(300, &one);
            continue;
        }
        int slot = 0;
        unsigned long a = 0, b = 0;
        if (op[0] == 'P') {
            vs_point();
            continue;
        }
        if (op[0] == 'Q') {
            if (concurrent_phase) {
                continue;
            }
            int nsmall = 0;
            for (int s = 0; s < NSLOT; ++s) {
                nsmall += slots[s].p != NULL;
            }
            vh_begin("Query");
            vh_int("bytes", (long long)(aws_mem_tracer_bytes(sba) / unit));
            vh_int("count", (long long)aws_mem_tracer_count(sba));
            vh_int("nlive", nsmall);
            vh_end();
            continue;
        }
        if (op[0] == 'N') {
            /* a new generation: when nothing is live the tracer is destroyed and a new one of the same kind created (a
             * component restarted); whatever a thread remembers about the old tracer must not be taken for the new one,
             * even when the new one is given the old one's address */
            bool any = concurrent_phase;
            for (int s = 0; s < NSLOT; ++s) {
                any |= slots[s].p != NULL;
            }
            if (any) {
                continue;
            }
            struct aws_allocator *inner = aws_mem_tracer_destroy(sba);
            sba = aws_mem_tracer_new(&traced, NULL, (enum aws_mem_trace_level)level, (size_t)frames_per_stack);
            vh_begin("Renew");
            vh_int("same", inner == &traced);
            vh_int("bytes", (long long)aws_mem_tracer_bytes(sba));
            vh_int("count", (long long)aws_mem_tracer_count(sba));
            vh_end();
            continue;
        }
        if (op[0] == 'D') {
            if (concurrent_phase) {
                /* a dump while other threads allocate and release: nothing is claimed about the numbers (they are in motion),
                 * everything about memory safety */
                aws_mem_tracer_dump(sba);
                vh_begin("DumpConcurrent");
                vh_int("thr", pg->k);
                vh_end();
                continue;
            }
            aws_mem_tracer_dump(sba);
            vh_begin("Dump");
            vh_int("bytes", (long long)(aws_mem_tracer_bytes(sba) / unit));
            vh_int("count", (long long)aws_mem_tracer_count(sba));
            vh_int("bad", count_bad());
            vh_end();
            continue;
        }
        if (op[0] == 'C') {
            sscanf(op + 1, "%d:%lux%lu", &slot, &a, &b);
        } else {
            sscanf(op + 1, "%d:%lu", &slot, &a);
        }
        slot = pg->k == 0 ? slot % NSLOT : (slot % 16) + pg->k * 16; /* main may use every slot, workers own 16 each */
        struct blk *bl = &slots[slot];
        if (op[0] == 'U' && !bl->p && a && unit == 1) {
            /* a block from the wrapped allocator itself, as if it had been obtained before the tracer was installed
             * ("midstream", memtrace.c): from now on it is resized and released through the tracer like any other */
            uint8_t *p = aws_mem_acquire(&traced, a);
            bl->p = p;
            bl->n = a;
            bl->id = ++next_id;
            fill(bl, 0);
            vh_begin("AcqOutside");
            vh_int("id", bl->id);
            vh_int("n", (long long)a);
            tail();
            vh_end();
            continue;
        }
        if ((op[0] == 'A' || op[0] == 'C') && !bl->p) {
            size_t n = op[0] == 'A' ? a : a * b;
            if (n == 0 || (unit > 1 && op[0] == 'C')) {
                continue;
            }
            n *= unit;
            uint8_t *p = op[0] == 'A' ? aws_mem_acquire(sba, n) : aws_mem_calloc(sba, a, b);
            int zero = 1;
            if (op[0] == 'C' && unit == 1) {
                for (size_t j = 0; j < n; ++j) {
                    zero &= p[j] == 0;
                }
            }
            bl->p = p;
            bl->n = n;
            bl->id = ++next_id;
            fill(bl, 0); /* the whole requested size is writable (ASan watches the page end / parent block end) */
            vh_begin("Acq");
            vh_int("id", bl->id);
            vh_int("n", (long long)(n / unit));
            vh_int("calloc", op[0] == 'C');
            vh_int("zero", zero);
            where(p);
            tail();
            vh_end();
        } else if (op[0] == 'F' && bl->p) {
            bl->busy = true;
            vh_begin("RelBegin");
            vh_int("id", bl->id);
            vh_end();
            aws_mem_release(sba, bl->p);
            bl->p = NULL;
            bl->busy = false;
            vh_begin("RelEnd");
            vh_int("id", bl->id);
            tail();
            vh_end();
        } else if (op[0] == 'R' && bl->p) {
            size_t nn = a * unit;
            size_t old = bl->n;
            bl->busy = true;
            vh_begin("ReallocBegin");
            vh_int("id", bl->id);
            vh_int("nold", (long long)(old / unit));
            vh_int("nnew", (long long)(nn / unit));
            vh_end();
            void *p = bl->p;
            int rc = aws_mem_realloc(sba, &p, old, nn);
            int moved = p != (void *)bl->p;
            int prefix = 1;
            bl->p = p;
            if (p) {
                size_t keep = unit > 1 ? 0 : (old < nn ? old : nn);
                for (size_t j = 0; j < keep; ++j) {
                    prefix &= bl->p[j] == pat(bl->id, j);
                }
                bl->n = nn;
                fill(bl, 0);
            }
            bl->busy = false;
            vh_begin("ReallocEnd");
            vh_int("id", bl->id);
            vh_int("rc", rc);
            vh_int("null", p == NULL);
            vh_int("moved", moved);
            vh_int("prefix", prefix);
            if (p) {
                where(p);
            } else {
                vh_int("page", 0);
                vh_int("off", 0);
                vh_int("al16", 1);
            }
            tail();
            vh_end();
        }
    }
}
static void thread_fn(void *arg) {
    do_ops(arg);
}
static void parse_ops(struct prog *pg, char **save) {
    for (char *o = strtok_r(NULL, " ", save); o && pg->nops < MAXOPS; o = strtok_r(NULL, " ", save)) {
        strncpy(pg->ops[pg->nops++], o, 23);
    }
}
#if defined(VS_TSAN) || defined(VH_NO_ASAN)
static int __lsan_do_recoverable_leak_check(void) {
    return 0;
}
#else
int __lsan_do_recoverable_leak_check(void);
#endif

static void scenario(char **lines, int nlines) {
    memset(slots, 0, sizeof(slots));
    vh_recycle = 1;
    memset(&mainp, 0, sizeof(mainp));
    memset(&postp, 0, sizeof(postp));
    memset(thr, 0, sizeof(thr));
    nthr = 0;
    next_id = 0;
    npages = 0;
    int mt = 0;
    unit = 1;
    for (int i = 0; i < nlines; ++i) {
        char *dup = strdup(lines[i]);
        char *save = NULL;
        char *tok = strtok_r(dup, " ", &save);
        if (!tok) {
        } else if (strcmp(tok, "TRACER") == 0) {
            level = atoi(strtok_r(NULL, " ", &save));
            mt = atoi(strtok_r(NULL, " ", &save)); /* frames per stack */
            const char *fl = strtok_r(NULL, " ", &save);
            flavour = fl ? atoi(fl) : 0;
        } else if (strcmp(tok, "UNIT") == 0) {
            unit = (size_t)strtoull(strtok_r(NULL, " ", &save), NULL, 10);
        } else if (strcmp(tok, "MAIN") == 0) {
            parse_ops(&mainp, &save);
        } else if (strcmp(tok, "POST") == 0) {
            parse_ops(&postp, &save);
        } else if (strcmp(tok, "THREAD") == 0) {
            struct prog *p = &thr[nthr++];
            p->k = atoi(strtok_r(NULL, " ", &save));
            parse_ops(p, &save);
        }
        free(dup);
    }
    traced = *vh_alloc();
    if (unit > 1) {
        traced.mem_acquire = resv_acquire;
        traced.mem_release = resv_release;
        traced.mem_realloc = resv_realloc;
        traced.mem_calloc = NULL;
        flavour = 0;
    }
    if (flavour == 1 || flavour == 3) {
        traced.mem_realloc = NULL;
    }
    if (flavour == 1 || flavour == 2) {
        traced.mem_calloc = NULL;
    }
    frames_per_stack = mt;
    aws_logger_set(&null_logger);
    sba = aws_mem_tracer_new(&traced, NULL, (enum aws_mem_trace_level)level, (size_t)mt);
    vh_begin("Setup");
    vh_int("flavour", flavour);
    vh_int("level", level);
    vh_int("frames", mt);
    vh_end();
    concurrent_phase = false;
    do_ops(&mainp);
    if (nthr) {
        concurrent_phase = true;
        for (int i = 0; i < nthr; ++i) {
            aws_thread_init(&thr[i].thread, aws_default_allocator());
            aws_thread_launch(&thr[i].thread, thread_fn, &thr[i], NULL);
        }
        for (int i = 0; i < nthr; ++i) {
            aws_thread_join(&thr[i].thread);
            aws_thread_clean_up(&thr[i].thread);
        }
        concurrent_phase = false;
    }
    do_ops(&postp);
    /* release everything still live, then the quiescent observations */
    for (int s = 0; s < NSLOT; ++s) {
        if (slots[s].p) {
            vh_begin("RelBegin");
            vh_int("id", slots[s].id);
            vh_end();
            aws_mem_release(sba, slots[s].p);
            slots[s].p = NULL;
            vh_begin("RelEnd");
            vh_int("id", slots[s].id);
            tail();
            vh_end();
        }
    }
    vh_begin("Query");
    vh_int("bytes", (long long)(aws_mem_tracer_bytes(sba) / unit));
    vh_int("count", (long long)aws_mem_tracer_count(sba));
    vh_int("nlive", 0);
    vh_end();
    struct aws_allocator *inner = aws_mem_tracer_destroy(sba);
    vh_begin("Unwrapped");
    vh_int("same", inner == &traced);
    vh_end();
    sba = NULL;
    vh_begin("Destroyed");
    vh_int("parent_live", (long long)vh_live_blocks);
    vh_int("leaks", __lsan_do_recoverable_leak_check());
    vh_end();
}

int main(int argc, char **argv) {
    return vs_main(argc, argv, scenario);
}
