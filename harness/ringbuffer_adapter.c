/* C15 adapter: drives aws_ring_buffer from a script. The releaser "thread" is realised inside the
 * atomic schedule-point hook: the script says how many FIFO releases happen just before each of the
 * acquirer's atomic accesses, which realises every interleaving at atomic granularity in one thread. */
#include "vh_core.h"

#include <aws/common/atomics.h>
#include <aws/common/byte_buf.h>
#include <aws/common/ring_buffer.h>

#ifndef AWS_C_COMMON_VERIF
#    error "harness must be built with the hook guard on"
#endif

#define MAXOUT 4096
static struct aws_ring_buffer ring;
static bool ring_live;
static struct aws_byte_buf outq[MAXOUT];
static size_t out_head, out_tail; /* FIFO of outstanding buffers */
static int rel_plan[8];
static int point_idx;
static bool in_acquire, in_release;
static int released_in_call;
/* Scaled rings: every size of the script is multiplied by `unit` before it reaches the library and every offset / capacity
 * is divided by it on the way back (remainders are logged and must be zero), so that rings of gigabytes fit the model's
 * integers; such rings are reserved address space that is never touched.  Sizes >= BIGLOG units are logged as BIGLOG. */
static size_t unit = 1;
#define BIGLOG 1000000000ll
#include <sys/mman.h>
static void *res_acquire(struct aws_allocator *a, size_t n) {
    (void)a;
    void *p = mmap(NULL, n + 16, PROT_NONE, MAP_PRIVATE | MAP_ANONYMOUS | MAP_NORESERVE, -1, 0);
    if (p == MAP_FAILED) {
        abort();
    }
    vh_live_blocks++;
    return p;
}
static size_t res_size;
static void res_release(struct aws_allocator *a, void *p) {
    (void)a;
    munmap(p, res_size + 16);
    vh_live_blocks--;
}
static struct aws_allocator res_alloc = {.mem_acquire = res_acquire, .mem_release = res_release};
static long long scaled(size_t v) {
    return v / unit > (size_t)BIGLOG ? BIGLOG : (long long)(v / unit);
}
static size_t size_arg(int i) {
    const char *t = vh_args(i);
    if (!strcmp(t, "MAX")) {
        return SIZE_MAX;
    }
    if (!strcmp(t, "HALF")) {
        return (size_t)1 << 63;
    }
    if (!strcmp(t, "G4")) {
        return (size_t)1 << 32;
    }
    return (size_t)vh_argu(i) * unit;
}

static void do_release(bool log) {
    if (out_head == out_tail) {
        return;
    }
    struct aws_byte_buf b = outq[out_head % MAXOUT];
    out_head++;
    long long off = scaled((size_t)(b.buffer - ring.allocation)), cap = scaled(b.capacity);
    in_release = true;
    aws_ring_buffer_release(&ring, &b);
    in_release = false;
    if (log) {
        vh_begin("Release");
        vh_int("off", off);
        vh_int("cap", cap);
        vh_int("valid", aws_ring_buffer_is_valid(&ring));
        vh_end();
    }
}

static void atomic_hook(int kind, const volatile void *var) {
    (void)kind;
    if (!in_acquire || in_release) {
        return;
    }
    if (var != (const volatile void *)&ring.head && var != (const volatile void *)&ring.tail) {
        return;
    }
    int n = point_idx < 8 ? rel_plan[point_idx] : 0;
    point_idx++;
    for (int i = 0; i < n; ++i) {
        if (out_head != out_tail) {
            do_release(false);
            released_in_call++;
        }
    }
}

int main(int argc, char **argv) {
    if (argc < 3) {
        fprintf(stderr, "usage: %s script out.ndjson\n", argv[0]);
        return 3;
    }
    FILE *in = fopen(argv[1], "r");
    if (!in) {
        perror(argv[1]);
        return 3;
    }
    vh_open(argv[2]);
    vh_install_handlers(120);
    aws_verif_atomic_hook = atomic_hook;
    while (vh_next(in)) {
        if (vh_is("RESET")) {
            if (ring_live) {
                aws_ring_buffer_clean_up(&ring);
            }
            unit = vh_ntok > 2 ? (size_t)vh_argu(2) : 1;
            size_t n = (size_t)vh_argi(1) * unit;
            res_size = n;
            aws_ring_buffer_init(&ring, unit > 1 ? &res_alloc : vh_alloc(), n);
            ring_live = true;
            out_head = out_tail = 0;
            vh_begin("Reset");
            vh_int("n", scaled(n));
            vh_int("unit", (long long)unit);
            vh_end();
        } else if (vh_is("ACQ")) {
            bool upto = strcmp(vh_args(1), "upto") == 0;
            size_t mn = size_arg(2), n = size_arg(3);
            for (int i = 0; i < 8; ++i) {
                rel_plan[i] = (4 + i < vh_ntok) ? (int)vh_argi(4 + i) : 0;
            }
            point_idx = 0;
            released_in_call = 0;
            struct aws_byte_buf dest;
            AWS_ZERO_STRUCT(dest);
            in_acquire = true;
            int rc = upto ? aws_ring_buffer_acquire_up_to(&ring, mn, n, &dest) : aws_ring_buffer_acquire(&ring, n, &dest);
            in_acquire = false;
            vh_begin("Acquire");
            vh_str("form", upto ? "upto" : "exact");
            vh_int("min", scaled(mn));
            vh_int("n", scaled(n));
            vh_int("k", released_in_call);
            vh_int("busy", 0); /* single thread: no release call is ever in progress when an acquire call begins */
            vh_rc(rc);
            if (rc == 0) {
                vh_int("off", scaled((size_t)(dest.buffer - ring.allocation)));
                vh_int("cap", scaled(dest.capacity));
                vh_int("len", (long long)dest.len);
                vh_int("rem", (long long)((size_t)(dest.buffer - ring.allocation) % unit + dest.capacity % unit));
                if (unit == 1 && dest.capacity <= res_size) {
                    memset(dest.buffer, 0x5a, dest.capacity); /* the caller may write the whole buffer (ASan sees overruns) */
                }
                outq[out_tail % MAXOUT] = dest;
                out_tail++;
            } else {
                vh_int("off", 0);
                vh_int("cap", 0);
                vh_int("len", 0);
                vh_int("rem", 0);
            }
            vh_int("valid", aws_ring_buffer_is_valid(&ring)); /* the library's own invariant predicate */
            vh_end();
        } else if (vh_is("REL")) {
            do_release(true);
        }
    }
    if (ring_live) {
        aws_ring_buffer_clean_up(&ring);
    }
    vh_begin("End");
    vh_int("live", (long long)vh_live_blocks);
    vh_end();
    fclose(vh_out);
    return 0;
}
