/* C12 adapter: aws_xml_parse driven by a scripted callback. No expected values here.
 *
 * script:  RESET
 *          XML <doc hex | -> <program | -> <max_depth> <cut> <tree json> <preamble json>
 *          END
 * The document is copied into an exact-size heap block (one byte over is an ASan report). The program is one
 * letter per callback invocation, in invocation order: D = aws_xml_node_traverse with the same callback (user data =
 * depth + 1; d = the same but the callback returns success whatever the traversal returned), B = aws_xml_node_as_body, S = return success without touching the node, A = raise an error and return
 * AWS_OP_ERR; invocations beyond the end of the program skip. The tree / preamble json and `cut` are only echoed: they
 * tell the specification which element tree the document was rendered from (XmlTrace.tla re-renders and compares).
 *
 * events:  Doc  {tree, pre, prog, md, cut, doc}                       before aws_xml_parse is called
 *          Node {d, n, at:[{n,v}], act, rc, err, body, bad}           one per callback invocation (for D before descending)
 *          Ret  {d, rc, err}                                          aws_xml_node_traverse of the node at depth d returned
 *          Done {rc, err}                                             aws_xml_parse returned
 * Every cursor handed out by the library is first compared with the bounds of the document block; bad = number of
 * cursors of that invocation that do not lie inside it (their bytes are then not read). */
#include "vh_core.h"

#include <aws/common/byte_buf.h>
#include <aws/common/xml_parser.h>

static uint8_t *doc;
static size_t doc_len;
static const char *prog;
static size_t nprog, ninv;

static int hexval(int c) {
    return c <= '9' ? c - '0' : (c | 0x20) - 'a' + 10;
}

static bool inside(struct aws_byte_cursor c) {
    if (c.len == 0) {
        return true; /* an empty view has no bytes to misplace (the library uses NULL/0 for absent values) */
    }
    return c.ptr >= doc && c.len <= doc_len && (size_t)(c.ptr - doc) <= doc_len - c.len;
}
static int put_cursor(const char *k, struct aws_byte_cursor c) {
    if (inside(c)) {
        vh_bytes(k, c.ptr, c.len);
        return 0;
    }
    vh_bytes(k, NULL, 0);
    return 1;
}

static int on_node(struct aws_xml_node *node, void *ud) {
    long depth = (long)(intptr_t)ud;
    char act = ninv < nprog ? prog[ninv] : 'S';
    ninv++;
    int bad = 0;
    int rc = AWS_OP_SUCCESS;
    struct aws_byte_cursor body;
    AWS_ZERO_STRUCT(body);
    if (act == 'B') {
        rc = aws_xml_node_as_body(node, &body);
    } else if (act == 'A') {
        aws_raise_error(AWS_ERROR_INVALID_STATE);
        rc = AWS_OP_ERR;
    }
    vh_begin("Node");
    vh_int("d", depth);
    bad += put_cursor("n", aws_xml_node_get_name(node));
    size_t na = aws_xml_node_get_num_attributes(node);
    vh_arr_begin("at");
    for (size_t i = 0; i < na; ++i) {
        struct aws_xml_attribute a = aws_xml_node_get_attribute(node, i);
        vh_obj_begin(NULL);
        bad += put_cursor("n", a.name);
        bad += put_cursor("v", a.value);
        vh_obj_end();
    }
    vh_arr_end();
    vh_int("act", act);
    vh_rc(rc);
    if (act == 'B' && rc == AWS_OP_SUCCESS) {
        bad += put_cursor("body", body);
    } else {
        vh_bytes("body", NULL, 0);
    }
    vh_int("bad", bad);
    vh_end();
    if (act == 'D' || act == 'd') {
        rc = aws_xml_node_traverse(node, on_node, (void *)(intptr_t)(depth + 1));
        vh_begin("Ret");
        vh_int("d", depth);
        vh_rc(rc);
        vh_end();
        if (act == 'd') {
            return AWS_OP_SUCCESS; /* a callback that does not hand the nested result back: the parser remembers failures itself */
        }
    }
    return rc;
}

int main(int argc, char **argv) {
    if (argc < 3) {
        return 3;
    }
    FILE *in = fopen(argv[1], "r");
    vh_open(argv[2]);
    vh_install_handlers(120);
    while (vh_next(in)) {
        if (vh_is("RESET")) {
            vh_begin("Reset");
            vh_end();
        } else if (vh_is("XML")) {
            const char *hex = vh_args(1);
            doc_len = strcmp(hex, "-") == 0 ? 0 : strlen(hex) / 2;
            doc = malloc(doc_len);
            for (size_t i = 0; i < doc_len; ++i) {
                doc[i] = (uint8_t)(hexval(hex[2 * i]) * 16 + hexval(hex[2 * i + 1]));
            }
            prog = strcmp(vh_args(2), "-") == 0 ? "" : vh_args(2);
            nprog = strlen(prog);
            ninv = 0;
            size_t md = (size_t)vh_argu(3);
            vh_begin("Doc");
            vh_sep();
            fprintf(vh_out, "\"tree\":%s,\"pre\":%s", vh_args(5), vh_args(6));
            vh_bytes("prog", (const uint8_t *)prog, nprog);
            vh_int("md", (long long)md);
            vh_int("cut", vh_argi(4));
            vh_bytes("doc", doc, doc_len);
            vh_end();
            struct aws_xml_parser_options opt = {
                .doc = aws_byte_cursor_from_array(doc, doc_len),
                .max_depth = md,
                .on_root_encountered = on_node,
                .user_data = (void *)(intptr_t)1,
            };
            int rc = aws_xml_parse(vh_alloc(), &opt);
            vh_begin("Done");
            vh_rc(rc);
            vh_end();
            free(doc);
            doc = NULL;
        } else if (vh_is("END")) {
            vh_begin("End");
            vh_int("live", (long long)vh_live_blocks);
            vh_end();
        }
    }
    fclose(vh_out);
    return 0;
}
