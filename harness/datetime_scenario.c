/* C19 scenario with real threads under the controlled scheduler: every thread works on date-time objects of its own
 * (the API is stateless, so nothing is shared as far as a caller can tell): initialise from an instant, format, parse
 * the text back, read the instant. One self-contained event per round trip.
 * Scenario lines:
 *   THREAD <k> <day>:<sec>:<fmt>:<short>:<parsefmt> ...     fmt / parsefmt: r = RFC 822, i = ISO 8601, b = ISO 8601 basic,
 *                                                            a = auto-detect (parsefmt only) */
#include "vh_core.h"

#include "vsched/vsched_impl.h"

#include <aws/common/byte_buf.h>
#include <aws/common/date_time.h>
#include <aws/common/thread.h>

#define MAXT 4
#define MAXOPS 24
struct prog {
    int k, nops;
    char ops[MAXOPS][40];
    struct aws_thread thread;
};
static struct prog thr[MAXT];
static int nthr;

static enum aws_date_format fmt_of(char c) {
    return c == 'r' ? AWS_DATE_FORMAT_RFC822 : c == 'i' ? AWS_DATE_FORMAT_ISO_8601
           : c == 'b' ? AWS_DATE_FORMAT_ISO_8601_BASIC : AWS_DATE_FORMAT_AUTO_DETECT;
}
static const char *fmt_name(char c) {
    return c == 'r' ? "rfc822" : c == 'i' ? "iso" : c == 'b' ? "isobasic" : "auto";
}

static void thread_fn(void *arg) {
    struct prog *p = arg;
    for (int i = 0; i < p->nops; ++i) {
        long long day = 0, sec = 0;
        char f = 'i', pf = 'a';
        int sh = 0;
        if (sscanf(p->ops[i], "%lld:%lld:%c:%d:%c", &day, &sec, &f, &sh, &pf) != 5) {
            continue;
        }
        struct aws_date_time dt, back;
        aws_date_time_init_epoch_secs(&dt, (double)(day * 86400 + sec));
        uint8_t text[AWS_DATE_TIME_STR_MAX_LEN + 8];
        struct aws_byte_buf out = aws_byte_buf_from_empty_array(text, AWS_DATE_TIME_STR_MAX_LEN);
        int rcf = sh ? aws_date_time_to_utc_time_short_str(&dt, fmt_of(f), &out) : aws_date_time_to_utc_time_str(&dt, fmt_of(f), &out);
        vs_point(); /* other threads may run between formatting and parsing */
        int rcp = -1;
        long long pv = -1;
        if (rcf == 0) {
            rcp = aws_date_time_init_from_str(&back, &out, fmt_of(pf));
            if (rcp == 0) {
                pv = (long long)aws_date_time_as_epoch_secs(&back);
            }
        }
        vh_begin("RT");
        vh_int("k", p->k);
        vh_int("d", day);
        vh_int("s", sec);
        vh_str("fmt", fmt_name(f));
        vh_int("short", sh);
        vh_str("pfmt", fmt_name(pf));
        vh_int("rcf", rcf);
        vh_bytes("text", text, rcf == 0 && out.len <= sizeof(text) ? out.len : 0);
        vh_int("rcp", rcp);
        vh_int("pd", pv < 0 ? -1 : pv / 86400);
        vh_int("ps", pv < 0 ? -1 : pv % 86400);
        vh_int("on", vs_self());
        vh_end();
    }
}

static void scenario(char **lines, int nlines) {
    nthr = 0;
    memset(thr, 0, sizeof(thr));
    for (int i = 0; i < nlines && nthr < MAXT; ++i) {
        char *dup = strdup(lines[i]);
        char *save = NULL;
        char *tok = strtok_r(dup, " ", &save);
        if (tok && strcmp(tok, "THREAD") == 0) {
            struct prog *p = &thr[nthr++];
            p->k = atoi(strtok_r(NULL, " ", &save));
            for (char *o = strtok_r(NULL, " ", &save); o && p->nops < MAXOPS; o = strtok_r(NULL, " ", &save)) {
                strncpy(p->ops[p->nops++], o, 39);
            }
        }
        free(dup);
    }
    for (int i = 0; i < nthr; ++i) {
        aws_thread_init(&thr[i].thread, vh_alloc());
        aws_thread_launch(&thr[i].thread, thread_fn, &thr[i], NULL);
    }
    for (int i = 0; i < nthr; ++i) {
        aws_thread_join(&thr[i].thread);
        aws_thread_clean_up(&thr[i].thread);
    }
}

int main(int argc, char **argv) {
    return vs_main(argc, argv, scenario);
}
