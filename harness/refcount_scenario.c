/* X05 scenario: aws_atomic_var and aws_ref_count on 1-6 real threads under the controlled scheduler.
 * Scenario lines (ops are blank-separated tokens, fields of a token are ':'-separated, values are hexadecimal):
 *   PRE <op> ...          run by the main thread (thread 0) before any other thread exists
 *   THREAD <k> <op> ...   program of thread k (1..5); all threads are launched after PRE
 *   MAIN <op> ...         run by the main thread while the other threads run
 *   POST <op> ...         run by the main thread after it joined every thread
 * Atomic ops (cell c: 1, 2 = initialised by the script; 3, 4 = statically initialised with AWS_ATOMIC_INIT_INT / _PTR):
 *   ii:c:V  ip:c:V        aws_atomic_init_int / _ptr            si:c   adopt the static initialiser of cell 3 / 4
 *   ld:c:m  lp:c:m        load int / ptr                        st:c:V:m  sp:c:V:m   store
 *   xi:c:V:m  xp:c:V:m    exchange                              ci:c:E:D:m:f  cp:c:E:D:m:f   compare-exchange
 *   fa fs fo fn fx :c:N:m fetch add / sub / or / and / xor      fe:m   thread fence
 *   cl:c:N:m:f            the lock-free add idiom: compare-exchange (last seen -> last seen + N) until it succeeds
 *   E may be L = the value this thread last observed in that cell.
 *   m, f = memory order: d (the variant without _explicit) r relaxed a acquire l release q acq_rel s seq_cst
 * Ref-count ops (object o: 1, 2):  ri:o init   ra:o acquire   rr:o release;   P = explicit schedule point
 * One event per call, written right after it returned (no schedule point in between); RcRelBegin before a release,
 * RcZero from inside the on-zero callback (which then destroys the object, the usual arrangement). */
#include "vh_core.h"

#include "vsched/vsched_impl.h"

#include <aws/common/atomics.h>
#include <aws/common/ref_count.h>
#include <aws/common/thread.h>

#define MAXTH 6
#define MAXOPS 96
#define NCELL 4
#define NOBJ 2

struct op {
    char k[3];
    int c;
    uint64_t a, b;
    bool a_last;
    char m, f;
};
struct prog {
    struct op ops[MAXOPS];
    int n;
};
struct tctx {
    int idx;
    struct prog *p;
    uint64_t last[NCELL + 1];
    bool has_last[NCELL + 1];
    struct aws_thread thread;
    bool defined;
};

#define STATIC_INT_VALUE 0x8000400020001003ull
#define STATIC_PTR_VALUE 0x00007ffe12345678ull
static struct aws_atomic_var static_int = AWS_ATOMIC_INIT_INT(STATIC_INT_VALUE);
static struct aws_atomic_var static_ptr = AWS_ATOMIC_INIT_PTR(STATIC_PTR_VALUE);
static struct aws_atomic_var dyn_cell[2];

static struct prog pre, mainp, post, thp[MAXTH];
static struct tctx T[MAXTH];
static __thread struct tctx *me;

struct obj {
    uint64_t pad; /* the counter is not the first member */
    struct aws_ref_count rc;
    int id;
};
static struct obj *objs[NOBJ + 1];
static bool obj_destroyed[NOBJ + 1];

static volatile struct aws_atomic_var *cell_of(int c) {
    switch (c) {
        case 1:
            return &dyn_cell[0];
        case 2:
            return &dyn_cell[1];
        case 3:
            return &static_int;
        default:
            return &static_ptr;
    }
}
static enum aws_memory_order mo_of(char m) {
    switch (m) {
        case 'r':
            return aws_memory_order_relaxed;
        case 'a':
            return aws_memory_order_acquire;
        case 'l':
            return aws_memory_order_release;
        case 'q':
            return aws_memory_order_acq_rel;
        default:
            return aws_memory_order_seq_cst;
    }
}
static const char *mo_name(char m) {
    switch (m) {
        case 'd':
            return "default";
        case 'r':
            return "relaxed";
        case 'a':
            return "acquire";
        case 'l':
            return "release";
        case 'q':
            return "acq_rel";
        case 's':
            return "seq_cst";
        default:
            return "?";
    }
}
#define P(x) ((void *)(uintptr_t)(x))
#define U(p) ((uint64_t)(uintptr_t)(p))

static void saw(int c, uint64_t v) {
    me->last[c] = v;
    me->has_last[c] = true;
}

static void ev_head(const char *name, const struct op *o, bool ptr) {
    vh_begin(name);
    vh_int("t", me->idx);
    vh_int("c", o->c);
    vh_str("fl", ptr ? "ptr" : "int");
}

static void on_zero(void *p) {
    int id = 0;
    for (int i = 1; i <= NOBJ; ++i) {
        if (objs[i] != NULL && p == (void *)objs[i]) {
            id = i;
        }
    }
    vh_begin("RcZero");
    vh_int("t", me ? me->idx : -1);
    vh_int("o", id);
    vh_int("objok", id != 0);
    vh_end();
    if (id && !obj_destroyed[id]) {
        obj_destroyed[id] = true; /* the pointer stays in objs[] only to be compared with */
        aws_mem_release(vh_alloc(), p);
    }
}

static bool do_cas(const struct op *o, bool ptr, uint64_t expected, uint64_t desired, uint64_t *out) {
    volatile struct aws_atomic_var *v = cell_of(o->c);
    bool ok;
    if (ptr) {
        void *e = P(expected);
        ok = o->m == 'd' ? aws_atomic_compare_exchange_ptr(v, &e, P(desired))
                         : aws_atomic_compare_exchange_ptr_explicit(v, &e, P(desired), mo_of(o->m), mo_of(o->f));
        *out = U(e);
    } else {
        size_t e = (size_t)expected;
        ok = o->m == 'd' ? aws_atomic_compare_exchange_int(v, &e, (size_t)desired)
                         : aws_atomic_compare_exchange_int_explicit(v, &e, (size_t)desired, mo_of(o->m), mo_of(o->f));
        *out = e;
    }
    ev_head("Cas", o, ptr);
    vh_str("mo", mo_name(o->m));
    vh_str("mf", mo_name(o->m == 'd' ? 'd' : o->f));
    vh_wide("x", expected);
    vh_wide("d", desired);
    vh_int("ok", ok ? 1 : 0);
    vh_wide("xo", *out);
    vh_end();
    saw(o->c, ok ? desired : *out);
    return ok;
}

static uint64_t do_load(const struct op *o, bool ptr) {
    volatile struct aws_atomic_var *v = cell_of(o->c);
    uint64_t r;
    if (ptr) {
        r = U(o->m == 'd' ? aws_atomic_load_ptr(v) : aws_atomic_load_ptr_explicit(v, mo_of(o->m)));
    } else {
        r = o->m == 'd' ? aws_atomic_load_int(v) : aws_atomic_load_int_explicit(v, mo_of(o->m));
    }
    ev_head("Load", o, ptr);
    vh_str("mo", mo_name(o->m));
    vh_wide("r", r);
    vh_end();
    saw(o->c, r);
    return r;
}

static void run_op(const struct op *o) {
    const char *k = o->k;
    volatile struct aws_atomic_var *v = cell_of(o->c);
    bool ptr = k[1] == 'p';
    if (strcmp(k, "P") == 0) {
        vs_point();
    } else if (strcmp(k, "ii") == 0 || strcmp(k, "ip") == 0) {
        if (ptr) {
            aws_atomic_init_ptr(v, P(o->a));
        } else {
            aws_atomic_init_int(v, (size_t)o->a);
        }
        ev_head("AInit", o, ptr);
        vh_wide("v", o->a);
        vh_end();
    } else if (strcmp(k, "si") == 0) {
        ptr = o->c == 4;
        ev_head("AStatic", o, ptr);
        vh_wide("v", ptr ? STATIC_PTR_VALUE : STATIC_INT_VALUE);
        vh_end();
    } else if (strcmp(k, "ld") == 0 || strcmp(k, "lp") == 0) {
        do_load(o, ptr);
    } else if (strcmp(k, "st") == 0 || strcmp(k, "sp") == 0) {
        if (ptr) {
            if (o->m == 'd') {
                aws_atomic_store_ptr(v, P(o->a));
            } else {
                aws_atomic_store_ptr_explicit(v, P(o->a), mo_of(o->m));
            }
        } else {
            if (o->m == 'd') {
                aws_atomic_store_int(v, (size_t)o->a);
            } else {
                aws_atomic_store_int_explicit(v, (size_t)o->a, mo_of(o->m));
            }
        }
        ev_head("Store", o, ptr);
        vh_str("mo", mo_name(o->m));
        vh_wide("v", o->a);
        vh_end();
        saw(o->c, o->a);
    } else if (strcmp(k, "xi") == 0 || strcmp(k, "xp") == 0) {
        uint64_t r;
        if (ptr) {
            r = U(o->m == 'd' ? aws_atomic_exchange_ptr(v, P(o->a)) : aws_atomic_exchange_ptr_explicit(v, P(o->a), mo_of(o->m)));
        } else {
            r = o->m == 'd' ? aws_atomic_exchange_int(v, (size_t)o->a) : aws_atomic_exchange_int_explicit(v, (size_t)o->a, mo_of(o->m));
        }
        ev_head("Xchg", o, ptr);
        vh_str("mo", mo_name(o->m));
        vh_wide("v", o->a);
        vh_wide("r", r);
        vh_end();
        saw(o->c, o->a);
    } else if (strcmp(k, "ci") == 0 || strcmp(k, "cp") == 0) {
        uint64_t out;
        uint64_t expected = o->a_last ? (me->has_last[o->c] ? me->last[o->c] : 0) : o->a;
        do_cas(o, ptr, expected, o->b, &out);
    } else if (strcmp(k, "cl") == 0) {
        struct op rd = *o;
        rd.m = 'd'; /* the read in front of the loop is a plain sequentially consistent load */
        uint64_t e = me->has_last[o->c] ? me->last[o->c] : do_load(&rd, false);
        for (int tries = 0; tries < 200; ++tries) {
            uint64_t out;
            if (do_cas(o, false, e, e + o->a, &out)) {
                break;
            }
            e = out;
        }
    } else if (k[0] == 'f' && k[1] != 'e') {
        size_t r;
        const char *name;
        size_t n = (size_t)o->a;
        switch (k[1]) {
            case 'a':
                r = o->m == 'd' ? aws_atomic_fetch_add(v, n) : aws_atomic_fetch_add_explicit(v, n, mo_of(o->m));
                name = "add";
                break;
            case 's':
                r = o->m == 'd' ? aws_atomic_fetch_sub(v, n) : aws_atomic_fetch_sub_explicit(v, n, mo_of(o->m));
                name = "sub";
                break;
            case 'o':
                r = o->m == 'd' ? aws_atomic_fetch_or(v, n) : aws_atomic_fetch_or_explicit(v, n, mo_of(o->m));
                name = "or";
                break;
            case 'n':
                r = o->m == 'd' ? aws_atomic_fetch_and(v, n) : aws_atomic_fetch_and_explicit(v, n, mo_of(o->m));
                name = "and";
                break;
            default:
                r = o->m == 'd' ? aws_atomic_fetch_xor(v, n) : aws_atomic_fetch_xor_explicit(v, n, mo_of(o->m));
                name = "xor";
                break;
        }
        vh_begin("Fetch");
        vh_int("t", me->idx);
        vh_int("c", o->c);
        vh_str("op", name);
        vh_str("mo", mo_name(o->m));
        vh_wide("n", o->a);
        vh_wide("r", r);
        vh_end();
        me->has_last[o->c] = false; /* the thread knows the previous value, not necessarily the new one: re-read */
    } else if (strcmp(k, "fe") == 0) {
        aws_atomic_thread_fence(mo_of(o->m));
        vh_begin("Fence");
        vh_int("t", me->idx);
        vh_str("mo", mo_name(o->m));
        vh_end();
    } else if (strcmp(k, "ri") == 0) {
        int id = o->c;
        struct obj *ob = aws_mem_acquire(vh_alloc(), sizeof(struct obj));
        ob->id = id;
        objs[id] = ob;
        obj_destroyed[id] = false;
        aws_ref_count_init(&ob->rc, ob, on_zero);
        size_t seen = aws_atomic_load_int(&ob->rc.ref_count); /* public member of the public struct */
        vh_begin("RcInit");
        vh_int("t", me->idx);
        vh_int("o", id);
        vh_wide("cnt", seen);
        vh_end();
    } else if (strcmp(k, "ra") == 0) {
        int id = o->c;
        void *got = aws_ref_count_acquire(&objs[id]->rc);
        vh_begin("RcAcq");
        vh_int("t", me->idx);
        vh_int("o", id);
        vh_int("objok", got == (void *)objs[id]);
        vh_end();
    } else if (strcmp(k, "rr") == 0) {
        int id = o->c;
        vh_begin("RcRelBegin");
        vh_int("t", me->idx);
        vh_int("o", id);
        vh_end();
        size_t left = aws_ref_count_release(&objs[id]->rc);
        vh_begin("RcRel");
        vh_int("t", me->idx);
        vh_int("o", id);
        vh_wide("ret", left);
        vh_end();
    }
}

static void run_prog(const struct prog *p) {
    for (int i = 0; i < p->n; ++i) {
        run_op(&p->ops[i]);
    }
}

static void thread_fn(void *arg) {
    me = arg;
    run_prog(me->p);
}

static void parse_op(struct prog *p, char *tok) {
    if (p->n >= MAXOPS) {
        return;
    }
    struct op *o = &p->ops[p->n];
    memset(o, 0, sizeof(*o));
    o->m = 'd';
    o->f = 'd';
    char *f[8];
    int nf = 0;
    char *save = NULL;
    for (char *q = strtok_r(tok, ":", &save); q && nf < 8; q = strtok_r(NULL, ":", &save)) {
        f[nf++] = q;
    }
    if (nf == 0) {
        return;
    }
    strncpy(o->k, f[0], 2);
    const char *k = o->k;
    if (strcmp(k, "P") == 0) {
        /* nothing */
    } else if (strcmp(k, "fe") == 0) {
        o->m = nf > 1 ? f[1][0] : 's';
    } else {
        o->c = nf > 1 ? atoi(f[1]) : 1;
        bool two = strcmp(k, "ci") == 0 || strcmp(k, "cp") == 0;
        bool none = strcmp(k, "ld") == 0 || strcmp(k, "lp") == 0 || strcmp(k, "si") == 0 || k[0] == 'r';
        int i = 2;
        if (!none) {
            if (nf > i && strcmp(f[i], "L") == 0) {
                o->a_last = true;
            } else if (nf > i) {
                o->a = strtoull(f[i], NULL, 16);
            }
            i++;
            if (two) {
                o->b = nf > i ? strtoull(f[i], NULL, 16) : 0;
                i++;
            }
        }
        if (nf > i) {
            o->m = f[i][0];
            i++;
        }
        if (nf > i) {
            o->f = f[i][0];
        }
    }
    if (o->c < 1 || o->c > NCELL || (k[0] == 'r' && o->c > NOBJ)) {
        o->c = 1;
    }
    p->n++;
}

static void scenario(char **lines, int nlines) {
    memset(&pre, 0, sizeof(pre));
    memset(&mainp, 0, sizeof(mainp));
    memset(&post, 0, sizeof(post));
    memset(thp, 0, sizeof(thp));
    memset(T, 0, sizeof(T));
    for (int i = 0; i < nlines; ++i) {
        char *dup = strdup(lines[i]);
        char *save = NULL;
        char *tok = strtok_r(dup, " ", &save);
        struct prog *p = NULL;
        if (tok && strcmp(tok, "PRE") == 0) {
            p = &pre;
        } else if (tok && strcmp(tok, "MAIN") == 0) {
            p = &mainp;
        } else if (tok && strcmp(tok, "POST") == 0) {
            p = &post;
        } else if (tok && strcmp(tok, "THREAD") == 0) {
            int k = atoi(strtok_r(NULL, " ", &save));
            if (k >= 1 && k < MAXTH) {
                p = &thp[k];
                T[k].defined = true;
            }
        }
        if (p) {
            for (char *o = strtok_r(NULL, " ", &save); o; o = strtok_r(NULL, " ", &save)) {
                parse_op(p, o);
            }
        }
        free(dup);
    }
    T[0].idx = 0;
    me = &T[0];
    T[0].p = &pre;
    run_prog(&pre);
    for (int k = 1; k < MAXTH; ++k) {
        if (T[k].defined) {
            T[k].idx = k;
            T[k].p = &thp[k];
            aws_thread_init(&T[k].thread, vh_alloc());
            aws_thread_launch(&T[k].thread, thread_fn, &T[k], NULL);
        }
    }
    run_prog(&mainp);
    for (int k = 1; k < MAXTH; ++k) {
        if (T[k].defined) {
            aws_thread_join(&T[k].thread);
            aws_thread_clean_up(&T[k].thread);
        }
    }
    run_prog(&post);
}

int main(int argc, char **argv) {
    return vs_main(argc, argv, scenario);
}
