/* vsched: controlled, serialised execution of real library threads (DESIGN 4.4).
 * pthread_* / clock_gettime / nanosleep references of libaws-c-common.a and of the harness are redirected
 * at link time (-Wl,--wrap=...) to the functions in vsched.c; aws_atomic_* reach it through the guarded
 * source hook. Exactly one thread runs at any time (the baton holder); every synchronisation operation is
 * a schedule point at which the schedule source decides who runs next. Time is virtual. */
#ifndef VSCHED_H
#define VSCHED_H

#include <stdbool.h>
#include <stdint.h>
#include <stdio.h>

#define VS_MAX_THREADS 32
#define VS_TIMER_ID 62 /* pseudo thread: "advance the virtual clock to the earliest deadline" */

/* One forked child per execution. The scenario callback runs on virtual thread 0 with the controller
 * active; it reads its script from `lines`. It must join/release everything it started. */
typedef void (*vs_scenario_fn)(char **lines, int nlines);

/* Runner: reads the batch script (argv[1]), writes the ndjson trace (argv[2]).
 * Batch format:   EXEC <policy...> / scenario lines / ... / END
 *   policies:  rand <seed>            uniform random choice at every schedule point
 *              pct <seed> <d>         random priorities with d priority-change points
 *              fixed <id,id,...>      follow the given choices, then non-preemptive default
 *              dfs <budget> <bound>   systematic: all schedules with <= bound preemptions (budget executions)
 */
int vs_main(int argc, char **argv, vs_scenario_fn scenario);

int vs_self(void);               /* id of the calling virtual thread (0 = scenario main) */
uint64_t vs_now_ns(void);        /* virtual clock */
void vs_advance_ns(uint64_t d);  /* scenario-driven clock advance (rarely needed) */
long vs_steps(void);
bool vs_active(void);
/* explicit schedule point from harness code (e.g. between two API calls) */
void vs_point(void);

#endif
