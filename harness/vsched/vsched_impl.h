/* vsched implementation. Included ONCE by a scenario harness after vh_core.h (single translation unit,
 * because the event writer in vh_core.h is file-static). See vsched.h / DESIGN 4.4. */
#ifndef VSCHED_IMPL_H
#define VSCHED_IMPL_H

#include "vsched.h"

#include <aws/common/atomics.h>

#include <errno.h>
#include <pthread.h>
#include <semaphore.h>
#include <sys/wait.h>
#include <time.h>

#ifndef AWS_C_COMMON_VERIF
#    error "vsched needs the hook guard"
#endif

/* real symbols */
int __real_pthread_create(pthread_t *, const pthread_attr_t *, void *(*)(void *), void *);
int __real_pthread_join(pthread_t, void **);
int __real_pthread_once(pthread_once_t *, void (*)(void));
int __real_pthread_detach(pthread_t);
int __real_pthread_mutex_init(pthread_mutex_t *, const pthread_mutexattr_t *);
int __real_pthread_mutex_destroy(pthread_mutex_t *);
int __real_pthread_mutex_lock(pthread_mutex_t *);
int __real_pthread_mutex_trylock(pthread_mutex_t *);
int __real_pthread_mutex_unlock(pthread_mutex_t *);
int __real_pthread_cond_init(pthread_cond_t *, const pthread_condattr_t *);
int __real_pthread_rwlock_init(pthread_rwlock_t *, const pthread_rwlockattr_t *);
int __real_pthread_rwlock_destroy(pthread_rwlock_t *);
int __real_pthread_rwlock_rdlock(pthread_rwlock_t *);
int __real_pthread_rwlock_wrlock(pthread_rwlock_t *);
int __real_pthread_rwlock_tryrdlock(pthread_rwlock_t *);
int __real_pthread_rwlock_trywrlock(pthread_rwlock_t *);
int __real_pthread_rwlock_unlock(pthread_rwlock_t *);
int __real_pthread_cond_destroy(pthread_cond_t *);
int __real_pthread_cond_wait(pthread_cond_t *, pthread_mutex_t *);
int __real_pthread_cond_timedwait(pthread_cond_t *, pthread_mutex_t *, const struct timespec *);
int __real_pthread_cond_signal(pthread_cond_t *);
int __real_pthread_cond_broadcast(pthread_cond_t *);
int __real_clock_gettime(clockid_t, struct timespec *);
int __real_nanosleep(const struct timespec *, struct timespec *);
pthread_t __real_pthread_self(void);
int __real_pthread_equal(pthread_t, pthread_t);

/* ---- the baton. Under ThreadSanitizer it must be invisible to the race detector: a semaphore hand-over at every
 * switch would order every pair of accesses and hide all races. A raw futex on a word touched only by
 * uninstrumented code carries no happens-before edge; the edges TSan sees are the modelled mutexes (annotated
 * below), thread create/join and the library's own atomics. */
#ifdef VS_TSAN
#    include <linux/futex.h>
#    include <sys/syscall.h>
void __tsan_acquire(void *addr);
void __tsan_release(void *addr);
typedef struct {
    int v;
} vs_baton_t;
static void vs_baton_init(vs_baton_t *b) {
    b->v = 0;
}
static void vs_baton_post(vs_baton_t *b) {
    __atomic_store_n(&b->v, 1, __ATOMIC_SEQ_CST);
    syscall(SYS_futex, &b->v, FUTEX_WAKE_PRIVATE, 1, NULL, NULL, 0);
}
static void vs_baton_wait(vs_baton_t *b) {
    while (__atomic_exchange_n(&b->v, 0, __ATOMIC_SEQ_CST) == 0) {
        syscall(SYS_futex, &b->v, FUTEX_WAIT_PRIVATE, 0, NULL, NULL, 0);
    }
}
#    define VS_TSAN_ACQUIRE(a) __tsan_acquire((void *)(a))
#    define VS_TSAN_RELEASE(a) __tsan_release((void *)(a))
#else
typedef sem_t vs_baton_t;
static void vs_baton_init(vs_baton_t *b) {
    sem_init(b, 0, 0);
}
static void vs_baton_post(vs_baton_t *b) {
    sem_post(b);
}
static void vs_baton_wait(vs_baton_t *b) {
    while (sem_wait(b) != 0) {
    }
}
#    define VS_TSAN_ACQUIRE(a)
#    define VS_TSAN_RELEASE(a)
#endif

enum { VOP_NONE, VOP_START, VOP_LOCK, VOP_TRYLOCK, VOP_UNLOCK, VOP_CWAIT, VOP_REACQ, VOP_SIGNAL, VOP_BROADCAST,
       VOP_CREATE, VOP_JOIN, VOP_ATOMIC, VOP_POINT, VOP_WOKEN, VOP_FINISH,
       VOP_RDLOCK, VOP_WRLOCK, VOP_TRYRD, VOP_TRYWR, VOP_RWUNLOCK };
static const char *vs_opname[] = {"none", "start", "lock", "trylock", "unlock", "cwait", "reacq", "signal", "broadcast",
                                  "create", "join", "atomic", "point", "woken", "finish",
                                  "rdlock", "wrlock", "tryrd", "trywr", "rwunlock"};
enum { VST_UNUSED, VST_READY, VST_BLOCKED, VST_EXITED };

#define VS_MAX_OBJ 512
struct vs_mutex {
    pthread_mutex_t *addr;
    int owner; /* -1 free */
};
/* readers-writer lock: one writer or any number of readers (a thread may hold several read locks) */
struct vs_rw {
    pthread_rwlock_t *addr;
    int writer; /* -1 none */
    int nread[VS_MAX_THREADS];
    int readers;
};
struct vs_cond {
    pthread_cond_t *addr;
    int waiters[VS_MAX_THREADS];
    int nw;
};
struct vs_thread {
    int id, state, op, target, result;
    struct vs_mutex *m;
    struct vs_cond *c;
    struct vs_rw *rw;
    bool timed;
    uint64_t deadline;
    vs_baton_t sem;
    pthread_t real;
    void *(*fn)(void *);
    void *arg;
    bool joined, detached;
};

static struct vs_thread vs_T[VS_MAX_THREADS];
static int vs_nthreads;
static struct vs_mutex vs_M[VS_MAX_OBJ];
static int vs_nm;
static struct vs_cond vs_C[VS_MAX_OBJ];
static int vs_nc;
#define VS_MAX_RW 32
static struct vs_rw vs_RW[VS_MAX_RW];
static int vs_nrw;
static __thread struct vs_thread *vs_me;
static volatile bool vs_is_active;
static uint64_t vs_clock = 1000000000000ull; /* virtual ns; starts at 1000 s */
static const uint64_t vs_clock_start = 1000000000000ull;
static uint64_t vs_time_cap_ns = 3600ull * 1000000000ull;
static uint64_t vs_forced_wait_ns;
static long vs_nsteps;
static long vs_step_cap = 20000;
static int vs_debug;
static int vs_anomalies; /* unlock of a mutex not owned etc. */
/* scenario hook, called whenever all threads are blocked and the virtual clock is about to jump to the next deadline;
 * the argument says how often the clock has jumped so far while some thread was runnable */
static void (*vs_idle_hook)(long unforced_fires);
static long vs_unforced_fires;

/* ---- schedule source */
enum { VSRC_DEFAULT, VSRC_RAND, VSRC_PCT, VSRC_FIXED };
static struct {
    int kind;
    uint64_t rng;
    int prio[64];
    long change[16];
    int nchange;
    int low;
    int *fixed;
    int nfixed, pos;
    int drift;
} vs_src;
#define VS_MAXCHOICE 40000
static struct {
    int chosen;
    int cur;
    uint64_t mask;
} vs_choice[VS_MAXCHOICE];
static int vs_nchoice;
static const char *vs_choice_path;

static uint64_t vs_rand64(void) {
    uint64_t z = (vs_src.rng += 0x9E3779B97F4A7C15ull);
    z = (z ^ (z >> 30)) * 0xBF58476D1CE4E5B9ull;
    z = (z ^ (z >> 27)) * 0x94D049BB133111EBull;
    return z ^ (z >> 31);
}

static void vs_flush_choices(void) {
    if (!vs_choice_path) {
        return;
    }
    FILE *f = fopen(vs_choice_path, "w");
    if (!f) {
        return;
    }
    fprintf(f, "%d %d\n", vs_nchoice, vs_src.drift);
    for (int i = 0; i < vs_nchoice; ++i) {
        fprintf(f, "%d %d %llu\n", vs_choice[i].chosen, vs_choice[i].cur, (unsigned long long)vs_choice[i].mask);
    }
    fclose(f);
}

static void vs_child_exit(void) {
    fflush(vh_out);
    vs_flush_choices();
    VH_COV_FLUSH();
    _exit(0);
}

/* Default continuation: keep running the current thread (non-preemptive), but fairly: after VS_QUANTUM
 * consecutive steps of one thread while another thread is runnable, switch round-robin. Library code may
 * legitimately poll (aws_thread_join_all_managed re-checks under the lock while one thread is still running);
 * a schedule that never lets the other thread run is an artefact, not a behaviour of a real scheduler. */
#define VS_QUANTUM 24
static int vs_run_len, vs_run_thread = -1;
static int vs_default_pick(uint64_t mask, int cur) {
    uint64_t threads = mask & ~(1ull << VS_TIMER_ID);
    if (cur >= 0 && (mask >> cur) & 1) {
        if (vs_run_thread == cur && vs_run_len >= VS_QUANTUM && (threads & ~(1ull << cur))) {
            for (int k = 1; k < 62; ++k) {
                int i = (cur + k) % 62;
                if ((threads >> i) & 1) {
                    return i;
                }
            }
        }
        return cur;
    }
    for (int i = 0; i < 62; ++i) {
        if ((mask >> i) & 1) {
            return i;
        }
    }
    return VS_TIMER_ID;
}

/* mask: bit i = alternative i enabled (thread ids; bit 62 = timer). cur = the alternative that costs nothing */
static int vs_pick(uint64_t mask, int cur) {
    int c = -1;
    int n = __builtin_popcountll(mask);
    if (n == 1) {
        c = __builtin_ctzll(mask);
    } else if (vs_src.kind == VSRC_FIXED && vs_src.pos < vs_src.nfixed) {
        int want = vs_src.fixed[vs_src.pos];
        if (want >= 0 && want < 63 && ((mask >> want) & 1)) {
            c = want;
        } else {
            vs_src.drift = 1;
            c = vs_default_pick(mask, cur);
        }
    } else if (vs_src.kind == VSRC_RAND) {
        uint64_t m = mask;
        if (((m >> VS_TIMER_ID) & 1) && (m & ~(1ull << VS_TIMER_ID)) && (vs_rand64() & 7)) {
            m &= ~(1ull << VS_TIMER_ID); /* the timer fires early only one time in eight */
        }
        if (cur >= 0 && ((m >> cur) & 1) && (vs_rand64() % 3) == 0) {
            c = cur;
        } else {
            int k = (int)(vs_rand64() % (uint64_t)__builtin_popcountll(m));
            for (int i = 0; i < 63; ++i) {
                if ((m >> i) & 1) {
                    if (k-- == 0) {
                        c = i;
                        break;
                    }
                }
            }
        }
    } else if (vs_src.kind == VSRC_PCT) {
        for (int k = 0; k < vs_src.nchange; ++k) {
            if (vs_src.change[k] == vs_nchoice && cur >= 0) {
                vs_src.prio[cur] = --vs_src.low;
            }
        }
        int best = -1;
        for (int i = 0; i < 63; ++i) {
            if ((mask >> i) & 1) {
                if (best < 0 || vs_src.prio[i] > vs_src.prio[best]) {
                    best = i;
                }
            }
        }
        c = best;
        if (c == VS_TIMER_ID && (mask & ~(1ull << VS_TIMER_ID))) {
            /* an early timer firing is a preemption like any other: it does not keep its priority, otherwise
             * time would run away while runnable threads starve (an unfair schedule, not a library behaviour) */
            vs_src.prio[VS_TIMER_ID] = --vs_src.low;
        }
    } else {
        c = vs_default_pick(mask, cur);
    }
    if (n > 1) {
        if (vs_src.kind == VSRC_FIXED) {
            vs_src.pos++;
        }
        if (vs_nchoice < VS_MAXCHOICE) {
            vs_choice[vs_nchoice].chosen = c;
            vs_choice[vs_nchoice].cur = vs_default_pick(mask, cur); /* the choice that costs no preemption */
            vs_choice[vs_nchoice].mask = mask;
            vs_nchoice++;
        }
    }
    return c;
}

/* ---- model objects */
static struct vs_mutex *vs_mutex_of(pthread_mutex_t *a) {
    for (int i = 0; i < vs_nm; ++i) {
        if (vs_M[i].addr == a) {
            return &vs_M[i];
        }
    }
    for (int i = 0; i < vs_nm; ++i) {
        if (vs_M[i].addr == NULL) { /* slot of a destroyed mutex */
            vs_M[i].addr = a;
            vs_M[i].owner = -1;
            return &vs_M[i];
        }
    }
    if (vs_nm >= VS_MAX_OBJ) {
        fprintf(stderr, "vsched: too many mutexes\n");
        abort();
    }
    vs_M[vs_nm].addr = a;
    vs_M[vs_nm].owner = -1;
    return &vs_M[vs_nm++];
}
static struct vs_cond *vs_cond_of(pthread_cond_t *a) {
    for (int i = 0; i < vs_nc; ++i) {
        if (vs_C[i].addr == a) {
            return &vs_C[i];
        }
    }
    for (int i = 0; i < vs_nc; ++i) {
        if (vs_C[i].addr == NULL) {
            vs_C[i].addr = a;
            vs_C[i].nw = 0;
            return &vs_C[i];
        }
    }
    if (vs_nc >= VS_MAX_OBJ) {
        fprintf(stderr, "vsched: too many condition variables\n");
        abort();
    }
    vs_C[vs_nc].addr = a;
    vs_C[vs_nc].nw = 0;
    return &vs_C[vs_nc++];
}
static void vs_cond_remove(struct vs_cond *c, int tid) {
    for (int i = 0; i < c->nw; ++i) {
        if (c->waiters[i] == tid) {
            /* no libc mem* calls on scheduler state: the sanitizers intercept them and would see the harness's
             * own (baton-protected) bookkeeping as racing */
            for (int k = i; k + 1 < c->nw; ++k) {
                ((volatile int *)c->waiters)[k] = c->waiters[k + 1];
            }
            c->nw--;
            return;
        }
    }
}
static void vs_wake(struct vs_thread *t, int result) {
    if (t->c) {
        vs_cond_remove(t->c, t->id);
    }
    t->state = VST_READY;
    t->result = result;
    t->timed = false;
    t->op = t->c ? VOP_REACQ : VOP_WOKEN;
    t->c = NULL;
}

static bool vs_enabled(struct vs_thread *t) {
    if (t->state != VST_READY) {
        return false;
    }
    switch (t->op) {
        case VOP_LOCK:
        case VOP_REACQ:
            return t->m->owner < 0;
        case VOP_RDLOCK:
            return t->rw->writer < 0;
        case VOP_WRLOCK:
            return t->rw->writer < 0 && t->rw->readers == 0;
        case VOP_JOIN:
            return vs_T[t->target].state == VST_EXITED;
        case VOP_FINISH:
            for (int i = 0; i < vs_nthreads; ++i) {
                if (i != t->id && vs_T[i].state != VST_EXITED && vs_T[i].state != VST_UNUSED) {
                    return false;
                }
            }
            return true;
        default:
            return true;
    }
}
static bool vs_timer_deadline(uint64_t *out) {
    bool any = false;
    uint64_t best = 0;
    for (int i = 0; i < vs_nthreads; ++i) {
        if (vs_T[i].state == VST_BLOCKED && vs_T[i].timed) {
            if (!any || vs_T[i].deadline < best) {
                best = vs_T[i].deadline;
            }
            any = true;
        }
    }
    *out = best;
    return any;
}
static void vs_expire(void) {
    for (int i = 0; i < vs_nthreads; ++i) {
        if (vs_T[i].state == VST_BLOCKED && vs_T[i].timed && vs_T[i].deadline <= vs_clock) {
            vs_wake(&vs_T[i], ETIMEDOUT);
        }
    }
}

static void vs_fatal_event(const char *name) {
    vh_begin(name);
    vh_int("steps", vs_nsteps);
    vh_arr_begin("threads");
    for (int i = 0; i < vs_nthreads; ++i) {
        vh_obj_begin(NULL);
        vh_int("id", i);
        vh_int("state", vs_T[i].state);
        vh_str("op", vs_opname[vs_T[i].op]);
        vh_obj_end();
    }
    vh_arr_end();
    vh_end();
    vs_child_exit();
}

static void vs_apply(struct vs_thread *t) {
    switch (t->op) {
        case VOP_LOCK:
        case VOP_REACQ:
            t->m->owner = t->id;
            break;
        case VOP_TRYLOCK:
            if (t->m->owner < 0) {
                t->m->owner = t->id;
                t->result = 0;
            } else {
                t->result = EBUSY;
            }
            break;
        case VOP_UNLOCK:
            if (t->m->owner != t->id) {
                vs_anomalies++;
            }
            t->m->owner = -1;
            break;
        case VOP_RDLOCK:
            t->rw->nread[t->id]++;
            t->rw->readers++;
            t->result = 0;
            break;
        case VOP_WRLOCK:
            t->rw->writer = t->id;
            t->result = 0;
            break;
        case VOP_TRYRD:
            if (t->rw->writer < 0) {
                t->rw->nread[t->id]++;
                t->rw->readers++;
                t->result = 0;
            } else {
                t->result = EBUSY;
            }
            break;
        case VOP_TRYWR:
            if (t->rw->writer < 0 && t->rw->readers == 0) {
                t->rw->writer = t->id;
                t->result = 0;
            } else {
                t->result = EBUSY;
            }
            break;
        case VOP_RWUNLOCK:
            if (t->rw->writer == t->id) {
                t->rw->writer = -1;
            } else if (t->rw->nread[t->id] > 0) {
                t->rw->nread[t->id]--;
                t->rw->readers--;
            } else {
                vs_anomalies++; /* unlock by a thread that holds nothing */
            }
            t->result = 0;
            break;
        case VOP_SIGNAL:
            if (t->c->nw > 0) {
                uint64_t mask = 0;
                for (int i = 0; i < t->c->nw; ++i) {
                    mask |= 1ull << t->c->waiters[i];
                }
                int w = vs_pick(mask, t->c->waiters[0]);
                vs_wake(&vs_T[w], 0);
            }
            break;
        case VOP_BROADCAST:
            while (t->c->nw > 0) {
                vs_wake(&vs_T[t->c->waiters[0]], 0);
            }
            break;
        default:
            break;
    }
    if (vs_debug) {
        fprintf(stderr, "[vs] step %ld t%d %s\n", vs_nsteps, t->id, vs_opname[t->op]);
    }
    t->op = VOP_NONE;
}

/* The calling thread has published its pending op (or is blocked / exited); decide who runs next. */
static void vs_schedule(void) {
    struct vs_thread *me = vs_me;
    struct vs_thread *next = NULL;
    for (;;) {
        uint64_t mask = 0;
        for (int i = 0; i < vs_nthreads; ++i) {
            if (vs_enabled(&vs_T[i])) {
                mask |= 1ull << i;
            }
        }
        uint64_t dl;
        bool timer = vs_timer_deadline(&dl);
        if (!mask && !timer) {
            vs_fatal_event("Deadlock");
        }
        if (timer) {
            mask |= 1ull << VS_TIMER_ID;
        }
        int cur = (me->state == VST_READY && ((mask >> me->id) & 1)) ? me->id : -1;
        int c = vs_pick(mask, cur);
        if (c == VS_TIMER_ID) {
            uint64_t before = vs_clock;
            if (!(mask & ~(1ull << VS_TIMER_ID))) {
                /* quiescent: every thread is blocked, time has to pass before anything can happen */
                if (vs_idle_hook) {
                    vs_idle_hook(vs_unforced_fires);
                }
            } else {
                vs_unforced_fires++; /* the clock jumps although a thread could run: an unfair (but possible) schedule */
            }
            if (dl > vs_clock) {
                vs_clock = dl;
            }
            if (!(mask & ~(1ull << VS_TIMER_ID))) {
                vs_forced_wait_ns += (dl > before) ? dl - before : 0;
            }
            if (vs_forced_wait_ns > vs_time_cap_ns) {
                /* more than one virtual hour of waiting during which NO thread could run (only those timer firings
                 * count; a schedule that fires the timer while threads are runnable is merely unfair): every wait
                 * in the scenarios is bounded by seconds, so this is a hang (e.g. a join that can never return) */
                vs_fatal_event("Deadlock");
            }
            vs_expire();
            continue;
        }
        next = &vs_T[c];
        if (vs_run_thread == c) {
            vs_run_len++;
        } else {
            vs_run_thread = c;
            vs_run_len = 1;
        }
        vs_apply(next);
        if (++vs_nsteps > vs_step_cap) {
            /* If no other thread can ever run again (all others exited or blocked without a deadline), a thread that
             * has made 20000 synchronisation steps is spinning on a condition nobody can change: a livelock, i.e. a
             * hang of the real program as well. Otherwise the cap only bounds the exploration (inconclusive). */
            bool others = false;
            for (int i = 0; i < vs_nthreads; ++i) {
                if (i != c && (vs_enabled(&vs_T[i]) || (vs_T[i].state == VST_BLOCKED && vs_T[i].timed))) {
                    others = true;
                }
                /* a thread waiting for a mutex that the spinning thread happens to hold at this very step is not
                 * stuck: it was merely never chosen (unfair schedule), the spinner releases the mutex in every round */
                if (i != c && vs_T[i].state == VST_READY && (vs_T[i].op == VOP_LOCK || vs_T[i].op == VOP_REACQ) && vs_T[i].m &&
                    vs_T[i].m->owner == c) {
                    others = true;
                }
            }
            vs_fatal_event(others ? "StepCap" : "Deadlock");
        }
        break;
    }
    if (next != me) {
        vs_baton_post(&next->sem);
        if (me->state != VST_EXITED) {
            vs_baton_wait(&me->sem);
        }
    }
}

static void vs_yield(int op, struct vs_mutex *m, struct vs_cond *c, int target) {
    struct vs_thread *me = vs_me;
    me->state = VST_READY;
    me->op = op;
    me->m = m;
    me->c = c;
    me->target = target;
    vs_schedule();
}

/* ---- public helpers */
int vs_self(void) {
    return vs_me ? vs_me->id : -1;
}
uint64_t vs_now_ns(void) {
    return vs_clock;
}
void vs_advance_ns(uint64_t d) {
    vs_clock += d;
    vs_expire();
}
long vs_steps(void) {
    return vs_nsteps;
}
bool vs_active(void) {
    return vs_is_active && vs_me != NULL;
}
void vs_point(void) {
    if (vs_active()) {
        vs_yield(VOP_POINT, NULL, NULL, 0);
    }
}

/* ---- wrapped functions */
int __wrap_pthread_mutex_init(pthread_mutex_t *m, const pthread_mutexattr_t *a) {
    int rc = __real_pthread_mutex_init(m, a);
    if (vs_active()) {
        vs_mutex_of(m)->owner = -1;
    }
    return rc;
}
int __wrap_pthread_mutex_destroy(pthread_mutex_t *m) {
    if (vs_active()) {
        struct vs_mutex *vm = vs_mutex_of(m);
        if (vm->owner >= 0) {
            vs_anomalies++;
        }
        vm->owner = -1;
        vm->addr = NULL; /* the address may be reused by a new object */
    }
    return __real_pthread_mutex_destroy(m);
}
int __wrap_pthread_mutex_lock(pthread_mutex_t *m) {
    if (!vs_active()) {
        return __real_pthread_mutex_lock(m);
    }
    vs_yield(VOP_LOCK, vs_mutex_of(m), NULL, 0);
    VS_TSAN_ACQUIRE(m);
    return 0;
}
int __wrap_pthread_mutex_trylock(pthread_mutex_t *m) {
    if (!vs_active()) {
        return __real_pthread_mutex_trylock(m);
    }
    vs_yield(VOP_TRYLOCK, vs_mutex_of(m), NULL, 0);
    if (vs_me->result == 0) {
        VS_TSAN_ACQUIRE(m);
    }
    return vs_me->result;
}
int __wrap_pthread_mutex_unlock(pthread_mutex_t *m) {
    if (!vs_active()) {
        return __real_pthread_mutex_unlock(m);
    }
    VS_TSAN_RELEASE(m);
    vs_yield(VOP_UNLOCK, vs_mutex_of(m), NULL, 0);
    return 0;
}
/* ---- readers-writer locks (aws_rw_lock) */
static struct vs_rw *vs_rw_of(pthread_rwlock_t *a) {
    int freeslot = -1;
    for (int i = 0; i < vs_nrw; ++i) {
        if (vs_RW[i].addr == a) {
            return &vs_RW[i];
        }
        if (vs_RW[i].addr == NULL && freeslot < 0) {
            freeslot = i;
        }
    }
    if (freeslot < 0) {
        if (vs_nrw >= VS_MAX_RW) {
            fprintf(stderr, "vsched: too many rw locks\n");
            abort();
        }
        freeslot = vs_nrw++;
    }
    memset(&vs_RW[freeslot], 0, sizeof(vs_RW[freeslot]));
    vs_RW[freeslot].addr = a;
    vs_RW[freeslot].writer = -1;
    return &vs_RW[freeslot];
}
static int vs_rw_op(int op, pthread_rwlock_t *l) {
    vs_me->rw = vs_rw_of(l);
    vs_yield(op, NULL, NULL, 0);
    return vs_me->result;
}
int __wrap_pthread_rwlock_init(pthread_rwlock_t *l, const pthread_rwlockattr_t *a) {
    int rc = __real_pthread_rwlock_init(l, a);
    if (vs_active()) {
        struct vs_rw *rw = vs_rw_of(l);
        memset(rw->nread, 0, sizeof(rw->nread));
        rw->readers = 0;
        rw->writer = -1;
    }
    return rc;
}
int __wrap_pthread_rwlock_destroy(pthread_rwlock_t *l) {
    if (vs_active()) {
        struct vs_rw *rw = vs_rw_of(l);
        if (rw->writer >= 0 || rw->readers > 0) {
            vs_anomalies++;
        }
        rw->addr = NULL;
    }
    return __real_pthread_rwlock_destroy(l);
}
int __wrap_pthread_rwlock_rdlock(pthread_rwlock_t *l) {
    if (!vs_active()) {
        return __real_pthread_rwlock_rdlock(l);
    }
    int rc = vs_rw_op(VOP_RDLOCK, l);
    VS_TSAN_ACQUIRE(l);
    return rc;
}
int __wrap_pthread_rwlock_wrlock(pthread_rwlock_t *l) {
    if (!vs_active()) {
        return __real_pthread_rwlock_wrlock(l);
    }
    int rc = vs_rw_op(VOP_WRLOCK, l);
    VS_TSAN_ACQUIRE(l);
    return rc;
}
int __wrap_pthread_rwlock_tryrdlock(pthread_rwlock_t *l) {
    if (!vs_active()) {
        return __real_pthread_rwlock_tryrdlock(l);
    }
    int rc = vs_rw_op(VOP_TRYRD, l);
    if (rc == 0) {
        VS_TSAN_ACQUIRE(l);
    }
    return rc;
}
int __wrap_pthread_rwlock_trywrlock(pthread_rwlock_t *l) {
    if (!vs_active()) {
        return __real_pthread_rwlock_trywrlock(l);
    }
    int rc = vs_rw_op(VOP_TRYWR, l);
    if (rc == 0) {
        VS_TSAN_ACQUIRE(l);
    }
    return rc;
}
int __wrap_pthread_rwlock_unlock(pthread_rwlock_t *l) {
    if (!vs_active()) {
        return __real_pthread_rwlock_unlock(l);
    }
    VS_TSAN_RELEASE(l);
    return vs_rw_op(VOP_RWUNLOCK, l);
}
int __wrap_pthread_cond_init(pthread_cond_t *c, const pthread_condattr_t *a) {
    int rc = __real_pthread_cond_init(c, a);
    if (vs_active()) {
        vs_cond_of(c)->nw = 0;
    }
    return rc;
}
int __wrap_pthread_cond_destroy(pthread_cond_t *c) {
    if (vs_active()) {
        struct vs_cond *vc = vs_cond_of(c);
        if (vc->nw) {
            vs_anomalies++;
        }
        vc->addr = NULL;
    }
    return __real_pthread_cond_destroy(c);
}
static int vs_cond_block(pthread_cond_t *c, pthread_mutex_t *m, bool timed, uint64_t deadline) {
    struct vs_thread *me = vs_me;
    struct vs_mutex *vm = vs_mutex_of(m);
    struct vs_cond *vc = vs_cond_of(c);
    vs_yield(VOP_CWAIT, vm, vc, 0); /* schedule point before the atomic release-and-block */
    VS_TSAN_RELEASE(m);
    if (vm->owner != me->id) {
        vs_anomalies++;
    }
    vm->owner = -1;
    me->m = vm;
    if (timed && deadline <= vs_clock) {
        me->state = VST_READY;
        me->op = VOP_REACQ;
        me->result = ETIMEDOUT;
        me->c = NULL;
    } else {
        me->state = VST_BLOCKED;
        me->c = vc;
        me->timed = timed;
        me->deadline = deadline;
        vc->waiters[vc->nw++] = me->id;
    }
    vs_schedule();
    VS_TSAN_ACQUIRE(m);
    return me->result;
}
int __wrap_pthread_cond_wait(pthread_cond_t *c, pthread_mutex_t *m) {
    if (!vs_active()) {
        return __real_pthread_cond_wait(c, m);
    }
    return vs_cond_block(c, m, false, 0);
}
int __wrap_pthread_cond_timedwait(pthread_cond_t *c, pthread_mutex_t *m, const struct timespec *ts) {
    if (!vs_active()) {
        return __real_pthread_cond_timedwait(c, m, ts);
    }
    uint64_t dl = (uint64_t)ts->tv_sec * 1000000000ull + (uint64_t)ts->tv_nsec;
    return vs_cond_block(c, m, true, dl);
}
int __wrap_pthread_cond_signal(pthread_cond_t *c) {
    if (!vs_active()) {
        return __real_pthread_cond_signal(c);
    }
    vs_yield(VOP_SIGNAL, NULL, vs_cond_of(c), 0);
    return 0;
}
int __wrap_pthread_cond_broadcast(pthread_cond_t *c) {
    if (!vs_active()) {
        return __real_pthread_cond_broadcast(c);
    }
    vs_yield(VOP_BROADCAST, NULL, vs_cond_of(c), 0);
    return 0;
}
/* pthread_once: modelled with a (wrapped) mutex and condition variable per once-object, so that a thread that meets a
 * once-function still running on another thread blocks in the controlled scheduler, not in the kernel. An object the
 * real pthread_once already completed before the scheduler was active (glibc: value 2) stays completed. */
#define VS_MAX_ONCE 32
static struct vs_once {
    pthread_once_t *addr;
    int state; /* 0 not run, 1 running, 2 done */
    pthread_mutex_t m;
    pthread_cond_t c;
} vs_O[VS_MAX_ONCE];
static int vs_no;
int __wrap_pthread_once(pthread_once_t *o, void (*fn)(void)) {
    if (!vs_active()) {
        return __real_pthread_once(o, fn);
    }
    if (*(volatile int *)o == 2) {
        return 0;
    }
    struct vs_once *s = NULL;
    for (int i = 0; i < vs_no; ++i) {
        if (vs_O[i].addr == o) {
            s = &vs_O[i];
        }
    }
    if (!s) {
        if (vs_no == VS_MAX_ONCE) {
            vs_fatal_event("OnceTableFull");
        }
        s = &vs_O[vs_no++];
        s->addr = o;
        s->state = 0;
        __wrap_pthread_mutex_init(&s->m, NULL);
        __wrap_pthread_cond_init(&s->c, NULL);
    }
    __wrap_pthread_mutex_lock(&s->m);
    while (s->state == 1) {
        __wrap_pthread_cond_wait(&s->c, &s->m);
    }
    if (s->state == 0) {
        s->state = 1;
        __wrap_pthread_mutex_unlock(&s->m);
        fn();
        __wrap_pthread_mutex_lock(&s->m);
        s->state = 2;
        __wrap_pthread_cond_broadcast(&s->c);
    }
    __wrap_pthread_mutex_unlock(&s->m);
    return 0;
}
int __wrap_clock_gettime(clockid_t id, struct timespec *ts) {
    if (!vs_active()) {
        return __real_clock_gettime(id, ts);
    }
    ts->tv_sec = (time_t)(vs_clock / 1000000000ull);
    ts->tv_nsec = (long)(vs_clock % 1000000000ull);
    return 0;
}
int __wrap_nanosleep(const struct timespec *req, struct timespec *rem) {
    if (!vs_active()) {
        return __real_nanosleep(req, rem);
    }
    struct vs_thread *me = vs_me;
    uint64_t d = (uint64_t)req->tv_sec * 1000000000ull + (uint64_t)req->tv_nsec;
    me->state = VST_BLOCKED;
    me->c = NULL;
    me->timed = true;
    me->deadline = vs_clock + d;
    vs_schedule();
    return 0;
}
/* Page recycling (only when a scenario sets vs_page_recycle): 4096-byte aligned pages that the library gives back to
 * the system are retired instead of freed, and the harness allocator later serves large blocks from INSIDE a retired
 * page - exactly what a real malloc does with freed memalign memory. Whatever the library left in such a page (e.g. a
 * page header it meant to erase) is then in front of a block owned by somebody else. */
static int vs_page_recycle;
#define VS_MAXPAGES 512
static void *vs_pages[VS_MAXPAGES];   /* live pages handed out by posix_memalign(4096, 4096) */
static void *vs_retired[VS_MAXPAGES]; /* given back by the library, available for large blocks */
static int vs_npages, vs_nretired;
int __real_posix_memalign(void **, size_t, size_t);
void __real_free(void *);
int __wrap_posix_memalign(void **out, size_t align, size_t size) {
    vs_point(); /* obtaining a page from the system: a natural preemption point inside library critical sections */
    int rc = __real_posix_memalign(out, align, size);
    if (rc == 0 && vs_page_recycle && align == 4096 && size == 4096 && vs_npages < VS_MAXPAGES) {
        vs_pages[vs_npages++] = *out;
    }
    return rc;
}
static void vs_fatal_event(const char *name);
static void *vs_lent[VS_MAXPAGES]; /* retired pages currently lent to the harness allocator for a large block */
static int vs_nlent;
void __wrap_free(void *p) {
    if (p && vs_page_recycle) {
        for (int i = 0; i < vs_npages; ++i) {
            if (vs_pages[i] == p) {
                vs_pages[i] = vs_pages[--vs_npages];
                if (vs_nretired < VS_MAXPAGES) {
                    vs_retired[vs_nretired++] = p;
                    /* retired, not freed: poisoned like freed memory, so that a later access by the library is still
                     * a sanitizer report (the un-instrumented tag probe of s_sba_free may look at it, as with malloc) */
                    __asan_poison_memory_region(p, 4096);
                    return;
                }
                break;
            }
        }
        /* a page that was already given back is given back again (what malloc calls a double free) */
        for (int i = 0; i < vs_nretired; ++i) {
            if (vs_retired[i] == p) {
                vs_fatal_event("PageFreedTwice");
            }
        }
        for (int i = 0; i < vs_nlent; ++i) {
            if (vs_lent[i] == p) {
                vs_fatal_event("PageFreedTwice");
            }
        }
    }
    __real_free(p);
}
/* called by the harness allocator: a block of n bytes carved from the inside of a retired page, or NULL */
static void *vs_take_from_retired_page(size_t n) {
    if (!vs_page_recycle || vs_nretired == 0 || n + 32 > 4096 || vs_nlent >= VS_MAXPAGES) {
        return NULL;
    }
    uint8_t *page = vs_retired[--vs_nretired];
    vs_lent[vs_nlent++] = page;
    __asan_unpoison_memory_region(page + 32, n);
    return page + 32;
}
static bool vs_give_back_to_retired(void *p) {
    if (!vs_page_recycle || ((uintptr_t)p & 4095) != 32) {
        return false;
    }
    void *page = (uint8_t *)p - 32;
    bool lent = false;
    for (int i = 0; i < vs_nlent; ++i) {
        if (vs_lent[i] == page) {
            vs_lent[i] = vs_lent[--vs_nlent];
            lent = true;
            break;
        }
    }
    if (!lent) {
        return false; /* not one of ours: an ordinary block that happens to sit 32 bytes into a page */
    }
    __asan_poison_memory_region(page, 4096);
    if (vs_nretired < VS_MAXPAGES) {
        vs_retired[vs_nretired++] = page;
    }
    return true;
}
pthread_t __wrap_pthread_self(void) {
    return __real_pthread_self();
}
int __wrap_pthread_equal(pthread_t a, pthread_t b) {
    return __real_pthread_equal(a, b);
}

static void *vs_trampoline(void *arg) {
    struct vs_thread *t = arg;
    vs_me = t;
    vs_baton_wait(&t->sem);
    t->fn(t->arg);
    t->state = VST_EXITED;
    t->op = VOP_NONE;
    vs_schedule();
    return NULL;
}
int __wrap_pthread_create(pthread_t *out, const pthread_attr_t *attr, void *(*fn)(void *), void *arg) {
    if (!vs_active()) {
        return __real_pthread_create(out, attr, fn, arg);
    }
    vs_yield(VOP_CREATE, NULL, NULL, 0);
    if (vs_nthreads >= VS_MAX_THREADS) {
        return EAGAIN;
    }
    struct vs_thread *t = &vs_T[vs_nthreads];
    t->op = VOP_NONE;
    t->target = 0;
    t->result = 0;
    t->m = NULL;
    t->c = NULL;
    t->timed = false;
    t->deadline = 0;
    t->joined = false;
    t->detached = false;
    t->id = vs_nthreads;
    t->fn = fn;
    t->arg = arg;
    t->state = VST_READY;
    t->op = VOP_START;
    vs_baton_init(&t->sem);
    vs_nthreads++;
    int rc = __real_pthread_create(&t->real, attr, vs_trampoline, t);
    if (rc) {
        t->state = VST_UNUSED;
        vs_nthreads--;
        return rc;
    }
    *out = t->real;
    return 0;
}
static struct vs_thread *vs_find(pthread_t p) {
    for (int i = 1; i < vs_nthreads; ++i) {
        /* a joined (or detached and finished) thread's pthread_t may be reused by a later thread */
        if (vs_T[i].joined || (vs_T[i].detached && vs_T[i].state == VST_EXITED)) {
            continue;
        }
        if (__real_pthread_equal(vs_T[i].real, p)) {
            return &vs_T[i];
        }
    }
    return NULL;
}
int __wrap_pthread_join(pthread_t p, void **ret) {
    if (!vs_active()) {
        return __real_pthread_join(p, ret);
    }
    struct vs_thread *t = vs_find(p);
    if (!t) {
        return ESRCH;
    }
    if (t == vs_me) {
        return EDEADLK;
    }
    if (t->joined) {
        vs_anomalies++; /* second join of the same thread: undefined behaviour on a real system */
        vh_begin("DoubleJoin");
        vh_int("thr", t->id);
        vh_end();
        return EINVAL;
    }
    vs_yield(VOP_JOIN, NULL, NULL, t->id);
    t->joined = true;
    return __real_pthread_join(p, ret);
}
int __wrap_pthread_detach(pthread_t p) {
    if (vs_active()) {
        struct vs_thread *t = vs_find(p);
        if (t) {
            t->detached = true;
        }
    }
    return __real_pthread_detach(p);
}

static void vs_atomic_hook(int kind, const volatile void *var) {
    (void)kind;
    (void)var;
    if (vs_active()) {
        vs_yield(VOP_ATOMIC, NULL, NULL, 0);
    }
}

/* The runner's own allocations (script lines, DFS frontier) must not show up as leaks in a child's leak check:
 * everything the parent allocates is allocated with leak detection disabled; the child re-enables it. */
#if defined(VS_TSAN) || defined(VH_NO_ASAN)
static void vs_lsan_disable(void) {
}
static void vs_lsan_enable(void) {
}
#else
void __lsan_disable(void);
void __lsan_enable(void);
static void vs_lsan_disable(void) {
    __lsan_disable();
}
static void vs_lsan_enable(void) {
    __lsan_enable();
}
#endif

/* ---- child side: run one execution */
static void vs_parse_policy(char **tok, int ntok) {
    memset(&vs_src, 0, sizeof(vs_src));
    vs_src.kind = VSRC_DEFAULT;
    if (ntok >= 3 && strcmp(tok[1], "rand") == 0) {
        vs_src.kind = VSRC_RAND;
        vs_src.rng = strtoull(tok[2], NULL, 0) * 0x2545F4914F6CDD1Dull + 1;
    } else if (ntok >= 3 && strcmp(tok[1], "pct") == 0) {
        vs_src.kind = VSRC_PCT;
        vs_src.rng = strtoull(tok[2], NULL, 0) * 0x2545F4914F6CDD1Dull + 7;
        int d = ntok >= 4 ? atoi(tok[3]) : 2;
        long horizon = ntok >= 5 ? atol(tok[4]) : 120;
        for (int i = 0; i < 64; ++i) {
            vs_src.prio[i] = 1000 + (int)(vs_rand64() % 1000);
        }
        vs_src.prio[VS_TIMER_ID] = (vs_rand64() % 4 == 0) ? 1500 : 0;
        vs_src.low = 0;
        vs_src.nchange = d > 16 ? 16 : d;
        for (int i = 0; i < vs_src.nchange; ++i) {
            vs_src.change[i] = (long)(vs_rand64() % (uint64_t)horizon);
        }
    } else if (ntok >= 2 && strcmp(tok[1], "fixed") == 0) {
        vs_src.kind = VSRC_FIXED;
        static int fixed[VS_MAXCHOICE];
        int n = 0;
        if (ntok >= 3 && strcmp(tok[2], "-") != 0) {
            char *save = NULL;
            for (char *p = strtok_r(tok[2], ",", &save); p && n < VS_MAXCHOICE; p = strtok_r(NULL, ",", &save)) {
                fixed[n++] = atoi(p);
            }
        }
        vs_src.fixed = fixed;
        vs_src.nfixed = n;
    }
}

static void vs_run_child(vs_scenario_fn scenario, char **lines, int nlines) {
    memset(vs_T, 0, sizeof(vs_T));
    vs_nthreads = 1;
    vs_T[0].id = 0;
    vs_T[0].state = VST_READY;
    vs_baton_init(&vs_T[0].sem);
    vs_me = &vs_T[0];
    vs_nm = vs_nc = 0;
    vs_nsteps = 0;
    vs_nchoice = 0;
    vs_debug = getenv("VS_DEBUG") != NULL;
    if (getenv("VS_STEP_CAP")) { /* executions that are long by design (a burst of a thousand log calls) */
        vs_step_cap = atol(getenv("VS_STEP_CAP"));
    }
    aws_verif_atomic_hook = vs_atomic_hook;
    vh_alloc_point = vs_point;
    vs_lsan_enable();
    vs_is_active = true;
    scenario(lines, nlines);
    /* every thread the scenario (or the library on its behalf) created must have exited by now */
    vs_yield(VOP_FINISH, NULL, NULL, 0);
    vs_is_active = false;
    int unjoined = 0;
    for (int i = 1; i < vs_nthreads; ++i) {
        if (!vs_T[i].joined && !vs_T[i].detached) {
            unjoined++;
        }
    }
    vh_begin("End");
    vh_int("live", (long long)vh_live_blocks);
    vh_int("steps", vs_nsteps);
    vh_int("threads", vs_nthreads - 1);
    vh_int("unjoined", unjoined);
    vh_int("anomalies", vs_anomalies);
    vh_int("drift", vs_src.drift);
    vh_end();
    vs_child_exit();
}

/* ---- parent side: batch runner with fork per execution and bounded-preemption DFS */
#define VS_DFS_MAX_DEPTH 600 /* choice points per execution that the systematic exploration branches on */
struct vs_item {
    int *pre;
    int n;
    int preempt;
};
static int vs_exec_no;

static int vs_run_one(vs_scenario_fn scenario, char **lines, int nlines, const char *policy, const char *cpath,
                      unsigned wall_secs) {
    fflush(vh_out);
    vh_begin("Reset");
    vh_int("exec", vs_exec_no++);
    vh_str("sched", policy);
    vh_end();
    fflush(vh_out);
    pid_t pid = fork();
    if (pid == 0) {
        char *pol = strdup(policy);
        char *tok[8];
        int nt = 0;
        tok[nt++] = (char *)"EXEC";
        char *save = NULL;
        for (char *p = strtok_r(pol, " ", &save); p && nt < 8; p = strtok_r(NULL, " ", &save)) {
            tok[nt++] = p;
        }
        vs_choice_path = cpath;
        vs_parse_policy(tok, nt);
        /* the wall-clock limit only guards against a livelock in real time (deadlocks are found by the scheduler itself);
         * on a loaded machine a baton-passing execution can take many times its usual second */
        alarm(getenv("VS_WALL_SECS") ? (unsigned)atoi(getenv("VS_WALL_SECS")) : wall_secs);
        vs_run_child(scenario, lines, nlines);
        _exit(0);
    }
    int st = 0;
    waitpid(pid, &st, 0);
    /* the child wrote through its own copy of the FILE buffer and flushed before exiting; our copy is empty */
    if (!(WIFEXITED(st) && WEXITSTATUS(st) == 0)) {
        fseek(vh_out, 0, SEEK_END);
        vh_begin("Died");
        vh_int("sig", WIFSIGNALED(st) ? WTERMSIG(st) : 100 + WEXITSTATUS(st));
        vh_end();
        fflush(vh_out);
        return 1;
    }
    fseek(vh_out, 0, SEEK_END);
    return 0;
}

static int vs_read_choices(const char *path, int **chosen, int **cur, uint64_t **mask, int *drift) {
    FILE *f = fopen(path, "r");
    if (!f) {
        return -1;
    }
    int n = 0;
    if (fscanf(f, "%d %d", &n, drift) != 2) {
        fclose(f);
        return -1;
    }
    *chosen = malloc(sizeof(int) * (size_t)(n + 1));
    *cur = malloc(sizeof(int) * (size_t)(n + 1));
    *mask = malloc(sizeof(uint64_t) * (size_t)(n + 1));
    for (int i = 0; i < n; ++i) {
        unsigned long long m;
        if (fscanf(f, "%d %d %llu", &(*chosen)[i], &(*cur)[i], &m) != 3) {
            n = i;
            break;
        }
        (*mask)[i] = m;
    }
    fclose(f);
    return n;
}

static void vs_dfs(vs_scenario_fn scenario, char **lines, int nlines, long budget, int bound, const char *cpath) {
    /* buckets by preemption count: iterative context bounding */
    int nb = bound + 1;
    struct vs_item **bucket = calloc((size_t)nb, sizeof(*bucket));
    long *cnt = calloc((size_t)nb, sizeof(long)), *cap = calloc((size_t)nb, sizeof(long)), *head = calloc((size_t)nb, sizeof(long));
    for (int b = 0; b < nb; ++b) {
        cap[b] = 1024;
        bucket[b] = malloc(sizeof(struct vs_item) * (size_t)cap[b]);
    }
    bucket[0][cnt[0]++] = (struct vs_item){NULL, 0, 0};
    long runs = 0;
    static char policy[VS_MAXCHOICE * 3 + 64];
    while (runs < budget) {
        int b = 0;
        while (b < nb && head[b] >= cnt[b]) {
            b++;
        }
        if (b >= nb) {
            break;
        }
        struct vs_item it = bucket[b][head[b]++];
        size_t off = (size_t)snprintf(policy, sizeof(policy), "fixed ");
        if (it.n == 0) {
            off += (size_t)snprintf(policy + off, sizeof(policy) - off, "-");
        }
        for (int i = 0; i < it.n; ++i) {
            off += (size_t)snprintf(policy + off, sizeof(policy) - off, i ? ",%d" : "%d", it.pre[i]);
        }
        remove(cpath);
        int died = vs_run_one(scenario, lines, nlines, policy, cpath, 150);
        runs++;
        int *chosen = NULL, *cur = NULL, drift = 0;
        uint64_t *mask = NULL;
        int n = died ? -1 : vs_read_choices(cpath, &chosen, &cur, &mask, &drift);
        if (n >= 0) {
            int pc = 0;
            for (int i = 0; i < n; ++i) {
                bool cur_en = cur[i] >= 0 && ((mask[i] >> cur[i]) & 1);
                if (i >= it.n && i < VS_DFS_MAX_DEPTH) {
                    for (int a = 0; a < 63; ++a) {
                        if (!((mask[i] >> a) & 1) || a == chosen[i]) {
                            continue;
                        }
                        int np = pc + ((cur_en && a != cur[i]) ? 1 : 0);
                        if (np > bound) {
                            continue;
                        }
                        if (cnt[np] >= cap[np]) {
                            if (cap[np] > 400000) {
                                continue;
                            }
                            cap[np] *= 2;
                            bucket[np] = realloc(bucket[np], sizeof(struct vs_item) * (size_t)cap[np]);
                        }
                        int *pre = malloc(sizeof(int) * (size_t)(i + 1));
                        memcpy(pre, chosen, sizeof(int) * (size_t)i);
                        pre[i] = a;
                        bucket[np][cnt[np]++] = (struct vs_item){pre, i + 1, np};
                    }
                }
                if (cur_en && chosen[i] != cur[i]) {
                    pc++;
                }
            }
        }
        free(chosen);
        free(cur);
        free(mask);
        free(it.pre);
    }
    long left = 0;
    for (int b = 0; b < nb; ++b) {
        left += cnt[b] - head[b];
    }
    vh_begin("Reset");
    vh_int("exec", vs_exec_no++);
    vh_str("sched", "dfs-summary");
    vh_end();
    vh_begin("DfsSummary");
    vh_int("runs", runs);
    vh_int("unexplored", left);
    vh_int("bound", bound);
    vh_end();
    fflush(vh_out);
}

static char vs_out_path[4000]; /* the ndjson output path: scenarios derive names of scratch files from it */
int vs_main(int argc, char **argv, vs_scenario_fn scenario) {
    if (argc < 3) {
        fprintf(stderr, "usage: %s batch-script out.ndjson\n", argv[0]);
        return 3;
    }
    FILE *in = fopen(argv[1], "r");
    if (!in) {
        perror(argv[1]);
        return 3;
    }
    vs_lsan_disable();
    vh_open(argv[2]);
    snprintf(vs_out_path, sizeof(vs_out_path), "%s", argv[2]);
    setvbuf(vh_out, NULL, _IOLBF, 0); /* parent and children share the descriptor: keep lines whole */
    vh_install_handlers(0);
    char cpath[4096];
    snprintf(cpath, sizeof(cpath), "%s.choices", argv[2]);
    /* read all lines */
    char **all = NULL;
    size_t nall = 0, capl = 0;
    char *line = NULL;
    size_t lcap = 0;
    while (getline(&line, &lcap, in) >= 0) {
        size_t n = strlen(line);
        while (n && (line[n - 1] == '\n' || line[n - 1] == '\r')) {
            line[--n] = 0;
        }
        if (!n) {
            continue;
        }
        if (nall == capl) {
            capl = capl ? capl * 2 : 256;
            all = realloc(all, capl * sizeof(char *));
        }
        all[nall++] = strdup(line);
    }
    size_t i = 0;
    while (i < nall) {
        if (strncmp(all[i], "EXEC", 4) != 0) {
            ++i;
            continue;
        }
        size_t j = i + 1;
        while (j < nall && strncmp(all[j], "EXEC", 4) != 0 && strcmp(all[j], "END") != 0) {
            ++j;
        }
        const char *policy = all[i] + 4;
        while (*policy == ' ') {
            ++policy;
        }
        if (strncmp(policy, "dfs", 3) == 0) {
            long budget = 1000;
            int bound = 2;
            sscanf(policy, "dfs %ld %d", &budget, &bound);
            vs_dfs(scenario, all + i + 1, (int)(j - i - 1), budget, bound, cpath);
        } else {
            vs_run_one(scenario, all + i + 1, (int)(j - i - 1), policy, NULL, 150);
        }
        i = j;
    }
    remove(cpath);
    vh_begin("BatchEnd");
    vh_end();
    fclose(vh_out);
    return 0;
}

#endif
