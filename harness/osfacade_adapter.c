/* X04 adapter: the OS facade of aws-c-common (environment.h, file.h, the two file readers of byte_buf.h) driven by a
 * script. Reports results and, after every call, the observable state: the directory tree below a private scratch
 * directory as plain POSIX calls see it (names, kinds, file lengths, content digests), the model variables of the
 * process environment as plain getenv sees them, the number of live allocator blocks and of open file descriptors.
 * The adapter holds no expected values. What it knows is the projection: name id <-> entry name, "VERIF_X04_<n>",
 * content -> (length, two polynomial digests), absolute path -> name ids below the scratch root.
 *
 * usage: osfacade_adapter <script> <trace> <base-dir>     (base-dir: under the check's output directory; the scratch
 * directory <base-dir>/s<pid> is created there and removed at the end; the modelled tree is <base-dir>/s<pid>/root,
 * the targets of symbolic links are in <base-dir>/s<pid>/targets) */
#include "vh_core.h"

#include <aws/common/byte_buf.h>
#include <aws/common/environment.h>
#include <aws/common/file.h>
#include <aws/common/string.h>

#include <dirent.h>
#include <errno.h>
#include <limits.h>
#include <sys/stat.h>
#include <sys/types.h>
#include <sys/wait.h>
#include <fcntl.h>
#include <signal.h>

/* ------------------------------------------------------------------ names */
#define NNAMES 7
static const char *NAMES[NNAMES + 1] = {
    "",
    "a",
    "b b",
    "c.d",
    ".h",
    "e..f",
    "...",
    "Long_name_with_sixty_characters_0123456789_0123456789_012345",
};
static int name_id(const char *s, size_t n) {
    for (int i = 1; i <= NNAMES; ++i) {
        if (strlen(NAMES[i]) == n && memcmp(NAMES[i], s, n) == 0) {
            return i;
        }
    }
    return -1;
}
static void env_name(int n, char *out, size_t cap) {
    if (n == 0) {
        snprintf(out, cap, "HOME");
    } else {
        snprintf(out, cap, "VERIF_X04_%d", n);
    }
}
static const int ENVIDS[] = {0, 1, 2, 3, 11};
#define NENV 5

/* ------------------------------------------------------------------ scratch directory */
static char base[PATH_MAX];
static char sbase[PATH_MAX];   /* <base>/s<pid>: everything this process creates lives below it */
static size_t sbase_len;
static char scratch[PATH_MAX]; /* <sbase>/root: the root of the modelled tree = working directory; canonical, no trailing slash */
static size_t scratch_len;
static char tgt_dir[PATH_MAX], tgt_file[PATH_MAX]; /* <sbase>/targets/{dir,file}: what symbolic links point to (outside the tree) */
static char *saved_home;

static void rm_rf(const char *path) {
    if (strncmp(path, sbase, sbase_len) != 0 || sbase_len < 8) {
        fprintf(stderr, "refusing to remove %s\n", path);
        exit(3);
    }
    struct stat st;
    if (lstat(path, &st) != 0) {
        return;
    }
    if (S_ISDIR(st.st_mode)) {
        DIR *d = opendir(path);
        if (d) {
            struct dirent *de;
            while ((de = readdir(d)) != NULL) {
                if (!strcmp(de->d_name, ".") || !strcmp(de->d_name, "..")) {
                    continue;
                }
                char *c = malloc(strlen(path) + strlen(de->d_name) + 2);
                sprintf(c, "%s/%s", path, de->d_name);
                rm_rf(c);
                free(c);
            }
            closedir(d);
        }
        rmdir(path);
    } else {
        unlink(path);
    }
}
static void mkdir_p(const char *p) {
    char tmp[PATH_MAX];
    snprintf(tmp, sizeof(tmp), "%s", p);
    for (char *c = tmp + 1; *c; ++c) {
        if (*c == '/') {
            *c = 0;
            mkdir(tmp, 0777);
            *c = '/';
        }
    }
    mkdir(tmp, 0777);
}

/* ------------------------------------------------------------------ paths */
struct ipath {
    int n;
    int c[12];
};
static struct ipath parse_path(const char *tok) {
    struct ipath p;
    p.n = 0;
    if (strcmp(tok, "-") == 0) {
        return p;
    }
    const char *s = tok;
    while (*s && p.n < 12) {
        p.c[p.n++] = (int)strtol(s, (char **)&s, 10);
        if (*s == ',') {
            ++s;
        }
    }
    return p;
}
static void log_ipath(const char *k, const struct ipath *p) {
    long long v[12];
    for (int i = 0; i < p->n; ++i) {
        v[i] = p->c[i];
    }
    vh_ints(k, v, (size_t)p->n);
}
/* styles: r = relative to the working directory (= scratch root), d = the same with a leading "./", a = absolute,
 * R / A = r / a with a trailing separator, e = the empty string. Returns a malloc'ed exact-size C string. */
static char *make_path(char style, const struct ipath *p) {
    char buf[PATH_MAX * 2];
    size_t o = 0;
    buf[0] = 0;
    if (style == 'e') {
        return strdup("");
    }
    if (style == 'a' || style == 'A') {
        o += (size_t)snprintf(buf + o, sizeof(buf) - o, "%s", scratch);
        for (int i = 0; i < p->n; ++i) {
            o += (size_t)snprintf(buf + o, sizeof(buf) - o, "/%s", NAMES[p->c[i]]);
        }
    } else {
        if (style == 'd') {
            o += (size_t)snprintf(buf + o, sizeof(buf) - o, "./");
        }
        if (p->n == 0) {
            o += (size_t)snprintf(buf + o, sizeof(buf) - o, ".");
        }
        for (int i = 0; i < p->n; ++i) {
            o += (size_t)snprintf(buf + o, sizeof(buf) - o, i ? "/%s" : "%s", NAMES[p->c[i]]);
        }
    }
    if (style == 'R' || style == 'A') {
        o += (size_t)snprintf(buf + o, sizeof(buf) - o, "/");
    }
    char *r = malloc(o + 1);
    memcpy(r, buf, o + 1);
    return r;
}
static struct aws_string *make_str(char style, const struct ipath *p) {
    char *c = make_path(style, p);
    struct aws_string *s = aws_string_new_from_c_str(vh_alloc(), c);
    free(c);
    return s;
}
/* canonical absolute path -> name ids below the scratch root; {-1} if it is not below the root or has an unknown name */
static struct ipath project_abs(const char *abs) {
    struct ipath p;
    p.n = 0;
    if (strncmp(abs, scratch, scratch_len) != 0 || (abs[scratch_len] != '/' && abs[scratch_len] != 0)) {
        p.n = 1;
        p.c[0] = -1;
        return p;
    }
    const char *s = abs + scratch_len;
    while (*s == '/') {
        ++s;
        const char *e = strchr(s, '/');
        size_t n = e ? (size_t)(e - s) : strlen(s);
        if (n == 0) {
            break;
        }
        if (p.n < 12) {
            p.c[p.n++] = name_id(s, n);
        }
        s += n;
    }
    return p;
}

/* ------------------------------------------------------------------ contents */
#define HP1 32749u
#define HP2 32719u
#define HB 263u
struct dg {
    long long n;
    unsigned h1, h2;
};
static void dg_init(struct dg *d) {
    d->n = 0;
    d->h1 = d->h2 = 0;
}
static void dg_add(struct dg *d, const uint8_t *p, size_t n) {
    for (size_t i = 0; i < n; ++i) {
        d->h1 = (d->h1 * HB + p[i] + 1u) % HP1;
        d->h2 = (d->h2 * HB + p[i] + 1u) % HP2;
    }
    d->n += (long long)n;
}
static void log_dg(const char *k, const struct dg *d) {
    vh_obj_begin(k);
    vh_int("n", d->n);
    vh_int("h1", d->h1);
    vh_int("h2", d->h2);
    vh_obj_end();
}
/* the bytes of a chunk are a function of (seed, index); seed 0 = all NUL bytes, seed 1 = all newlines */
static uint8_t *gen_chunk(unsigned seed, size_t n) {
    uint8_t *b = malloc(n ? n : 1);
    uint32_t x = seed * 2654435761u + 12345u;
    for (size_t i = 0; i < n; ++i) {
        x = x * 1103515245u + 12345u;
        b[i] = seed == 0 ? 0 : (seed == 1 ? '\n' : (uint8_t)(x >> 16));
    }
    return b;
}
/* the digest of a file of a megabyte and more is remembered as long as the file (device, inode, size, modification and
 * change time) stays what it was: the tree is looked at after every call, and re-reading a 129 MiB file each time is what
 * made the large-file executions take minutes */
static struct {
    dev_t dev;
    ino_t ino;
    off_t size;
    struct timespec mt, ct;
    struct dg d;
    bool used;
} dg_cache[4];
static int file_dg(const char *path, struct dg *d) {
    dg_init(d);
    struct stat st;
    bool big = stat(path, &st) == 0 && S_ISREG(st.st_mode) && st.st_size >= (1 << 20);
    if (big) {
        for (int i = 0; i < 4; ++i) {
            if (dg_cache[i].used && dg_cache[i].dev == st.st_dev && dg_cache[i].ino == st.st_ino && dg_cache[i].size == st.st_size &&
                dg_cache[i].mt.tv_sec == st.st_mtim.tv_sec && dg_cache[i].mt.tv_nsec == st.st_mtim.tv_nsec &&
                dg_cache[i].ct.tv_sec == st.st_ctim.tv_sec && dg_cache[i].ct.tv_nsec == st.st_ctim.tv_nsec) {
                *d = dg_cache[i].d;
                return 0;
            }
        }
    }
    FILE *f = fopen(path, "rb");
    if (!f) {
        return -1;
    }
    uint8_t buf[4096];
    size_t k;
    while ((k = fread(buf, 1, sizeof(buf), f)) > 0) {
        dg_add(d, buf, k);
    }
    fclose(f);
    if (big) {
        static int next;
        int i = next++ % 4;
        dg_cache[i].used = true;
        dg_cache[i].dev = st.st_dev;
        dg_cache[i].ino = st.st_ino;
        dg_cache[i].size = st.st_size;
        dg_cache[i].mt = st.st_mtim;
        dg_cache[i].ct = st.st_ctim;
        dg_cache[i].d = *d;
    }
    return 0;
}

/* ------------------------------------------------------------------ observable state */
struct node {
    struct ipath p;
    int t;
    struct dg d;
};
static struct node nodes[256];
static int nnodes;
static int cmp_node(const void *a, const void *b) {
    const struct node *x = a, *y = b;
    for (int i = 0; i < x->p.n && i < y->p.n; ++i) {
        if (x->p.c[i] != y->p.c[i]) {
            return x->p.c[i] < y->p.c[i] ? -1 : 1;
        }
    }
    return x->p.n - y->p.n;
}
static void walk(const char *dir) {
    DIR *d = opendir(dir);
    if (!d) {
        return;
    }
    struct dirent *de;
    while ((de = readdir(d)) != NULL && nnodes < 256) {
        if (!strcmp(de->d_name, ".") || !strcmp(de->d_name, "..")) {
            continue;
        }
        char *c = malloc(strlen(dir) + strlen(de->d_name) + 2);
        sprintf(c, "%s/%s", dir, de->d_name);
        struct stat st;
        struct node *nd = &nodes[nnodes];
        nd->p = project_abs(c);
        dg_init(&nd->d);
        nd->t = 0;
        if (lstat(c, &st) == 0) {
            if (S_ISDIR(st.st_mode)) {
                nd->t = 4;
            } else if (S_ISREG(st.st_mode)) {
                nd->t = 1;
                file_dg(c, &nd->d);
            } else if (S_ISLNK(st.st_mode)) {
                nd->t = 2;
            }
        }
        nnodes++;
        if (nd->t == 4) {
            walk(c);
        }
        free(c);
    }
    closedir(d);
}
static int count_fds(void) {
    DIR *d = opendir("/proc/self/fd");
    if (!d) {
        return -1;
    }
    int n = 0;
    while (readdir(d) != NULL) {
        ++n;
    }
    closedir(d);
    return n - 3; /* ".", "..", and the descriptor of this very directory stream */
}
static void state_common(void) {
    vh_int("live", (long long)vh_live_blocks);
    vh_int("fds", count_fds());
}
/* 1 iff the link targets are as they were made: an empty directory and a 3-byte file */
static int targets_intact(void) {
    struct stat st;
    if (lstat(tgt_dir, &st) != 0 || !S_ISDIR(st.st_mode)) {
        return 0;
    }
    DIR *d = opendir(tgt_dir);
    if (!d) {
        return 0;
    }
    int n = 0;
    while (readdir(d) != NULL) {
        ++n;
    }
    closedir(d);
    if (n != 2) {
        return 0;
    }
    return lstat(tgt_file, &st) == 0 && S_ISREG(st.st_mode) && st.st_size == 3;
}
static void state_tree(void) {
    nnodes = 0;
    walk(scratch);
    qsort(nodes, (size_t)nnodes, sizeof(nodes[0]), cmp_node);
    vh_obj_begin("s");
    state_common();
    vh_int("tgt", targets_intact());
    vh_arr_begin("tree");
    for (int i = 0; i < nnodes; ++i) {
        vh_obj_begin(NULL);
        log_ipath("p", &nodes[i].p);
        vh_int("t", nodes[i].t);
        vh_int("n", nodes[i].d.n);
        vh_int("h1", nodes[i].d.h1);
        vh_int("h2", nodes[i].d.h2);
        vh_obj_end();
    }
    vh_arr_end();
    vh_obj_end();
}
static void state_env(void) {
    vh_obj_begin("s");
    state_common();
    vh_arr_begin("env");
    for (int i = 0; i < NENV; ++i) {
        char nm[64];
        env_name(ENVIDS[i], nm, sizeof(nm));
        const char *v = getenv(nm);
        vh_obj_begin(NULL);
        vh_int("n", ENVIDS[i]);
        vh_int("set", v ? 1 : 0);
        vh_str("v", v ? v : "");
        vh_int("len", v ? (long long)strlen(v) : 0);
        vh_obj_end();
    }
    vh_arr_end();
    vh_obj_end();
}

/* ------------------------------------------------------------------ directory entries */
struct ent {
    int null;
    struct ipath p, rel;
    int t, relabs, pabs;
    long long sz;
};
/* What a path text denotes from the working directory: its directory part resolved by realpath + its last component
 * (the entry itself is not followed if it is a symbolic link), projected below the root. {-2} if it denotes nothing. */
static struct ipath resolve_text(const uint8_t *ptr, size_t len) {
    struct ipath r;
    r.n = 1;
    r.c[0] = -2;
    /* a copy of exactly the advertised length: a wrong length is an ASan report */
    char *t = malloc(len + 1);
    if (len) {
        memcpy(t, ptr, len);
    }
    t[len] = 0;
    if (len && strlen(t) == len) {
        size_t n = len;
        while (n > 1 && t[n - 1] == '/') {
            t[--n] = 0;
        }
        char *slash = strrchr(t, '/');
        const char *last = slash ? slash + 1 : t;
        char *dirres = NULL;
        if (!slash) {
            dirres = realpath(".", NULL);
        } else if (slash == t) {
            dirres = strdup("/");
        } else {
            *slash = 0;
            dirres = realpath(t, NULL);
        }
        struct stat st;
        if (dirres && *last && strcmp(last, ".") && strcmp(last, "..")) {
            char *full = malloc(strlen(dirres) + strlen(last) + 2);
            sprintf(full, "%s/%s", strcmp(dirres, "/") ? dirres : "", last);
            if (lstat(full, &st) == 0) {
                r = project_abs(full);
            }
            free(full);
        }
        free(dirres);
    }
    free(t);
    return r;
}
static struct ent project_entry(const struct aws_directory_entry *e) {
    struct ent r;
    memset(&r, 0, sizeof(r));
    if (!e) {
        r.null = 1;
        return r;
    }
    r.t = e->file_type;
    r.sz = (long long)e->file_size;
    r.pabs = e->path.len > 0 && e->path.ptr[0] == '/';
    r.relabs = e->relative_path.len > 0 && e->relative_path.ptr[0] == '/';
    r.p = resolve_text(e->path.ptr, e->path.len);
    r.rel = resolve_text(e->relative_path.ptr, e->relative_path.len);
    return r;
}
static void log_entry(const char *k, const struct ent *e) {
    vh_obj_begin(k);
    vh_int("null", e->null);
    log_ipath("p", &e->p);
    vh_int("pabs", e->pabs);
    vh_int("t", e->t);
    vh_int("sz", e->sz);
    log_ipath("rel", &e->rel);
    vh_int("relabs", e->relabs);
    vh_obj_end();
}
struct trav {
    int count, stop;
    struct ent seen[256];
};
static struct trav tv;
static bool on_entry(const struct aws_directory_entry *entry, void *ud) {
    struct trav *t = ud;
    if (t->count < 256) {
        t->seen[t->count] = project_entry(entry);
    }
    t->count++;
    return !(t->stop && t->count == t->stop);
}

/* ------------------------------------------------------------------ handles */
static FILE *fh;
static struct aws_directory_iterator *iter;

static void wide(const char *k, long long v) {
    long long hi = v >> 30, lo = v & ((1ll << 30) - 1); /* arithmetic shift: v = hi * 2^30 + lo, 0 <= lo < 2^30 */
    long long a[2] = {hi, lo};
    vh_ints(k, a, 2);
}
static size_t unhex(const char *tok, uint8_t *out, size_t cap) {
    if (strcmp(tok, "-") == 0) {
        return 0;
    }
    size_t n = strlen(tok) / 2;
    if (n > cap) {
        n = cap;
    }
    for (size_t i = 0; i < n; ++i) {
        unsigned v;
        sscanf(tok + 2 * i, "%2x", &v);
        out[i] = (uint8_t)v;
    }
    return n;
}
static void log_str_result(struct aws_string *s) {
    vh_int("null", s ? 0 : 1);
    vh_str("v", s ? aws_string_c_str(s) : "");
    vh_int("len", s ? (long long)s->len : 0);
    vh_int("slen", s ? (long long)strlen(aws_string_c_str(s)) : 0);
    vh_int("own", s && vh_block_size(s) != (size_t)-1 ? 1 : 0);
}
static void close_handles(void) {
    if (fh) {
        fclose(fh);
        fh = NULL;
    }
    if (iter) {
        aws_directory_entry_iterator_destroy(iter);
        iter = NULL;
    }
}

int main(int argc, char **argv) {
    if (argc < 4) {
        fprintf(stderr, "usage: %s script trace base-dir\n", argv[0]);
        return 3;
    }
    /* the scratch directory lives under the check's output directory only */
    if (argv[3][0] != '/' || !strstr(argv[3], "/out/") || !strncmp(argv[3], "/tmp", 4) || !strncmp(argv[3], "/repo", 5)) {
        fprintf(stderr, "base directory must be an absolute path below the check's out/ directory: %s\n", argv[3]);
        return 3;
    }
    FILE *in = fopen(argv[1], "r");
    if (!in) {
        perror(argv[1]);
        return 3;
    }
    vh_open(argv[2]);
    vh_install_handlers(120);
    mkdir_p(argv[3]);
    if (!realpath(argv[3], base)) {
        perror(argv[3]);
        return 3;
    }
    snprintf(sbase, sizeof(sbase), "%s/s%ld", base, (long)getpid());
    sbase_len = strlen(sbase);
    snprintf(scratch, sizeof(scratch), "%s/root", sbase);
    scratch_len = strlen(scratch);
    snprintf(tgt_dir, sizeof(tgt_dir), "%s/targets/dir", sbase);
    snprintf(tgt_file, sizeof(tgt_file), "%s/targets/file", sbase);
    const char *h = getenv("HOME");
    saved_home = h ? strdup(h) : NULL;
    int fdbase = 0;

    while (vh_next(in)) {
        if (vh_is("RESET")) {
            close_handles();
            if (chdir(base) != 0) {
                return 3;
            }
            rm_rf(sbase);
            mkdir_p(tgt_dir);
            FILE *tf = fopen(tgt_file, "w");
            if (tf) {
                fputs("tgt", tf);
                fclose(tf);
            }
            if (mkdir(scratch, 0777) != 0 || chdir(scratch) != 0) {
                perror(scratch);
                return 3;
            }
            for (int i = 0; i < NENV; ++i) {
                char nm[64];
                env_name(ENVIDS[i], nm, sizeof(nm));
                unsetenv(nm);
            }
            fdbase = count_fds();
            vh_begin("Reset");
            vh_int("fds", fdbase);
            vh_int("live", (long long)vh_live_blocks);
            vh_end();
        } else if (vh_is("SETENV")) {
            int n = (int)vh_argi(1);
            char nm[64];
            env_name(n, nm, sizeof(nm));
            uint8_t *raw = malloc(strlen(vh_args(2)) + 1);
            size_t vl = unhex(vh_args(2), raw, strlen(vh_args(2)));
            raw[vl] = 0;
            struct aws_string *name = aws_string_new_from_c_str(vh_alloc(), nm);
            struct aws_string *val = aws_string_new_from_array(vh_alloc(), raw, vl);
            int rc = aws_set_environment_value(name, val);
            vh_begin("EnvSet");
            vh_int("n", n);
            vh_str("v", (const char *)raw);
            vh_int("len", (long long)vl);
            vh_rc(rc);
            aws_string_destroy(name);
            aws_string_destroy(val);
            free(raw);
            state_env();
            vh_end();
        } else if (vh_is("UNSETENV")) {
            int n = (int)vh_argi(1);
            char nm[64];
            env_name(n, nm, sizeof(nm));
            struct aws_string *name = aws_string_new_from_c_str(vh_alloc(), nm);
            int rc = aws_unset_environment_value(name);
            vh_begin("EnvUnset");
            vh_int("n", n);
            vh_rc(rc);
            aws_string_destroy(name);
            state_env();
            vh_end();
        } else if (vh_is("GETENV")) {
            int api = (int)vh_argi(1), n = (int)vh_argi(2);
            char nm[64];
            env_name(n, nm, sizeof(nm));
            struct aws_string *out = (struct aws_string *)(uintptr_t)0xdead0;
            int rc = 0;
            if (api == 0) {
                struct aws_string *name = aws_string_new_from_c_str(vh_alloc(), nm);
                rc = aws_get_environment_value(vh_alloc(), name, &out);
                aws_string_destroy(name);
                if (rc != 0) {
                    out = NULL;
                }
            } else if (api == 1) {
                char *exact = strdup(nm);
                out = aws_get_env(vh_alloc(), exact);
                free(exact);
            } else {
                char *exact = strdup(nm);
                out = aws_get_env_nonempty(vh_alloc(), exact);
                free(exact);
            }
            vh_begin("EnvGet");
            vh_int("api", api);
            vh_int("n", n);
            vh_rc(rc);
            log_str_result(out);
            aws_string_destroy(out);
            state_env();
            vh_end();
        } else if (vh_is("GETHOME")) {
            struct aws_string *out = aws_get_home_directory(vh_alloc());
            vh_begin("GetHome");
            log_str_result(out);
            aws_string_destroy(out);
            state_env();
            vh_end();
        } else if (vh_is("MKFILE") || vh_is("APPENDRAW")) {
            /* ground truth: plain stdio, not the library */
            bool app = vh_is("APPENDRAW");
            struct ipath p = parse_path(vh_args(1));
            unsigned seed = (unsigned)vh_argu(2);
            size_t n = (size_t)vh_argu(3);
            char *c = make_path('a', &p);
            uint8_t *b = gen_chunk(seed, n);
            struct dg d;
            dg_init(&d);
            dg_add(&d, b, n);
            FILE *f = fopen(c, app ? "ab" : "wb");
            int ok = 0;
            if (f) {
                ok = fwrite(b, 1, n, f) == n;
                ok = fclose(f) == 0 && ok;
            }
            vh_begin(app ? "RawAppend" : "RawPut");
            log_ipath("p", &p);
            log_dg("c", &d);
            vh_int("ok", ok);
            state_tree();
            vh_end();
            free(b);
            free(c);
        } else if (vh_is("MKDIRRAW")) {
            struct ipath p = parse_path(vh_args(1));
            char *c = make_path('a', &p);
            int ok = mkdir(c, 0777) == 0;
            vh_begin("RawMkdir");
            log_ipath("p", &p);
            vh_int("ok", ok);
            state_tree();
            vh_end();
            free(c);
        } else if (vh_is("MKLINKRAW")) {
            /* ground truth: plain symlink(2); kind d = to the target directory, f = to the target file, x = to nothing */
            struct ipath p = parse_path(vh_args(1));
            char kind = vh_args(2)[0];
            char *c = make_path('a', &p);
            char nowhere[PATH_MAX + 32];
            snprintf(nowhere, sizeof(nowhere), "%s/targets/nowhere", sbase);
            int ok = symlink(kind == 'd' ? tgt_dir : (kind == 'f' ? tgt_file : nowhere), c) == 0;
            vh_begin("RawSymlink");
            log_ipath("p", &p);
            vh_str("kind", vh_args(2));
            vh_int("ok", ok);
            state_tree();
            vh_end();
            free(c);
        } else if (vh_is("DCREATE")) {
            char style = vh_args(1)[0];
            struct ipath p = parse_path(vh_args(2));
            struct aws_string *s = make_str(style, &p);
            int rc = aws_directory_create(s);
            vh_begin("DirCreate");
            vh_str("style", vh_args(1));
            log_ipath("p", &p);
            vh_rc(rc);
            aws_string_destroy(s);
            state_tree();
            vh_end();
        } else if (vh_is("DEXISTS") || vh_is("PEXISTS")) {
            bool isdir = vh_is("DEXISTS");
            char style = vh_args(1)[0];
            struct ipath p = parse_path(vh_args(2));
            struct aws_string *s = make_str(style, &p);
            bool res = isdir ? aws_directory_exists(s) : aws_path_exists(s);
            vh_begin(isdir ? "DirExists" : "PathExists");
            vh_str("style", vh_args(1));
            log_ipath("p", &p);
            vh_int("res", res ? 1 : 0);
            aws_string_destroy(s);
            state_tree();
            vh_end();
        } else if (vh_is("DDELETE")) {
            char style = vh_args(1)[0];
            struct ipath p = parse_path(vh_args(2));
            int rec = (int)vh_argi(3);
            struct aws_string *s = make_str(style, &p);
            int rc = aws_directory_delete(s, rec != 0);
            vh_begin("DirDelete");
            vh_str("style", vh_args(1));
            log_ipath("p", &p);
            vh_int("rec", rec);
            vh_rc(rc);
            aws_string_destroy(s);
            state_tree();
            vh_end();
        } else if (vh_is("FDELETE")) {
            char style = vh_args(1)[0];
            struct ipath p = parse_path(vh_args(2));
            struct aws_string *s = make_str(style, &p);
            int rc = aws_file_delete(s);
            vh_begin("FileDelete");
            vh_str("style", vh_args(1));
            log_ipath("p", &p);
            vh_rc(rc);
            aws_string_destroy(s);
            state_tree();
            vh_end();
        } else if (vh_is("MOVE")) {
            char style = vh_args(1)[0];
            struct ipath p = parse_path(vh_args(2)), q = parse_path(vh_args(3));
            struct aws_string *s = make_str(style, &p), *t = make_str(style, &q);
            int rc = aws_directory_or_file_move(s, t);
            vh_begin("Move");
            vh_str("style", vh_args(1));
            log_ipath("p", &p);
            log_ipath("q", &q);
            vh_rc(rc);
            aws_string_destroy(s);
            aws_string_destroy(t);
            state_tree();
            vh_end();
        } else if (vh_is("TRAVERSE")) {
            char style = vh_args(1)[0];
            struct ipath p = parse_path(vh_args(2));
            int rec = (int)vh_argi(3);
            tv.count = 0;
            tv.stop = (int)vh_argi(4);
            struct aws_string *s = make_str(style, &p);
            int rc = aws_directory_traverse(vh_alloc(), s, rec != 0, on_entry, &tv);
            vh_begin("Traverse");
            vh_str("style", vh_args(1));
            log_ipath("p", &p);
            vh_int("rec", rec);
            vh_int("stop", tv.stop);
            vh_rc(rc);
            vh_int("calls", tv.count);
            vh_arr_begin("seen");
            for (int i = 0; i < tv.count && i < 256; ++i) {
                log_entry(NULL, &tv.seen[i]);
            }
            vh_arr_end();
            aws_string_destroy(s);
            state_tree();
            vh_end();
        } else if (vh_is("ITNEW")) {
            char style = vh_args(1)[0];
            struct ipath p = parse_path(vh_args(2));
            vh_begin("IterNew");
            vh_str("style", vh_args(1));
            log_ipath("p", &p);
            if (iter) {
                vh_int("busy", 1);
            } else {
                struct aws_string *s = make_str(style, &p);
                iter = aws_directory_entry_iterator_new(vh_alloc(), s);
                aws_string_destroy(s);
                vh_int("busy", 0);
            }
            vh_int("ok", iter ? 1 : 0);
            struct ent e = project_entry(iter ? aws_directory_entry_iterator_get_value(iter) : NULL);
            log_entry("cur", &e);
            state_tree();
            vh_end();
        } else if (vh_is("ITNEXT") || vh_is("ITPREV")) {
            bool nx = vh_is("ITNEXT");
            vh_begin(nx ? "IterNext" : "IterPrev");
            vh_int("noit", iter ? 0 : 1);
            int rc = -2;
            if (iter) {
                rc = nx ? aws_directory_entry_iterator_next(iter) : aws_directory_entry_iterator_previous(iter);
            }
            vh_int("rc", rc);
            vh_str("err", rc == -1 ? aws_error_name(aws_last_error()) : "");
            struct ent e = project_entry(iter ? aws_directory_entry_iterator_get_value(iter) : NULL);
            log_entry("cur", &e);
            state_tree();
            vh_end();
        } else if (vh_is("ITDESTROY")) {
            vh_begin("IterDestroy");
            vh_int("noit", iter ? 0 : 1);
            if (iter) {
                aws_directory_entry_iterator_destroy(iter);
                iter = NULL;
            }
            state_tree();
            vh_end();
        } else if (vh_is("FOPEN")) {
            char api = vh_args(1)[0], style = vh_args(2)[0];
            struct ipath p = parse_path(vh_args(3));
            const char *mode = vh_args(4);
            vh_begin("Fopen");
            vh_str("api", vh_args(1));
            vh_str("style", vh_args(2));
            log_ipath("p", &p);
            vh_str("mode", mode);
            char m1[2] = {mode[0], 0};
            vh_str("m", m1);
            if (fh) {
                vh_int("busy", 1);
                vh_int("ok", 0);
            } else {
                if (api == 'c') {
                    char *c = make_path(style, &p);
                    char *md = strdup(mode);
                    fh = aws_fopen(c, md);
                    free(md);
                    free(c);
                } else {
                    struct aws_string *s = make_str(style, &p);
                    struct aws_string *md = aws_string_new_from_c_str(vh_alloc(), mode);
                    fh = aws_fopen_safe(s, md);
                    aws_string_destroy(md);
                    aws_string_destroy(s);
                }
                vh_int("busy", 0);
                vh_int("ok", fh ? 1 : 0);
            }
            vh_str("err", fh ? "" : aws_error_name(aws_last_error()));
            state_tree();
            vh_end();
        } else if (vh_is("FOPENBAD")) {
            /* aws_fopen with an empty path or an empty mode (existing file a) */
            bool badpath = strcmp(vh_args(1), "path") == 0;
            struct ipath p = parse_path(vh_args(2));
            char *c = badpath ? strdup("") : make_path('r', &p);
            char *md = badpath ? strdup("r") : strdup("");
            FILE *f = aws_fopen(c, md);
            vh_begin("FopenBad");
            vh_str("which", vh_args(1));
            vh_int("ok", f ? 1 : 0);
            vh_str("err", f ? "" : aws_error_name(aws_last_error()));
            if (f) {
                fclose(f);
            }
            free(c);
            free(md);
            state_tree();
            vh_end();
        } else if (vh_is("FWRITE")) {
            unsigned seed = (unsigned)vh_argu(1);
            size_t n = (size_t)vh_argu(2);
            uint8_t *b = gen_chunk(seed, n);
            struct dg d;
            dg_init(&d);
            dg_add(&d, b, n);
            int ok = 0;
            if (fh) {
                ok = fwrite(b, 1, n, fh) == n && fflush(fh) == 0;
            }
            vh_begin("Fwrite");
            vh_int("noh", fh ? 0 : 1);
            log_dg("c", &d);
            vh_int("ok", ok);
            state_tree();
            vh_end();
            free(b);
        } else if (vh_is("FLEN")) {
            int64_t len = -7;
            int rc = -2;
            if (fh) {
                rc = aws_file_get_length(fh, &len);
            }
            vh_begin("Flen");
            vh_int("noh", fh ? 0 : 1);
            vh_int("rc", rc);
            vh_str("err", rc == -1 ? aws_error_name(aws_last_error()) : "");
            vh_int("len", (long long)len);
            state_tree();
            vh_end();
        } else if (vh_is("FSEEK")) {
            long long off = vh_argi(1);
            bool end = strcmp(vh_args(2), "end") == 0;
            int rc = -2;
            long long pos = -1;
            if (fh) {
                rc = aws_fseek(fh, (int64_t)off, end ? SEEK_END : SEEK_SET);
                pos = (long long)ftello(fh);
            }
            vh_begin("Fseek");
            vh_int("noh", fh ? 0 : 1);
            wide("off", off);
            vh_str("whence", end ? "end" : "set");
            vh_int("rc", rc);
            vh_str("err", rc == -1 ? aws_error_name(aws_last_error()) : "");
            wide("pos", pos);
            state_tree();
            vh_end();
        } else if (vh_is("FREADREST")) {
            struct dg d;
            dg_init(&d);
            if (fh) {
                uint8_t buf[4096];
                size_t k;
                while ((k = fread(buf, 1, sizeof(buf), fh)) > 0) {
                    dg_add(&d, buf, k);
                }
            }
            vh_begin("FreadRest");
            vh_int("noh", fh ? 0 : 1);
            log_dg("c", &d);
            state_tree();
            vh_end();
        } else if (vh_is("FCLOSE")) {
            vh_begin("Fclose");
            vh_int("noh", fh ? 0 : 1);
            if (fh) {
                fclose(fh);
                fh = NULL;
            }
            state_tree();
            vh_end();
        } else if (vh_is("BUFFILE")) {
            char style = vh_args(1)[0];
            struct ipath p = parse_path(vh_args(2));
            int hinted = (int)vh_argi(3);
            size_t hint = (size_t)vh_argu(4);
            char *c = make_path(style, &p);
            struct aws_byte_buf buf;
            memset(&buf, 0xCD, sizeof(buf));
            int rc = hinted ? aws_byte_buf_init_from_file_with_size_hint(&buf, vh_alloc(), c, hint)
                            : aws_byte_buf_init_from_file(&buf, vh_alloc(), c);
            vh_begin("BufFromFile");
            vh_str("style", vh_args(1));
            log_ipath("p", &p);
            vh_int("hinted", hinted);
            vh_int("hint", (long long)hint);
            vh_rc(rc);
            struct dg d;
            dg_init(&d);
            int nul = 0, own = 0, unused = 2;
            if (rc == 0) {
                dg_add(&d, buf.buffer, buf.len);
                nul = buf.capacity > buf.len && buf.buffer[buf.len] == 0;
                own = buf.allocator == vh_alloc() && vh_block_size(buf.buffer) != (size_t)-1 && vh_block_size(buf.buffer) >= buf.capacity;
                aws_byte_buf_clean_up(&buf);
            } else {
                struct aws_byte_buf z, u;
                memset(&z, 0, sizeof(z));
                memset(&u, 0xCD, sizeof(u));
                unused = memcmp(&buf, &z, sizeof(buf)) == 0 ? 0 : (memcmp(&buf, &u, sizeof(buf)) == 0 ? 1 : 2);
            }
            log_dg("c", &d);
            vh_int("nul", nul);
            vh_int("own", own);
            vh_int("unused", unused);
            free(c);
            state_tree();
            vh_end();
        } else if (vh_is("FIFOREAD")) {
            /* FIFOREAD seed n hinted hint: a source whose size fstat() does not know (a FIFO outside the modelled tree, fed by
             * a child process with n generated bytes): the reader has to find the end by reading.  w = digest of what was
             * written, c = digest of what the buffer holds; own = the buffer belongs to the allocator that was passed AND
             * its block is at least as large as the capacity it claims. */
            unsigned seed = (unsigned)vh_argu(1);
            size_t n = (size_t)vh_argu(2);
            int hinted = (int)vh_argi(3);
            size_t hint = (size_t)vh_argu(4);
            char fifo[PATH_MAX + 16];
            snprintf(fifo, sizeof(fifo), "%s/fifo", sbase);
            unlink(fifo);
            int mk = mkfifo(fifo, 0600);
            uint8_t *data = gen_chunk(seed, n);
            struct dg w;
            dg_init(&w);
            dg_add(&w, data, n);
            fflush(vh_out);
            pid_t child = mk == 0 ? fork() : -1;
            if (child == 0) {
                int fd = open(fifo, O_WRONLY);
                size_t done = 0;
                while (fd >= 0 && done < n) {
                    ssize_t k = write(fd, data + done, n - done);
                    if (k <= 0) {
                        break;
                    }
                    done += (size_t)k;
                }
                _exit(0);
            }
            struct aws_byte_buf buf;
            memset(&buf, 0xCD, sizeof(buf));
            int rc = child > 0 ? (hinted ? aws_byte_buf_init_from_file_with_size_hint(&buf, vh_alloc(), fifo, hint)
                                         : aws_byte_buf_init_from_file(&buf, vh_alloc(), fifo))
                               : -1;
            if (child > 0) {
                kill(child, SIGKILL); /* it has written everything or the reader gave up */
                waitpid(child, NULL, 0);
            }
            unlink(fifo);
            vh_begin("BufFromFifo");
            vh_int("made", child > 0);
            vh_int("hinted", hinted);
            vh_int("hint", (long long)hint);
            vh_rc(rc);
            log_dg("w", &w);
            struct dg d;
            dg_init(&d);
            int nul = 0, own = 0;
            if (rc == 0) {
                dg_add(&d, buf.buffer, buf.len);
                nul = buf.capacity > buf.len && buf.buffer[buf.len] == 0;
                size_t blk = vh_block_size(buf.buffer);
                own = buf.allocator == vh_alloc() && blk != (size_t)-1 && blk >= buf.capacity;
                aws_byte_buf_clean_up(&buf);
            }
            log_dg("c", &d);
            vh_int("nul", nul);
            vh_int("own", own);
            free(data);
            state_tree();
            vh_end();
        } else if (vh_is("ISSEP")) {
            long long r[256];
            for (int i = 0; i < 256; ++i) {
                r[i] = aws_is_any_directory_separator((char)i) ? 1 : 0;
            }
            vh_begin("IsSepAll");
            vh_ints("res", r, 256);
            vh_end();
        } else if (vh_is("PLATSEP")) {
            vh_begin("PlatSep");
            vh_int("res", (unsigned char)aws_get_platform_directory_separator());
            vh_end();
        } else if (vh_is("NORMALIZE")) {
            size_t cap = strlen(vh_args(1)) / 2 + 1;
            uint8_t *tmp = malloc(cap);
            size_t n = unhex(vh_args(1), tmp, cap);
            uint8_t *exact = malloc(n ? n : 1);
            memcpy(exact, tmp, n);
            struct aws_byte_buf b = aws_byte_buf_from_array(exact, n);
            vh_begin("Normalize");
            vh_bytes("in", exact, n);
            aws_normalize_directory_separator(&b);
            vh_bytes("out", b.buffer, b.len);
            vh_int("cap", (long long)b.capacity);
            vh_end();
            free(exact);
            free(tmp);
        }
    }
    close_handles();
    if (chdir(base) == 0 && sbase_len) {
        rm_rf(sbase);
    }
    for (int i = 0; i < NENV; ++i) {
        char nm[64];
        env_name(ENVIDS[i], nm, sizeof(nm));
        unsetenv(nm);
    }
    if (saved_home) {
        setenv("HOME", saved_home, 1);
    }
    vh_begin("End");
    vh_int("live", (long long)vh_live_blocks);
    vh_end();
    fclose(vh_out);
    return 0;
}
