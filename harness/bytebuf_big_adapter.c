/* C01, large sizes (spec/ByteBuf/BigBuf.tla): the growing / copying calls of aws_byte_buf on buffers of kilobytes to
 * tens of megabytes.  Dumb adapter: applies one call per script line to the real API and projects the state of both
 * buffers after every call: alive, len, capacity and the bytes [0, len) as maximal runs [value, count].
 * Every source cursor and every backing store is an exact-size heap block (ASan sees one byte over).
 * Script lines:
 *   RESET
 *   INIT b n | APP b v n | APPD b v n sec | SELF b off n sec | RESV b abs|rel n | COPY d s | WU8N b v n
 *   RST b zero | CLEAN b sec | END */
#include "vh_core.h"

#include <aws/common/byte_buf.h>

#define NB 2
#define MAXRUNS 4000
static struct aws_byte_buf B[NB + 1];
static bool alive[NB + 1];

static size_t rel0, relnz0;
static void rel_begin(void) {
    rel0 = vh_total_releases;
    relnz0 = vh_nonzero_releases;
}

static void log_state(void) {
    vh_arr_begin("s");
    for (int i = 1; i <= NB; ++i) {
        vh_obj_begin(NULL);
        vh_int("al", alive[i] ? 1 : 0);
        vh_int("len", (long long)B[i].len);
        vh_int("cap", (long long)B[i].capacity);
        vh_arr_begin("runs");
        size_t n = alive[i] && B[i].buffer ? B[i].len : 0, j = 0;
        int runs = 0;
        while (j < n && runs < MAXRUNS) {
            size_t k = j + 1;
            while (k < n && B[i].buffer[k] == B[i].buffer[j]) {
                ++k;
            }
            vh_sep(); /* anonymous inner array [value, count] */
            fputc('[', vh_out);
            vh_first_field = 1;
            vh_raw_int(B[i].buffer[j]);
            vh_raw_int((long long)(k - j));
            vh_arr_end();
            j = k;
            ++runs;
        }
        vh_arr_end();
        vh_obj_end();
    }
    vh_arr_end();
}
static void finish(int sec) {
    vh_int("sec", sec);
    vh_int("relnz", (long long)(vh_nonzero_releases - relnz0));
    log_state();
    vh_end();
}
static int argb(int i) {
    long long b = vh_argi(i);
    return (b >= 1 && b <= NB) ? (int)b : 1;
}
static uint8_t *filled(uint8_t v, size_t n) {
    uint8_t *p = malloc(n ? n : 1);
    memset(p, v, n);
    return p;
}

int main(int argc, char **argv) {
    if (argc < 3) {
        return 3;
    }
    FILE *in = fopen(argv[1], "r");
    vh_open(argv[2]);
    vh_install_handlers(300);
    struct aws_allocator *A = vh_alloc();
    while (vh_next(in)) {
        if (vh_is("RESET")) {
            for (int i = 1; i <= NB; ++i) {
                if (alive[i]) {
                    aws_byte_buf_clean_up(&B[i]);
                }
                AWS_ZERO_STRUCT(B[i]);
                alive[i] = false;
            }
            vh_begin("Reset");
            vh_end();
            continue;
        }
        if (vh_is("END")) {
            break;
        }
        rel_begin();
        if (vh_is("INIT")) {
            int b = argb(1);
            size_t n = (size_t)vh_argu(2);
            int rc = aws_byte_buf_init(&B[b], A, n);
            alive[b] = rc == AWS_OP_SUCCESS;
            vh_begin("Init");
            vh_int("b", b);
            vh_int("n", (long long)n);
            vh_rc(rc);
            finish(0);
        } else if (vh_is("APP") || vh_is("APPD")) {
            bool dyn = vh_is("APPD");
            int b = argb(1);
            uint8_t v = (uint8_t)vh_argi(2);
            size_t n = (size_t)vh_argu(3);
            int sec = dyn ? (int)vh_argi(4) : 0;
            uint8_t *src = filled(v, n);
            struct aws_byte_cursor c = aws_byte_cursor_from_array(src, n);
            int rc = !dyn ? aws_byte_buf_append(&B[b], &c)
                          : (sec ? aws_byte_buf_append_dynamic_secure(&B[b], &c) : aws_byte_buf_append_dynamic(&B[b], &c));
            free(src);
            vh_begin(dyn ? "AppendDynamic" : "Append");
            vh_int("b", b);
            vh_int("v", v);
            vh_int("n", (long long)n);
            vh_rc(rc);
            finish(sec);
        } else if (vh_is("SELF")) {
            int b = argb(1);
            size_t off = (size_t)vh_argu(2), n = (size_t)vh_argu(3);
            int sec = (int)vh_argi(4);
            struct aws_byte_cursor c = aws_byte_cursor_from_array(B[b].buffer + off, n);
            int rc = sec ? aws_byte_buf_append_dynamic_secure(&B[b], &c) : aws_byte_buf_append_dynamic(&B[b], &c);
            vh_begin("AppendSelf");
            vh_int("b", b);
            vh_int("off", (long long)off);
            vh_int("n", (long long)n);
            vh_rc(rc);
            finish(sec);
        } else if (vh_is("RESV")) {
            int b = argb(1);
            bool rel = strcmp(vh_args(2), "rel") == 0;
            size_t n = (size_t)vh_argu(3);
            int rc = rel ? aws_byte_buf_reserve_relative(&B[b], n) : aws_byte_buf_reserve(&B[b], n);
            vh_begin("Reserve");
            vh_int("b", b);
            vh_str("kind", rel ? "rel" : "abs");
            vh_int("n", (long long)n);
            vh_rc(rc);
            finish(0);
        } else if (vh_is("COPY")) {
            int d = argb(1), s = argb(2);
            int rc = aws_byte_buf_init_copy(&B[d], A, &B[s]);
            alive[d] = rc == AWS_OP_SUCCESS;
            vh_begin("InitCopy");
            vh_int("d", d);
            vh_int("sb", s);
            vh_rc(rc);
            finish(0);
        } else if (vh_is("WU8N")) {
            int b = argb(1);
            uint8_t v = (uint8_t)vh_argi(2);
            size_t n = (size_t)vh_argu(3);
            bool ok = aws_byte_buf_write_u8_n(&B[b], v, n);
            vh_begin("WriteU8N");
            vh_int("b", b);
            vh_int("v", v);
            vh_int("n", (long long)n);
            vh_int("ok", ok ? 1 : 0);
            finish(0);
        } else if (vh_is("RST")) {
            int b = argb(1);
            aws_byte_buf_reset(&B[b], vh_argi(2) != 0);
            vh_begin("ResetBuf");
            vh_int("b", b);
            finish(0);
        } else if (vh_is("CLEAN")) {
            int b = argb(1);
            int sec = (int)vh_argi(2);
            if (sec) {
                aws_byte_buf_clean_up_secure(&B[b]);
            } else {
                aws_byte_buf_clean_up(&B[b]);
            }
            alive[b] = false;
            vh_begin("CleanUp");
            vh_int("b", b);
            finish(sec);
        }
    }
    for (int i = 1; i <= NB; ++i) {
        if (alive[i]) {
            aws_byte_buf_clean_up(&B[i]);
        }
    }
    vh_begin("End");
    vh_int("live", (long long)vh_live_blocks);
    vh_end();
    return 0;
}
