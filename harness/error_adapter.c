/* X02 adapter: error handling of aws-c-common (aws/common/error.h) driven by a script.
 *
 * Every call is made on one of NT real helper threads (one at a time: the main thread hands the call over and
 * waits), so that the per-thread last error and the thread-local handler are observable. After every call the
 * adapter reports the arguments, the results, the handler invocations that happened during the call and
 * aws_last_error() as each helper thread sees it. It holds no expected values.
 *
 * Each execution (RESET .. next RESET/END) runs in its own forked child: handlers, registrations and thread-local
 * state of one execution can never leak into the next one, whatever the library does.
 *
 * Script lines (t = thread 1..NT):
 *   RESET
 *   RAISE t err | RESTORE t err | CLEAR t | LAST t
 *   SETG t h c | SETL t h c          h = 0 (NULL) or handler function 1..NH, c = 0 (NULL) or user-data cell 1..NC
 *   XLAT t errno | XLATOR t errno fallback
 *   REG t slot variant count | UNREG t slot variant count     list with names E<slot>v<variant>_<i>
 *   LOOKUP t code...
 *   SPAWN t                           thread t ends, a new thread takes its place
 */
#include "vh_core.h"

#include <aws/common/package.h>

#include <pthread.h>
#include <sys/wait.h>

#define NT 3
#define NH 3
#define NC 3
#define MAXCALLS 16
#define MAXLOOK 64

/* ------------------------------------------------------------------ handler invocations */
struct call {
    int h, c, err, le, t;
};
static struct call calls[MAXCALLS];
static int ncalls, ncalls_total;
static __thread int tl_me; /* which helper thread am I */
static int cells[NC + 1];  /* user data cells: the handler receives &cells[c] */

static int cell_of(void *p) {
    if (p == NULL) {
        return 0;
    }
    for (int i = 1; i <= NC; ++i) {
        if (p == &cells[i]) {
            return i;
        }
    }
    return -1;
}
static void record(int h, int err, void *ctx) {
    ncalls_total++;
    if (ncalls < MAXCALLS) {
        struct call *k = &calls[ncalls++];
        k->h = h;
        k->c = cell_of(ctx);
        k->err = err;
        k->le = aws_last_error();
        k->t = tl_me;
    }
}
static void hf1(int err, void *ctx) {
    record(1, err, ctx);
}
static void hf2(int err, void *ctx) {
    record(2, err, ctx);
}
static void hf3(int err, void *ctx) {
    record(3, err, ctx);
}
static aws_error_handler_fn *const hfs[NH + 1] = {NULL, hf1, hf2, hf3};
static int handler_of(aws_error_handler_fn *f) {
    for (int i = 0; i <= NH; ++i) {
        if (f == hfs[i]) {
            return i;
        }
    }
    return -1;
}

/* ------------------------------------------------------------------ error-info lists (built on demand, kept) */
struct xlist {
    int slot, variant, count;
    struct aws_error_info_list list;
    struct xlist *next;
};
static struct xlist *lists;

static char *dupf(const char *fmt, ...) {
    char buf[160];
    va_list ap;
    va_start(ap, fmt);
    vsnprintf(buf, sizeof(buf), fmt, ap);
    va_end(ap);
    size_t n = strlen(buf) + 1;
    char *p = malloc(n); /* exact size */
    memcpy(p, buf, n);
    return p;
}
static const struct aws_error_info_list *get_list(int slot, int variant, int count) {
    for (struct xlist *x = lists; x; x = x->next) {
        if (x->slot == slot && x->variant == variant && x->count == count) {
            return &x->list;
        }
    }
    struct xlist *x = malloc(sizeof(*x));
    x->slot = slot;
    x->variant = variant;
    x->count = count;
    /* exact-size array: reading entry [count] is a heap overflow that ASan reports */
    struct aws_error_info *arr = malloc(sizeof(struct aws_error_info) * (size_t)count);
    for (int i = 0; i < count; ++i) {
        arr[i].error_code = (int)AWS_ERROR_ENUM_BEGIN_RANGE(slot) + i;
        arr[i].literal_name = dupf("E%dv%d_%d", slot, variant, i);
        arr[i].error_str = dupf("S%dv%d_%d", slot, variant, i);
        arr[i].lib_name = dupf("L%dv%d", slot, variant);
        /* same shape as AWS_DEFINE_ERROR_INFO: LN ": " #C ", " ES */
        arr[i].formatted_name = dupf("%s: %s, %s", arr[i].lib_name, arr[i].literal_name, arr[i].error_str);
    }
    x->list.error_list = arr;
    x->list.count = (uint16_t)count;
    x->next = lists;
    lists = x;
    return &x->list;
}

/* ------------------------------------------------------------------ helper threads: one call at a time */
enum jop { J_RAISE, J_RESTORE, J_CLEAR, J_LAST, J_SETG, J_SETL, J_XLAT, J_XLATOR, J_REG, J_UNREG, J_LOOKUP };
struct job {
    enum jop op;
    long long a, b, c;
    int rc, res, prev;
    int ncodes;
    int codes[MAXLOOK];
    const char *names[MAXLOOK], *strs[MAXLOOK], *libs[MAXLOOK], *dbgs[MAXLOOK];
};
struct worker {
    pthread_t th;
    int id;
    int state; /* 0 idle, 1 job pending, 2 quit */
    struct job *job;
};
static struct worker W[NT + 1];
static pthread_mutex_t mu = PTHREAD_MUTEX_INITIALIZER;
static pthread_cond_t cv = PTHREAD_COND_INITIALIZER;

static void do_job(struct job *j) {
    switch (j->op) {
        case J_RAISE:
            j->rc = aws_raise_error((int)j->a);
            break;
        case J_RESTORE:
            aws_restore_error((int)j->a);
            break;
        case J_CLEAR:
            aws_reset_error();
            break;
        case J_LAST:
            break;
        case J_SETG:
            j->prev = handler_of(aws_set_global_error_handler_fn(hfs[j->a], j->b ? &cells[j->b] : NULL));
            break;
        case J_SETL:
            j->prev = handler_of(aws_set_thread_local_error_handler_fn(hfs[j->a], j->b ? &cells[j->b] : NULL));
            break;
        case J_XLAT:
            j->rc = aws_translate_and_raise_io_error((int)j->a);
            break;
        case J_XLATOR:
            j->rc = aws_translate_and_raise_io_error_or((int)j->a, (int)j->b);
            break;
        case J_REG:
            aws_register_error_info(get_list((int)j->a, (int)j->b, (int)j->c));
            break;
        case J_UNREG:
            aws_unregister_error_info(get_list((int)j->a, (int)j->b, (int)j->c));
            break;
        case J_LOOKUP:
            for (int i = 0; i < j->ncodes; ++i) {
                j->names[i] = aws_error_name(j->codes[i]);
                j->strs[i] = aws_error_str(j->codes[i]);
                j->libs[i] = aws_error_lib_name(j->codes[i]);
                j->dbgs[i] = aws_error_debug_str(j->codes[i]);
            }
            break;
    }
    j->res = aws_last_error();
}
static void *worker_main(void *arg) {
    struct worker *w = arg;
    tl_me = w->id;
    pthread_mutex_lock(&mu);
    for (;;) {
        while (w->state == 0) {
            pthread_cond_wait(&cv, &mu);
        }
        if (w->state == 2) {
            break;
        }
        struct job *j = w->job;
        pthread_mutex_unlock(&mu);
        do_job(j);
        pthread_mutex_lock(&mu);
        w->state = 0;
        pthread_cond_broadcast(&cv);
    }
    pthread_mutex_unlock(&mu);
    return NULL;
}
static void start_worker(int t) {
    W[t].id = t;
    W[t].state = 0;
    W[t].job = NULL;
    if (pthread_create(&W[t].th, NULL, worker_main, &W[t])) {
        perror("pthread_create");
        exit(3);
    }
}
static void stop_worker(int t) {
    pthread_mutex_lock(&mu);
    W[t].state = 2;
    pthread_cond_broadcast(&cv);
    pthread_mutex_unlock(&mu);
    pthread_join(W[t].th, NULL);
}
static void run_on(int t, struct job *j) {
    pthread_mutex_lock(&mu);
    W[t].job = j;
    W[t].state = 1;
    pthread_cond_broadcast(&cv);
    while (W[t].state == 1) {
        pthread_cond_wait(&cv, &mu);
    }
    pthread_mutex_unlock(&mu);
}

/* ------------------------------------------------------------------ projection */
static void out_strs(const char *k, const char **v, int n) {
    vh_arr_begin(k);
    for (int i = 0; i < n; ++i) {
        vh_sep();
        fputc('"', vh_out);
        for (const unsigned char *p = (const unsigned char *)(v[i] ? v[i] : "<NULL>"); *p; ++p) {
            if (*p == '"' || *p == '\\') {
                fprintf(vh_out, "\\%c", *p);
            } else if (*p < 0x20 || *p >= 0x7f) {
                fprintf(vh_out, "\\u%04x", *p);
            } else {
                fputc(*p, vh_out);
            }
        }
        fputc('"', vh_out);
    }
    vh_arr_end();
}
/* handler invocations since the previous event, then aws_last_error() of every thread */
static void tail(void) {
    vh_arr_begin("calls");
    for (int i = 0; i < ncalls; ++i) {
        vh_obj_begin(NULL);
        vh_int("h", calls[i].h);
        vh_int("c", calls[i].c);
        vh_int("err", calls[i].err);
        vh_int("le", calls[i].le);
        vh_int("t", calls[i].t);
        vh_obj_end();
    }
    vh_arr_end();
    vh_int("ncalls", ncalls_total);
    ncalls = 0;
    ncalls_total = 0;
    long long le[NT];
    for (int t = 1; t <= NT; ++t) {
        struct job j = {.op = J_LAST};
        run_on(t, &j);
        le[t - 1] = j.res;
    }
    vh_obj_begin("s");
    vh_ints("le", le, NT);
    vh_obj_end();
}
static int arg_thread(int i) {
    int t = (int)vh_argi(i);
    if (t < 1 || t > NT) {
        fprintf(stderr, "script: bad thread %d\n", t);
        exit(3);
    }
    return t;
}
static int arg_range(int i, int lo, int hi) {
    long long v = vh_argi(i);
    if (v < lo || v > hi) {
        fprintf(stderr, "script: argument %d of %s out of range\n", i, vh_tok[0]);
        exit(3);
    }
    return (int)v;
}

/* runs one execution: lines from offset `off` (a RESET line) up to the next RESET / END */
static void run_execution(const char *path, long off) {
    FILE *in = fopen(path, "r");
    if (!in || fseek(in, off, SEEK_SET)) {
        perror(path);
        exit(3);
    }
    bool started = false;
    while (vh_next(in)) {
        if (vh_is("RESET")) {
            if (started) {
                break;
            }
            started = true;
            for (int t = 1; t <= NT; ++t) {
                start_worker(t);
            }
            vh_begin("Reset");
            vh_int("operr", AWS_OP_ERR);
            vh_int("sysfail", AWS_ERROR_SYS_CALL_FAILURE);
            vh_int("stride", AWS_ERROR_ENUM_STRIDE);
            vh_int("slots", AWS_PACKAGE_SLOTS);
            tail();
            vh_end();
            continue;
        }
        if (vh_is("END") || !started) {
            break;
        }
        int t = arg_thread(1);
        struct job j;
        memset(&j, 0, sizeof(j));
        if (vh_is("RAISE")) {
            j.op = J_RAISE;
            j.a = vh_argi(2);
            run_on(t, &j);
            vh_begin("Raise");
            vh_int("t", t);
            vh_int("err", j.a);
            vh_int("rc", j.rc);
        } else if (vh_is("RESTORE")) {
            j.op = J_RESTORE;
            j.a = vh_argi(2);
            run_on(t, &j);
            vh_begin("Restore");
            vh_int("t", t);
            vh_int("err", j.a);
        } else if (vh_is("CLEAR")) {
            j.op = J_CLEAR;
            run_on(t, &j);
            vh_begin("ResetErr");
            vh_int("t", t);
        } else if (vh_is("LAST")) {
            j.op = J_LAST;
            run_on(t, &j);
            vh_begin("Last");
            vh_int("t", t);
            vh_int("res", j.res);
        } else if (vh_is("SETG") || vh_is("SETL")) {
            bool g = vh_is("SETG");
            j.op = g ? J_SETG : J_SETL;
            j.a = arg_range(2, 0, NH);
            j.b = arg_range(3, 0, NC);
            run_on(t, &j);
            vh_begin(g ? "SetGlobal" : "SetLocal");
            vh_int("t", t);
            vh_int("h", j.a);
            vh_int("c", j.b);
            vh_int("prev", j.prev);
        } else if (vh_is("XLAT")) {
            j.op = J_XLAT;
            j.a = vh_argi(2);
            run_on(t, &j);
            vh_begin("Xlat");
            vh_int("t", t);
            vh_int("eno", j.a);
            vh_int("res", j.res);
            vh_int("rc", j.rc);
        } else if (vh_is("XLATOR")) {
            j.op = J_XLATOR;
            j.a = vh_argi(2);
            j.b = vh_argi(3);
            run_on(t, &j);
            vh_begin("XlatOr");
            vh_int("t", t);
            vh_int("eno", j.a);
            vh_int("fb", j.b);
            vh_int("res", j.res);
            vh_int("rc", j.rc);
        } else if (vh_is("REG") || vh_is("UNREG")) {
            bool r = vh_is("REG");
            j.op = r ? J_REG : J_UNREG;
            j.a = arg_range(2, 1, AWS_PACKAGE_SLOTS - 1);
            j.b = arg_range(3, 0, 99);
            j.c = arg_range(4, 1, AWS_ERROR_ENUM_STRIDE);
            run_on(t, &j);
            vh_begin(r ? "Reg" : "Unreg");
            vh_int("t", t);
            vh_int("slot", j.a);
            vh_int("v", j.b);
            vh_int("n", j.c);
        } else if (vh_is("LOOKUP")) {
            j.op = J_LOOKUP;
            for (int i = 2; i < vh_ntok && j.ncodes < MAXLOOK; ++i) {
                j.codes[j.ncodes++] = (int)vh_argi(i);
            }
            run_on(t, &j);
            long long codes[MAXLOOK];
            for (int i = 0; i < j.ncodes; ++i) {
                codes[i] = j.codes[i];
            }
            vh_begin("Lookup");
            vh_int("t", t);
            vh_ints("codes", codes, (size_t)j.ncodes);
            out_strs("names", j.names, j.ncodes);
            out_strs("strs", j.strs, j.ncodes);
            out_strs("libs", j.libs, j.ncodes);
            out_strs("dbgs", j.dbgs, j.ncodes);
        } else if (vh_is("SPAWN")) {
            stop_worker(t);
            start_worker(t);
            vh_begin("Spawn");
            vh_int("t", t);
        } else {
            fprintf(stderr, "script: unknown op %s\n", vh_tok[0]);
            exit(3);
        }
        tail();
        vh_end();
    }
    if (started) {
        for (int t = 1; t <= NT; ++t) {
            stop_worker(t);
        }
    }
    fclose(in);
}

int main(int argc, char **argv) {
    if (argc < 3) {
        return 3;
    }
    vh_open(argv[2]);
    vh_install_handlers(120);
    /* offsets of the RESET lines */
    FILE *in = fopen(argv[1], "r");
    if (!in) {
        perror(argv[1]);
        return 3;
    }
    long *offs = NULL;
    size_t noffs = 0, cap = 0;
    char *line = NULL;
    size_t lcap = 0;
    for (;;) {
        long pos = ftell(in);
        if (getline(&line, &lcap, in) < 0) {
            break;
        }
        if (strncmp(line, "RESET", 5) == 0) {
            if (noffs == cap) {
                cap = cap ? cap * 2 : 64;
                offs = realloc(offs, cap * sizeof(long));
            }
            offs[noffs++] = pos;
        }
    }
    free(line);
    fclose(in);
    for (size_t k = 0; k < noffs; ++k) {
        fflush(vh_out);
        pid_t pid = fork();
        if (pid < 0) {
            perror("fork");
            return 3;
        }
        if (pid == 0) {
            alarm(60);
            run_execution(argv[1], offs[k]);
            fflush(vh_out);
            VH_COV_FLUSH();
            _exit(7); /* 7 = the execution ran to its end; anything else is a death */
        }
        int st = 0;
        if (waitpid(pid, &st, 0) < 0) {
            perror("waitpid");
            return 3;
        }
        if (!(WIFEXITED(st) && WEXITSTATUS(st) == 7)) {
            /* the child normally wrote a Died line itself (signal / sanitizer report / watchdog); make sure one exists */
            if (WIFEXITED(st) && WEXITSTATUS(st) == 3) {
                return 3; /* script error */
            }
            fseek(vh_out, 0, SEEK_END);
            fprintf(vh_out, "\n{\"e\":\"Died\",\"sig\":%d}\n", WIFSIGNALED(st) ? WTERMSIG(st) : 6);
            fflush(vh_out);
            free(offs);
            return 0;
        }
        fseek(vh_out, 0, SEEK_END);
    }
    free(offs);
    vh_begin("End");
    vh_int("live", (long long)vh_live_blocks);
    vh_end();
    fclose(vh_out);
    return 0;
}
