/* C09 adapter (array list half): two aws_array_list objects of one element size driven by a script; after every
 * call reports rc/err, and length, capacity and every element (read back through aws_array_list_get_at into an
 * exact-size scratch block) of both lists. No expected values live here. */
#include "vh_core.h"

#include <aws/common/array_list.h>

static struct aws_array_list L[3]; /* 1, 2 */
static bool is_static[3];
static void *storage[3];
static bool live;
static size_t isz;
static uint8_t *scratch; /* exact item size */
static size_t base_blocks;

/* element layout: [0]=value, [1]=id (isz==2) or [1..2]=id (isz>=3), rest = pattern derived from id and position */
static void fill(uint8_t *e, int v, int id) {
    e[0] = (uint8_t)v;
    if (isz == 2) {
        e[1] = (uint8_t)id;
    } else if (isz >= 3) {
        e[1] = (uint8_t)(id & 0xff);
        e[2] = (uint8_t)(id >> 8);
        for (size_t i = 3; i < isz; ++i) {
            e[i] = (uint8_t)(id * 7 + i * 13);
        }
    }
}
static int id_of(const uint8_t *e) {
    if (isz == 1) {
        return 0;
    }
    if (isz == 2) {
        return e[1];
    }
    return e[1] | (e[2] << 8);
}
static int pat_ok(const uint8_t *e) {
    if (isz < 3) {
        return 1;
    }
    int id = id_of(e);
    for (size_t i = 3; i < isz; ++i) {
        if (e[i] != (uint8_t)(id * 7 + i * 13)) {
            return 0;
        }
    }
    return 1;
}
static int cmp(const void *a, const void *b) {
    uint8_t x = *(const uint8_t *)a, y = *(const uint8_t *)b;
    return x < y ? -1 : (x > y ? 1 : 0);
}
/* the same order through comparators of the other shapes callers write: a plain difference, a scaled one, +-2 */
static int cmp_diff(const void *a, const void *b) {
    return (int)*(const uint8_t *)a - (int)*(const uint8_t *)b;
}
static int cmp_scaled(const void *a, const void *b) {
    return ((int)*(const uint8_t *)a - (int)*(const uint8_t *)b) * 1000;
}
static int cmp_two(const void *a, const void *b) {
    uint8_t x = *(const uint8_t *)a, y = *(const uint8_t *)b;
    return x < y ? -2 : (x > y ? 2 : 0);
}
static void arr_open(const char *k) { /* k == NULL: anonymous array inside an array */
    if (k) {
        vh_arr_begin(k);
    } else {
        vh_sep();
        fputc('[', vh_out);
        vh_first_field = 1;
    }
}
static void elem(const char *k, const uint8_t *e) {
    arr_open(k);
    vh_raw_int(e[0]);
    vh_raw_int(id_of(e));
    vh_raw_int(pat_ok(e));
    vh_arr_end();
}
#define DUMP_MAX 64
static void state(void) {
    vh_obj_begin("s");
    long long len[2], cap[2];
    for (int k = 1; k <= 2; ++k) {
        len[k - 1] = (long long)aws_array_list_length(&L[k]);
        cap[k - 1] = (long long)aws_array_list_capacity(&L[k]);
        if (len[k - 1] < 0 || len[k - 1] > 1000000) {
            len[k - 1] = -1; /* absurd (wrapped) length: report as such, do not walk it */
        }
        if (cap[k - 1] < 0 || cap[k - 1] > 1000000) {
            cap[k - 1] = -1;
        }
    }
    vh_ints("len", len, 2);
    vh_ints("cap", cap, 2);
    vh_arr_begin("x");
    for (int k = 1; k <= 2; ++k) {
        arr_open(NULL);
        for (long long i = 0; i < len[k - 1] && i < DUMP_MAX; ++i) {
            memset(scratch, 0xEE, isz);
            if (aws_array_list_get_at(&L[k], scratch, (size_t)i)) {
                memset(scratch, 0xFF, isz); /* an element inside the length that cannot be read */
            }
            elem(NULL, scratch);
        }
        vh_arr_end();
    }
    vh_arr_end();
    vh_obj_end();
}
/* "packed" mode (RESET ... packed): the dynamic lists live in an allocator that hands out blocks back to back, without
 * headers, padding or red zones (an arena; the library's own small-block allocator behaves like this within a size class), and
 * the element handed to push / set_at is a block of the same arena, taken right before the call and given back after it -
 * so it lies directly behind whatever the arena handed out last, typically the list's own storage. */
#define PK_ARENA (4u << 20)
#define PK_MAXBLK 4096
static uint8_t *pk_base, *pk_tip;
static struct {
    uint8_t *p;
    size_t n;
    bool freed;
} pk_blk[PK_MAXBLK];
static int pk_n;
static bool packed;
static void *pk_acquire(struct aws_allocator *al, size_t n) {
    (void)al;
    if (pk_n >= PK_MAXBLK || pk_tip + n > pk_base + PK_ARENA) {
        fprintf(stderr, "packed arena exhausted\n");
        exit(3);
    }
    pk_blk[pk_n].p = pk_tip;
    pk_blk[pk_n].n = n;
    pk_blk[pk_n].freed = false;
    pk_n++;
    pk_tip += n;
    return pk_tip - n;
}
static void pk_release(struct aws_allocator *al, void *p) {
    (void)al;
    for (int i = pk_n - 1; i >= 0; --i) {
        if (pk_blk[i].p == p && !pk_blk[i].freed) {
            pk_blk[i].freed = true;
            memset(p, 0xDD, pk_blk[i].n);
            break;
        }
    }
    while (pk_n > 0 && pk_blk[pk_n - 1].freed) { /* the tip rolls back over released blocks */
        pk_n--;
        pk_tip = pk_blk[pk_n].p;
    }
}
static struct aws_allocator pk_allocator = {.mem_acquire = pk_acquire, .mem_release = pk_release};
/* the element for a storing call: the exact-size scratch block, or in packed mode a fresh arena block */
static uint8_t *val_begin(void) {
    return packed ? pk_acquire(NULL, isz) : scratch;
}
static void val_end(uint8_t *v) {
    if (packed) {
        pk_release(NULL, v);
    }
}
static void teardown(void) {
    if (live) {
        for (int k = 1; k <= 2; ++k) {
            aws_array_list_clean_up(&L[k]);
            free(storage[k]);
            storage[k] = NULL;
        }
        free(scratch);
        scratch = NULL;
        live = false;
    }
}
/* index token: number | MAX (SIZE_MAX) | QOV (SIZE_MAX / item_size: (i+1)*item_size overflows) | QM1 (QOV-1: fits) |
 * WR<k> (QOV+1+k: i*item_size wraps around to less than (k+1)*item_size) */
static size_t idx_arg(int i, long long *sym) {
    const char *t = vh_args(i);
    if (!strcmp(t, "MAX")) {
        *sym = -1;
        return SIZE_MAX;
    }
    if (!strcmp(t, "QOV")) {
        *sym = -1;
        return isz == 1 ? SIZE_MAX : SIZE_MAX / isz;
    }
    if (t[0] == 'W' && t[1] == 'R') {
        /* the smallest counts whose byte size wraps around size_t to something small: ceil(2^64 / item_size) + k */
        *sym = -1;
        return isz == 1 ? SIZE_MAX : SIZE_MAX / isz + 1 + (size_t)atoi(t + 2); /* 1-byte items: nothing wraps */
    }
    if (!strcmp(t, "QM1")) {
        *sym = -2;
        return SIZE_MAX / isz - 1;
    }
    *sym = vh_argi(i);
    return (size_t)*sym;
}
static void head(const char *name, int l) {
    vh_begin(name);
    vh_int("l", l);
}

int main(int argc, char **argv) {
    if (argc < 3) {
        return 3;
    }
    FILE *in = fopen(argv[1], "r");
    vh_open(argv[2]);
    vh_install_handlers(120);
    while (vh_next(in)) {
        if (vh_is("RESET")) { /* RESET isz mode1 cap1 mode2 cap2 */
            teardown();
            base_blocks = vh_live_blocks;
            isz = (size_t)vh_argi(1);
            scratch = malloc(isz);
            packed = vh_ntok > 6 && !strcmp(vh_args(6), "packed");
            if (!pk_base) {
                pk_base = malloc(PK_ARENA);
            }
            pk_tip = pk_base;
            pk_n = 0;
            long long caps[2];
            for (int k = 1; k <= 2; ++k) {
                is_static[k] = strcmp(vh_args(2 * k), "static") == 0;
                size_t cap = (size_t)vh_argi(2 * k + 1);
                caps[k - 1] = (long long)cap;
                if (is_static[k]) {
                    storage[k] = malloc(cap * isz); /* exact size: ASan sees a one-byte overrun */
                    memset(storage[k], 0xA5, cap * isz);
                    aws_array_list_init_static(&L[k], storage[k], cap, isz);
                } else {
                    aws_array_list_init_dynamic(&L[k], packed ? &pk_allocator : vh_alloc(), cap, isz);
                }
            }
            live = true;
            vh_begin("Reset");
            vh_int("isz", (long long)isz);
            vh_arr_begin("m");
            for (int k = 1; k <= 2; ++k) {
                vh_sep();
                fprintf(vh_out, "\"%s\"", is_static[k] ? "static" : "dyn");
            }
            vh_arr_end();
            vh_ints("c", caps, 2);
            state();
            vh_end();
            continue;
        }
        if (vh_is("END")) {
            continue;
        }
        if (vh_is("FIN")) {
            teardown();
            vh_begin("Fin"); /* blocks acquired during this execution and never released: evidence only */
            vh_int("leaked", (long long)vh_live_blocks - (long long)base_blocks);
            vh_end();
            continue;
        }
        if (!live) {
            continue;
        }
        if (vh_is("SWAPC")) {
            if (is_static[1] || is_static[2]) {
                continue; /* API precondition: both dynamic */
            }
            aws_array_list_swap_contents(&L[1], &L[2]);
            vh_begin("SwapContents");
            state();
            vh_end();
            continue;
        }
        int l = (int)vh_argi(1);
        struct aws_array_list *a = &L[l];
        long long sym = 0;
        if (vh_is("PUSHB") || vh_is("PUSHF")) {
            int back = vh_is("PUSHB");
            uint8_t *val = val_begin();
            fill(val, (int)vh_argi(2), (int)vh_argi(3));
            int rc = back ? aws_array_list_push_back(a, val) : aws_array_list_push_front(a, val);
            head(back ? "PushBack" : "PushFront", l);
            vh_int("v", val[0]);
            vh_int("id", id_of(val));
            vh_rc(rc);
            val_end(val);
        } else if (vh_is("POPB")) {
            int rc = aws_array_list_pop_back(a);
            head("PopBack", l);
            vh_rc(rc);
        } else if (vh_is("POPF")) {
            int rc = aws_array_list_pop_front(a);
            head("PopFront", l);
            vh_rc(rc);
        } else if (vh_is("POPN")) {
            size_t n = idx_arg(2, &sym);
            aws_array_list_pop_front_n(a, n);
            head("PopFrontN", l);
            vh_int("i", sym);
        } else if (vh_is("SET")) {
            size_t i = idx_arg(2, &sym);
            if (sym == -2 && !is_static[l]) {
                continue; /* a dynamic list would try to allocate nearly SIZE_MAX bytes: outside the environment */
            }
            uint8_t *val = val_begin();
            fill(val, (int)vh_argi(3), (int)vh_argi(4));
            int rc = aws_array_list_set_at(a, val, i);
            head("SetAt", l);
            vh_int("i", sym);
            vh_int("v", val[0]);
            vh_int("id", id_of(val));
            vh_rc(rc);
            val_end(val);
        } else if (vh_is("GET") || vh_is("FRONT") || vh_is("BACK")) {
            int rc;
            memset(scratch, 0xEE, isz);
            if (vh_is("GET")) {
                size_t i = idx_arg(2, &sym);
                rc = aws_array_list_get_at(a, scratch, i);
                head("GetAt", l);
                vh_int("i", sym);
            } else if (vh_is("FRONT")) {
                rc = aws_array_list_front(a, scratch);
                head("Front", l);
            } else {
                rc = aws_array_list_back(a, scratch);
                head("Back", l);
            }
            vh_rc(rc);
            if (rc) {
                memset(scratch, 0, isz);
                long long z[3] = {0, 0, 0};
                vh_ints("x", z, 3);
            } else {
                elem("x", scratch);
            }
        } else if (vh_is("ERASE")) {
            size_t i = idx_arg(2, &sym);
            int rc = aws_array_list_erase(a, i);
            head("Erase", l);
            vh_int("i", sym);
            vh_rc(rc);
        } else if (vh_is("SWAP")) {
            size_t x = (size_t)vh_argi(2), y = (size_t)vh_argi(3);
            if (x >= aws_array_list_length(a) || y >= aws_array_list_length(a)) {
                continue; /* API precondition: both indices within the bounds of the array */
            }
            aws_array_list_swap(a, x, y);
            head("Swap", l);
            vh_int("a", (long long)x);
            vh_int("b", (long long)y);
        } else if (vh_is("SORT")) {
            const char *shape = vh_ntok > 2 ? vh_args(2) : "3way";
            aws_array_list_sort(a, !strcmp(shape, "diff") ? cmp_diff : !strcmp(shape, "scaled") ? cmp_scaled : !strcmp(shape, "two") ? cmp_two : cmp);
            head("Sort", l);
        } else if (vh_is("COPY")) { /* COPY from : into the other list */
            if (aws_array_list_capacity(a) == 0) {
                continue; /* API precondition (fatal assert): the source owns storage */
            }
            int rc = aws_array_list_copy(a, &L[3 - l]);
            head("Copy", l);
            vh_rc(rc);
        } else if (vh_is("SHRINK")) {
            int rc = aws_array_list_shrink_to_fit(a);
            head("Shrink", l);
            vh_rc(rc);
        } else if (vh_is("CLEAR")) {
            aws_array_list_clear(a);
            head("Clear", l);
        } else if (vh_is("ENSURE")) {
            size_t i = idx_arg(2, &sym);
            if (sym == -2 && !is_static[l]) {
                continue;
            }
            int rc = aws_array_list_ensure_capacity(a, i);
            head("Ensure", l);
            vh_int("i", sym);
            vh_rc(rc);
        } else {
            fprintf(stderr, "unknown op %s\n", vh_tok[0]);
            return 3;
        }
        state();
        vh_end();
    }
    teardown();
    vh_begin("End");
    vh_int("live", (long long)vh_live_blocks);
    vh_end();
    fclose(vh_out);
    return 0;
}
