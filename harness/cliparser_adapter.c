/* X07 adapter: aws_cli_getopt_long / aws_cli_reset_state / aws_cli_dispatch_on_subcommand driven by a script.
 * Dumb: builds the inputs the script names (every string, the argv vector, the option table and the dispatch table
 * are exact-size heap blocks, so a read one element or one byte too far is an ASan report), calls the real function,
 * and reports what came back plus the public globals (aws_cli_optind, aws_cli_optarg, aws_cli_positional_arg) after
 * every call. Pointers are reported as the index of the argv element they point at (0 = NULL, -1 = anything else).
 * No expected values.
 *
 * Each execution (RESET .. next RESET/END) runs in its own forked child, so it starts from the library's true initial
 * state ("aws_cli_optind: initialized to 1") and nothing - the parser's globals, its hidden state - can leak from one
 * execution into the next, whatever the library does. RESET itself calls nothing.
 *
 * script lines (strings are hex; "-" = empty string, "~" = NULL):
 *   RESET
 *   TABLE <name|~>:<val>:<has_arg> ...      option table the following GETOPT calls pass (zeroed terminator added)
 *   OPTSTR <str>                            optstring the following GETOPT calls pass
 *   ARGV <R|O|I> <str> ...                  another argument vector; the run is started with aws_cli_reset_state() (R),
 *                                           with aws_cli_optind = 1 (O), or - first vector of an execution only - with
 *                                           nothing at all (I: the library's initial state)
 *   GETOPT <0|1>                            one call; 1 = pass a longindex pointer
 *   REWIND <R|O>                            rerun over the same vector
 *   DISPATCH <rv> <tag> <name>:<h> ...      aws_cli_dispatch_on_subcommand over the current vector; entry i uses handler h (0..3);
 *                                           the handler returns rv; user data carries tag
 *   END */
#include "vh_core.h"

#include <aws/common/command_line_parser.h>

#include <sys/wait.h>

#define MAXARG 64
#define MAXOPT 32

/* ---- inputs owned by the adapter */
static char **g_argv; /* exact-size vector of argc + 1 pointers, last one NULL (as main() gets it) */
static int g_argc;
static struct aws_cli_option *g_table; /* n + 1 entries, last one zeroed */
static int g_ntable;
static char *g_optstr;
/* blocks that earlier inputs lived in: kept until the execution's process exits so that pointers the library still
 * holds (aws_cli_optarg after "ARGV O") never dangle and never alias a newer block */
static void *g_old[8192];
static int g_nold;

static void later(void *p) {
    if (!p) {
        return;
    }
    if (g_nold < (int)(sizeof(g_old) / sizeof(g_old[0]))) {
        g_old[g_nold++] = p;
    } /* else: leaked for the rest of the process; harmless */
}

static size_t unhex(const char *t, uint8_t *out, size_t cap) {
    size_t n = 0;
    if (t[0] == '-' || t[0] == '~') {
        return 0;
    }
    while (t[0] && t[1] && n < cap) {
        unsigned v = 0;
        sscanf(t, "%2x", &v);
        out[n++] = (uint8_t)v;
        t += 2;
    }
    return n;
}
/* exact-size C string from a hex token ("~" -> NULL) */
static char *cstr(const char *t) {
    if (t[0] == '~') {
        return NULL;
    }
    uint8_t tmp[512];
    size_t n = unhex(t, tmp, sizeof(tmp));
    char *p = malloc(n + 1);
    if (n) {
        memcpy(p, tmp, n);
    }
    p[n] = 0;
    return p;
}
static void log_cstr(const char *k, const char *s) {
    vh_bytes(k, (const uint8_t *)s, s ? strlen(s) : 0);
}

static void drop_argv(void) {
    for (int i = 0; i < g_argc; ++i) {
        later(g_argv[i]);
    }
    later(g_argv);
    g_argv = NULL;
    g_argc = 0;
}
static void drop_table(void) {
    for (int i = 0; i < g_ntable; ++i) {
        later((void *)g_table[i].name);
    }
    later(g_table);
    g_table = NULL;
    g_ntable = 0;
}
static void empty_table(void) {
    g_table = malloc(sizeof(*g_table));
    memset(g_table, 0, sizeof(*g_table));
    g_ntable = 0;
}

/* which argv element a pointer held by the library points at */
static long long ref(const char *p) {
    if (!p) {
        return 0;
    }
    for (int i = 0; i < g_argc; ++i) {
        if (p == g_argv[i]) {
            return i + 1;
        }
    }
    return -1;
}
static void state(void) {
    vh_obj_begin("s");
    vh_int("oi", aws_cli_optind);
    vh_int("oa", ref(aws_cli_optarg));
    vh_int("pa", ref(aws_cli_positional_arg));
    vh_arr_begin("av");
    for (int i = 0; i < g_argc; ++i) {
        vh_sep();
        fputc('[', vh_out);
        for (const unsigned char *c = (const unsigned char *)g_argv[i]; *c; ++c) {
            fprintf(vh_out, c == (const unsigned char *)g_argv[i] ? "%u" : ",%u", (unsigned)*c);
        }
        fputc(']', vh_out);
        vh_first_field = 0;
    }
    vh_arr_end();
    vh_obj_end();
}

static void need_argv(void) {
    if (!g_argv) {
        fprintf(stderr, "script: %s before any ARGV\n", vh_tok[0]);
        exit(3);
    }
}
static void restart(const char *mode) {
    if (mode[0] == 'R') {
        aws_cli_reset_state();
    } else if (mode[0] == 'O') {
        aws_cli_optind = 1; /* "Reset this to 1 to parse another set of arguments, or to rerun the parser." */
    } /* 'I': the first vector of a process needs neither ("initialized to 1") */
}

/* ---- sub-command handlers: record what they were given */
struct user_data {
    int tag;
};
static struct {
    int called, h, argc, tag;
    char *const *argv;
    char name[512];
} seen;
static int g_rv;
static int handler(int h, int argc, char *const argv[], const char *command_name, void *user_data) {
    seen.called++;
    seen.h = h;
    seen.argc = argc;
    seen.argv = argv;
    seen.tag = user_data ? ((struct user_data *)user_data)->tag : -1;
    snprintf(seen.name, sizeof(seen.name), "%s", command_name ? command_name : "");
    return g_rv;
}
static int h0(int argc, char *const argv[], const char *n, void *u) {
    return handler(0, argc, argv, n, u);
}
static int h1(int argc, char *const argv[], const char *n, void *u) {
    return handler(1, argc, argv, n, u);
}
static int h2(int argc, char *const argv[], const char *n, void *u) {
    return handler(2, argc, argv, n, u);
}
static int h3(int argc, char *const argv[], const char *n, void *u) {
    return handler(3, argc, argv, n, u);
}
static aws_cli_options_subcommand_fn *const handlers[4] = {h0, h1, h2, h3};

static void run_execution(const char *path, long off) {
    FILE *in = fopen(path, "r");
    if (!in || fseek(in, off, SEEK_SET) != 0) {
        perror(path);
        exit(3);
    }
    int resets = 0;
    while (vh_next(in)) {
        if (vh_is("RESET")) {
            if (resets++) {
                break; /* the next execution */
            }
            empty_table();
            g_optstr = cstr("-");
            vh_begin("Reset");
            state();
            vh_end();
        } else if (vh_is("TABLE")) {
            int n = vh_ntok - 1;
            if (n > MAXOPT) {
                n = MAXOPT;
            }
            drop_table();
            g_table = malloc(sizeof(*g_table) * (size_t)(n + 1));
            memset(g_table, 0, sizeof(*g_table) * (size_t)(n + 1));
            for (int i = 0; i < n; ++i) {
                char *e = vh_tok[i + 1];
                char *c1 = strchr(e, ':');
                char *c2 = c1 ? strchr(c1 + 1, ':') : NULL;
                if (!c2) {
                    fprintf(stderr, "script: bad TABLE entry %s\n", e);
                    exit(3);
                }
                *c1 = 0;
                *c2 = 0;
                g_table[i].name = cstr(e);
                g_table[i].val = atoi(c1 + 1);
                g_table[i].has_arg = (enum aws_cli_options_has_arg)atoi(c2 + 1);
                g_table[i].flag = NULL;
            }
            g_ntable = n;
            vh_begin("Table");
            vh_arr_begin("t");
            for (int i = 0; i < n; ++i) {
                vh_obj_begin(NULL);
                vh_int("nn", g_table[i].name != NULL);
                log_cstr("nm", g_table[i].name);
                vh_int("v", g_table[i].val);
                vh_int("ha", (long long)g_table[i].has_arg);
                vh_obj_end();
            }
            vh_arr_end();
            state();
            vh_end();
        } else if (vh_is("OPTSTR")) {
            later(g_optstr);
            g_optstr = cstr(vh_args(1));
            vh_begin("OptStr");
            log_cstr("os", g_optstr);
            state();
            vh_end();
        } else if (vh_is("ARGV")) {
            const char *mode = vh_args(1);
            int n = vh_ntok - 2;
            if (n > MAXARG) {
                n = MAXARG;
            }
            drop_argv();
            g_argv = malloc(sizeof(char *) * (size_t)(n + 1));
            for (int i = 0; i < n; ++i) {
                g_argv[i] = cstr(vh_tok[i + 2]);
            }
            g_argv[n] = NULL;
            g_argc = n;
            restart(mode);
            vh_begin("Argv");
            vh_str("m", mode[0] == 'R' ? "R" : mode[0] == 'O' ? "O" : "I");
            state();
            vh_end();
        } else if (vh_is("REWIND")) {
            need_argv();
            const char *mode = vh_args(1);
            restart(mode);
            vh_begin("Rewind");
            vh_str("m", mode[0] == 'R' ? "R" : "O");
            state();
            vh_end();
        } else if (vh_is("GETOPT")) {
            need_argv();
            int have_li = (int)vh_argi(1);
            int *li = NULL;
            if (have_li) {
                li = malloc(sizeof(int));
                *li = -9;
            }
            int r = aws_cli_getopt_long(g_argc, g_argv, g_optstr, g_table, li);
            vh_begin("GetOpt");
            vh_int("hl", have_li);
            vh_int("ret", r);
            vh_int("li", li ? *li : -9);
            state();
            vh_end();
            free(li);
        } else if (vh_is("DISPATCH")) {
            need_argv();
            g_rv = (int)vh_argi(1);
            struct user_data *ud = malloc(sizeof(*ud));
            ud->tag = (int)vh_argi(2);
            int n = vh_ntok - 3;
            if (n > MAXOPT) {
                n = MAXOPT;
            }
            struct aws_cli_subcommand_dispatch *dt = malloc(n ? sizeof(*dt) * (size_t)n : 1);
            long long hs[MAXOPT];
            for (int i = 0; i < n; ++i) {
                char *e = vh_tok[i + 3];
                char *c1 = strchr(e, ':');
                if (!c1) {
                    fprintf(stderr, "script: bad DISPATCH entry %s\n", e);
                    exit(3);
                }
                *c1 = 0;
                hs[i] = atoi(c1 + 1) & 3;
                dt[i].command_name = cstr(e);
                dt[i].subcommand_fn = handlers[hs[i]];
            }
            memset(&seen, 0, sizeof(seen));
            seen.h = -1;
            seen.argc = -1;
            seen.tag = -1;
            aws_reset_error();
            int rc = aws_cli_dispatch_on_subcommand(g_argc, g_argv, dt, n, ud);
            int raised = aws_last_error() != 0;
            vh_begin("Dispatch");
            vh_arr_begin("dt");
            for (int i = 0; i < n; ++i) {
                vh_obj_begin(NULL);
                log_cstr("nm", dt[i].command_name);
                vh_int("h", hs[i]);
                vh_obj_end();
            }
            vh_arr_end();
            vh_int("rv", g_rv);
            vh_int("tag", ud->tag);
            vh_int("called", seen.called);
            vh_int("h", seen.h);
            vh_int("hargc", seen.argc);
            vh_int("hoff", seen.called ? (long long)(seen.argv - g_argv) : -1);
            log_cstr("hname", seen.name);
            vh_int("htag", seen.tag);
            vh_int("rc", rc);
            vh_int("raised", raised);
            vh_str("lasterr", raised ? aws_error_name(aws_last_error()) : "");
            state();
            vh_end();
            for (int i = 0; i < n; ++i) {
                free((void *)dt[i].command_name);
            }
            free(dt);
            free(ud);
        } else if (vh_is("END")) {
            break;
        } else {
            fprintf(stderr, "script: unknown line %s\n", vh_tok[0]);
            exit(3);
        }
    }
    fclose(in);
}

int main(int argc, char **argv) {
    if (argc < 3) {
        return 3;
    }
    vh_open(argv[2]);
    vh_install_handlers(120);
    /* offsets of the RESET lines */
    FILE *in = fopen(argv[1], "r");
    if (!in) {
        perror(argv[1]);
        return 3;
    }
    long *offs = NULL;
    size_t noffs = 0, cap = 0;
    char *line = NULL;
    size_t lcap = 0;
    for (;;) {
        long pos = ftell(in);
        if (getline(&line, &lcap, in) < 0) {
            break;
        }
        if (strncmp(line, "RESET", 5) == 0) {
            if (noffs == cap) {
                cap = cap ? cap * 2 : 64;
                offs = realloc(offs, cap * sizeof(long));
            }
            offs[noffs++] = pos;
        }
    }
    free(line);
    fclose(in);
    for (size_t k = 0; k < noffs; ++k) {
        fflush(vh_out);
        pid_t pid = fork();
        if (pid < 0) {
            perror("fork");
            return 3;
        }
        if (pid == 0) {
            alarm(60);
            run_execution(argv[1], offs[k]);
            fflush(vh_out);
            VH_COV_FLUSH();
            _exit(7); /* 7 = the execution ran to its end; anything else is a death */
        }
        int st = 0;
        if (waitpid(pid, &st, 0) < 0) {
            perror("waitpid");
            return 3;
        }
        if (!(WIFEXITED(st) && WEXITSTATUS(st) == 7)) {
            /* the child normally wrote a Died line itself (signal / sanitizer report / watchdog); make sure one exists */
            if (WIFEXITED(st) && WEXITSTATUS(st) == 3) {
                return 3; /* script error */
            }
            fseek(vh_out, 0, SEEK_END);
            fprintf(vh_out, "\n{\"e\":\"Died\",\"sig\":%d}\n", WIFSIGNALED(st) ? WTERMSIG(st) : 6);
            fflush(vh_out);
            free(offs);
            return 0;
        }
        fseek(vh_out, 0, SEEK_END);
    }
    free(offs);
    vh_begin("End");
    vh_int("live", (long long)vh_live_blocks);
    vh_end();
    fclose(vh_out);
    return 0;
}
