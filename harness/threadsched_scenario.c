/* C08 scenario: aws_thread_scheduler under the controlled scheduler.
 * Scenario lines:   NT <ntasks>
 *                   CLIENT <k> <op> <op> ...     k = 0 is the scenario's main thread, k >= 1 are launched threads
 *   ops:  N<t>        schedule_now(task t)
 *         F<t>:<ms>   schedule_future(task t, now + ms milliseconds)    (ms may be 0)
 *         X<t>        cancel(task t) unless the client has already seen t's function run (racy by nature)
 *         A<t>:max    schedule_future(task t, UINT64_MAX);  A<t>:half  at now + 2^63 ns  (parked tasks)
 *         W<t>        wait (sleeping 1, 2, 4, .. ms) until task t's function has been invoked
 *         Z<ms>       aws_thread_current_sleep(ms milliseconds)
 *         P           an explicit schedule point
 *       A task whose function has been invoked may be handed over again - without another aws_task_init, as callers do.
 *         R           release this client's reference (always the client's last op)
 *                   TASKFN <t> <op>              what task t's function does when it is invoked while the scheduler is
 *                                                still in use (re-entrancy from the scheduler's own thread): N<u> / F<u>:<ms> / X<u>
 * Every event is written by the thread holding the baton, so the file order is the global order. */
#include "vh_core.h"

#include "vsched/vsched_impl.h"

#include <aws/common/clock.h>
#include <aws/common/task_scheduler.h>
#include <aws/common/thread.h>
#include <aws/common/thread_scheduler.h>

#define MAXT 8
#define MAXC 4
#define MAXOPS 32

static struct aws_thread_scheduler *sched;
static struct aws_task tasks[MAXT + 1];
static int invoked_seen[MAXT + 1];
static int sched_started[MAXT + 1];
static int in_fn[MAXT + 1];
static int cancel_out[MAXT + 1]; /* cancel requests issued for the current hand-over */
static int tainted[MAXT + 1];    /* the task ran although a cancel request was on its way: the request may still be queued
                                  * (cancellation is asynchronous and leaves no trace the caller could wait for), so the
                                  * task object is not handed over again */
static int sched_tid = -1;
static uint64_t t0;
static int client_tid[MAXC];

struct client {
    int k;
    int nops;
    char ops[MAXOPS][24];
    struct aws_thread thread;
};
static struct client clients[MAXC];
static int nclients, ntasks;
static int nrefs; /* references in existence: one per client + every acquire so far */
static char taskfn[MAXT + 1][24];
static int rel_begun;

static void log_time(const char *k, uint64_t ns) {
    long long v[2];
    uint64_t d = ns >= t0 ? ns - t0 : 0;
    v[0] = (long long)(d / 1000000000ull); /* seconds and nanoseconds: both fit TLC's 32-bit integers */
    v[1] = (long long)(d % 1000000000ull);
    if (v[0] > 2000000000ll) { /* parked decades ahead: "later than anything that happens here" */
        v[0] = 2000000000ll;
        v[1] = 0;
    }
    vh_ints(k, v, 2);
}

static const char *role_of(int tid) {
    if (tid == sched_tid) {
        return "sched";
    }
    return "client";
}

static void do_sched_op(const char *op, int client);

static void task_fn(struct aws_task *task, void *arg, enum aws_task_status status) {
    (void)task;
    int t = (int)(intptr_t)arg;
    invoked_seen[t] = 1;
    /* one request is used up by a CANCELED invocation; any other one outstanding (the task ran although a request was on
     * its way, or two threads asked for the same cancellation) may still be queued */
    if (cancel_out[t] > (status == AWS_TASK_STATUS_CANCELED ? 1 : 0)) {
        tainted[t] = 1;
    }
    cancel_out[t] = 0;
    sched_started[t] = 0; /* the task object is the caller's again: it may be handed over once more (from in here too) */
    in_fn[t] = 1;         /* ... by other threads only once this function has returned */
    vh_begin("Invoked");
    vh_int("task", t);
    vh_str("status", status == AWS_TASK_STATUS_RUN_READY ? "RUN" : "CANCELED");
    vh_str("thr", role_of(vs_self()));
    log_time("vt", vs_now_ns());
    vh_end();
    /* re-entrancy: a task function may use the scheduler it runs on, as long as the last reference is not being dropped */
    if (taskfn[t][0] && rel_begun < nrefs) {
        do_sched_op(taskfn[t], -1);
    }
    /* the way a real program learns that its task ran is synchronised; tell the race detector so */
    VS_TSAN_RELEASE(&in_fn[t]);
    in_fn[t] = 0;
}

static void do_sched_op(const char *op, int client) {
    int t = op[1] ? atoi(op + 1) : 0;
    if (client >= 0 && (op[0] == 'N' || op[0] == 'F' || op[0] == 'A')) {
        if (in_fn[t] || tainted[t]) {
            return; /* its function is still running on the scheduler thread / a cancel request may still be queued */
        }
        VS_TSAN_ACQUIRE(&in_fn[t]);
    }
    if (op[0] == 'N') {
        if (sched_started[t]) {
            return; /* every task is handed over at most once */
        }
        sched_started[t] = 1;
        invoked_seen[t] = 0;
        vh_begin("Sched");
        vh_int("task", t);
        vh_int("client", client);
        vh_str("kind", "now");
        log_time("at", t0);
        vh_end();
        aws_thread_scheduler_schedule_now(sched, &tasks[t]);
    } else if (op[0] == 'F') {
        if (sched_started[t]) {
            return;
        }
        const char *colon = strchr(op, ':');
        uint64_t ms = colon ? strtoull(colon + 1, NULL, 10) : 0;
        uint64_t now = 0;
        aws_high_res_clock_get_ticks(&now);
        uint64_t at = now + ms * 1000000ull;
        sched_started[t] = 1;
        invoked_seen[t] = 0;
        vh_begin("Sched");
        vh_int("task", t);
        vh_int("client", client);
        vh_str("kind", "future");
        log_time("at", at);
        vh_end();
        aws_thread_scheduler_schedule_future(sched, &tasks[t], at);
    } else if (op[0] == 'A') {
        if (sched_started[t]) {
            return;
        }
        uint64_t now = 0;
        aws_high_res_clock_get_ticks(&now);
        uint64_t at = strstr(op, ":half") ? now + (1ull << 63) : UINT64_MAX;
        sched_started[t] = 1;
        invoked_seen[t] = 0;
        vh_begin("Sched");
        vh_int("task", t);
        vh_int("client", client);
        vh_str("kind", "future");
        log_time("at", at);
        vh_end();
        aws_thread_scheduler_schedule_future(sched, &tasks[t], at);
    } else if (op[0] == 'X') {
        if (sched_started[t] && !invoked_seen[t]) {
            cancel_out[t]++;
            vh_begin("Cancel");
            vh_int("task", t);
            vh_int("client", client);
            vh_end();
            aws_thread_scheduler_cancel_task(sched, &tasks[t]);
        }
    }
}

static void run_client(void *arg) {
    struct client *c = arg;
    for (int i = 0; i < c->nops; ++i) {
        const char *op = c->ops[i];
        int t = op[1] ? atoi(op + 1) : 0;
        if (op[0] == 'N' || op[0] == 'F' || op[0] == 'X' || op[0] == 'A') {
            do_sched_op(op, c->k);
        } else if (op[0] == 'W') {
            uint64_t ms = 1;
            for (int r = 0; r < 14 && (sched_started[t] || in_fn[t]); ++r, ms *= 2) {
                aws_thread_current_sleep(ms * 1000000ull);
            }
        } else if (op[0] == 'Z') {
            aws_thread_current_sleep((uint64_t)atoi(op + 1) * 1000000ull);
        } else if (op[0] == 'P') {
            vs_point();
        } else if (op[0] == 'G') {
            /* one more reference, taken by a client that still holds one (released by one more R of the same client) */
            nrefs++;
            vh_begin("AcqRef");
            vh_int("client", c->k);
            vh_end();
            aws_thread_scheduler_acquire(sched);
        } else if (op[0] == 'R') {
            rel_begun++;
            vh_begin("RelBegin");
            vh_int("client", c->k);
            vh_end();
            aws_thread_scheduler_release(sched);
            vh_begin("RelEnd");
            vh_int("client", c->k);
            vh_end();
        }
    }
}

/* every thread is blocked and only the passing of time can wake one up */
static void idle_hook(long unforced) {
    vh_begin("Idle");
    log_time("vt", vs_now_ns());
    vh_int("unforced", unforced);
    vh_end();
}

static void scenario(char **lines, int nlines) {
    vs_idle_hook = idle_hook;
    nclients = 0;
    ntasks = 1;
    rel_begun = 0;
    memset(taskfn, 0, sizeof(taskfn));
    memset(clients, 0, sizeof(clients));
    for (int i = 0; i < nlines; ++i) {
        char *dup = strdup(lines[i]);
        char *save = NULL;
        char *tok = strtok_r(dup, " ", &save);
        if (tok && strcmp(tok, "NT") == 0) {
            ntasks = atoi(strtok_r(NULL, " ", &save));
        } else if (tok && strcmp(tok, "TASKFN") == 0) {
            int t = atoi(strtok_r(NULL, " ", &save));
            strncpy(taskfn[t], strtok_r(NULL, " ", &save), 23);
        } else if (tok && strcmp(tok, "CLIENT") == 0) {
            int k = atoi(strtok_r(NULL, " ", &save));
            struct client *c = &clients[nclients++];
            c->k = k;
            for (char *o = strtok_r(NULL, " ", &save); o && c->nops < MAXOPS; o = strtok_r(NULL, " ", &save)) {
                strncpy(c->ops[c->nops++], o, 23);
            }
        }
        free(dup);
    }
    aws_high_res_clock_get_ticks(&t0);
    nrefs = nclients;
    vh_begin("Setup");
    vh_int("nclients", nclients);
    vh_int("ntasks", ntasks);
    vh_end();
    for (int t = 1; t <= ntasks && t <= MAXT; ++t) {
        aws_task_init(&tasks[t], task_fn, (void *)(intptr_t)t, "verif_task");
        invoked_seen[t] = 0;
        sched_started[t] = 0;
        in_fn[t] = cancel_out[t] = tainted[t] = 0;
    }
    int before = vs_nthreads;
    sched = aws_thread_scheduler_new(vh_alloc(), NULL);
    sched_tid = before; /* the one thread created by the constructor */
    for (int i = 1; i < nclients; ++i) {
        aws_thread_scheduler_acquire(sched);
    }
    /* client 0 runs on this thread; the others are launched first so that they can interleave with it */
    for (int i = 0; i < nclients; ++i) {
        if (clients[i].k != 0) {
            aws_thread_init(&clients[i].thread, vh_alloc());
            aws_thread_launch(&clients[i].thread, run_client, &clients[i], NULL);
        }
    }
    for (int i = 0; i < nclients; ++i) {
        if (clients[i].k == 0) {
            run_client(&clients[i]);
        }
    }
    for (int i = 0; i < nclients; ++i) {
        if (clients[i].k != 0) {
            aws_thread_join(&clients[i].thread);
            aws_thread_clean_up(&clients[i].thread);
        }
    }
    (void)client_tid;
}

int main(int argc, char **argv) {
    return vs_main(argc, argv, scenario);
}
