/* C04 adapter: every decoder / parser of aws-c-common applied to arbitrary bytes. No expected values here.
 *
 * script:  RESET
 *          P <parser> <input hex | - (empty, valid pointer) | NULL (NULL pointer, length 0)> <arg>
 *          END
 * The input is copied into an exact-size heap block (one byte past either end is an ASan report); a watchdog
 * (alarm) is re-armed for every input, so a hang becomes a Died event attributed to that input.
 * aws_reset_error() is called before every library call so that a stale error code cannot pass for a verdict.
 *
 * event:   Parse {p, n, in (hex, first 48 bytes: diagnostics only), arg, rc, err, res, steps, views:[[off,len]...]}
 *   rc / err  return code and aws_error_name(aws_last_error()) of the call that decided (err only meaningful if rc != 0)
 *   res       for APIs whose channel is a pointer or a bool: 1 = value / true, 0 = NULL / false; otherwise 0
 *   views     every cursor the call handed back that is supposed to point into the input (or, for aws_uri, into the
 *             uri's own copy of the input, which has the same length): offset relative to that base and length.
 *             An empty cursor is reported as [0,0] whatever its pointer; a non-empty cursor whose pointer lies in
 *             front of the base is reported with offset -1, one that starts behind it with its (capped) distance.
 *
 * parsers and their <arg>:
 *   xml      callback program letters are derived from arg (base-3 digits: descend / body / skip), max_depth = 0
 *   json     aws_json_value_new_from_string
 *   cbor     arg 0: peek + pop by type; 1: consume whole data items; 2: consume single elements; 3: pop functions in
 *            rotation whatever the type (type mismatch errors); >= 4: pseudo-random mix seeded by arg
 *   uri      aws_uri_init_parse + accessors + query parameter iteration (both forms)
 *   query    aws_query_string_next_param / aws_query_string_params on the raw input
 *   pctdec   aws_byte_buf_append_decoding_uri
 *   date     arg = enum aws_date_format (0..3); arg + 4 uses the byte_buf variant
 *   b64dec   aws_base64_compute_decoded_len + aws_base64_decode into an exact-size buffer
 *   hexdec   aws_hex_compute_decoded_len + aws_hex_decode into an exact-size buffer
 *   utf8     arg 0: aws_decode_utf8 without callback; 1: with callback; >= 2: incremental, chunk size arg - 1
 *   uuid     aws_uuid_init_from_str
 *   ipv4     aws_host_utils_is_ipv4;  ipv6: arg = is_uri_encoded
 *   u64 / u64hex   aws_byte_cursor_utf8_parse_u64 / _hex */
#include "vh_core.h"

#include <aws/common/array_list.h>
#include <aws/common/byte_buf.h>
#include <aws/common/cbor.h>
#include <aws/common/date_time.h>
#include <aws/common/encoding.h>
#include <aws/common/host_utils.h>
#include <aws/common/json.h>
#include <aws/common/uri.h>
#include <aws/common/uuid.h>
#include <aws/common/xml_parser.h>

#define WATCHDOG_SECS 10
#define MAXVIEWS 512

static uint8_t *in_buf;
static size_t in_len;
static bool in_null;

static long long views[MAXVIEWS][2];
static size_t nviews;
static long long steps;

static int hexval(int c) {
    return c <= '9' ? c - '0' : (c | 0x20) - 'a' + 10;
}
static void load_input(const char *tok) {
    free(in_buf);
    in_null = strcmp(tok, "NULL") == 0;
    size_t n = (in_null || strcmp(tok, "-") == 0) ? 0 : strlen(tok) / 2;
    in_buf = in_null ? NULL : malloc(n);
    in_len = n;
    for (size_t i = 0; i < n; ++i) {
        in_buf[i] = (uint8_t)(hexval(tok[2 * i]) * 16 + hexval(tok[2 * i + 1]));
    }
}
static struct aws_byte_cursor input(void) {
    struct aws_byte_cursor c;
    c.ptr = in_buf;
    c.len = in_len;
    return c;
}

static void view(const uint8_t *base, struct aws_byte_cursor c) {
    if (nviews >= MAXVIEWS) {
        return;
    }
    long long off, len = c.len > 1000000000 ? 1000000000 : (long long)c.len;
    if (c.len == 0) {
        off = 0;
    } else if (c.ptr < base) {
        off = -1;
    } else {
        size_t d = (size_t)(c.ptr - base);
        off = d > 1000000000 ? 1000000000 : (long long)d;
    }
    views[nviews][0] = off;
    views[nviews][1] = len;
    nviews++;
}

/* ------------------------------------------------------------------ xml */
static unsigned long long xml_prog;
static int xml_cb(struct aws_xml_node *node, void *ud) {
    (void)ud;
    steps++;
    unsigned act = (unsigned)(xml_prog % 3);
    xml_prog = xml_prog / 3 + (xml_prog % 3) * 1162261467ull; /* rotate base-3 digits so that long documents keep varying */
    view(in_buf, aws_xml_node_get_name(node));
    size_t na = aws_xml_node_get_num_attributes(node);
    for (size_t i = 0; i < na; ++i) {
        struct aws_xml_attribute a = aws_xml_node_get_attribute(node, i);
        view(in_buf, a.name);
        view(in_buf, a.value);
    }
    if (act == 0) {
        return aws_xml_node_traverse(node, xml_cb, NULL);
    }
    if (act == 1) {
        struct aws_byte_cursor body;
        AWS_ZERO_STRUCT(body);
        int rc = aws_xml_node_as_body(node, &body);
        if (rc == AWS_OP_SUCCESS) {
            view(in_buf, body);
        }
        return rc;
    }
    return AWS_OP_SUCCESS;
}
static int do_xml(unsigned long long arg) {
    xml_prog = arg;
    struct aws_xml_parser_options opt = {
        .doc = input(),
        .max_depth = 0,
        .on_root_encountered = xml_cb,
        .user_data = NULL,
    };
    return aws_xml_parse(vh_alloc(), &opt);
}

/* ------------------------------------------------------------------ cbor */
static int do_cbor(unsigned long long arg, int *res) {
    struct aws_cbor_decoder *dec = aws_cbor_decoder_new(vh_alloc(), input());
    *res = dec != NULL;
    if (!dec) {
        return AWS_OP_ERR;
    }
    int rc = AWS_OP_SUCCESS;
    int errs = 0;
    vh_rng_state = arg;
    for (steps = 0; steps < 96; ++steps) {
        if (aws_cbor_decoder_get_remaining_length(dec) == 0) {
            break;
        }
        enum aws_cbor_type t = AWS_CBOR_TYPE_UNKNOWN;
        uint64_t u = 0;
        double d = 0;
        bool b = false;
        struct aws_byte_cursor c;
        AWS_ZERO_STRUCT(c);
        unsigned how = arg < 4 ? (unsigned)arg : (unsigned)vh_randn(4);
        aws_reset_error();
        if (how == 1) {
            rc = aws_cbor_decoder_consume_next_whole_data_item(dec);
        } else if (how == 2) {
            rc = aws_cbor_decoder_consume_next_single_element(dec);
        } else {
            unsigned which;
            if (how == 0) {
                rc = aws_cbor_decoder_peek_type(dec, &t);
                if (rc) {
                    break;
                }
                which = (unsigned)t;
            } else {
                which = 1 + (unsigned)(steps % 9);
            }
            aws_reset_error();
            switch (which) {
                case AWS_CBOR_TYPE_UINT:
                    rc = aws_cbor_decoder_pop_next_unsigned_int_val(dec, &u);
                    break;
                case AWS_CBOR_TYPE_NEGINT:
                    rc = aws_cbor_decoder_pop_next_negative_int_val(dec, &u);
                    break;
                case AWS_CBOR_TYPE_FLOAT:
                    rc = aws_cbor_decoder_pop_next_float_val(dec, &d);
                    break;
                case AWS_CBOR_TYPE_BYTES:
                    rc = aws_cbor_decoder_pop_next_bytes_val(dec, &c);
                    if (!rc) {
                        view(in_buf, c);
                    }
                    break;
                case AWS_CBOR_TYPE_TEXT:
                    rc = aws_cbor_decoder_pop_next_text_val(dec, &c);
                    if (!rc) {
                        view(in_buf, c);
                    }
                    break;
                case AWS_CBOR_TYPE_ARRAY_START:
                    rc = aws_cbor_decoder_pop_next_array_start(dec, &u);
                    break;
                case AWS_CBOR_TYPE_MAP_START:
                    rc = aws_cbor_decoder_pop_next_map_start(dec, &u);
                    break;
                case AWS_CBOR_TYPE_TAG:
                    rc = aws_cbor_decoder_pop_next_tag_val(dec, &u);
                    break;
                case AWS_CBOR_TYPE_BOOL:
                    rc = aws_cbor_decoder_pop_next_boolean_val(dec, &b);
                    break;
                default:
                    rc = aws_cbor_decoder_consume_next_single_element(dec);
                    break;
            }
        }
        if (rc) {
            /* how 3 provokes type mismatches: keep going a little to see that a refused pop leaves the decoder usable */
            if (how != 3 || ++errs >= 12) {
                break;
            }
        }
    }
    int last_err = aws_last_error();
    aws_cbor_decoder_destroy(dec);
    if (rc) {
        aws_raise_error(last_err);
    }
    return rc;
}

/* ------------------------------------------------------------------ uri / query */
static void query_iter(const uint8_t *base, struct aws_byte_cursor q) {
    struct aws_uri_param p;
    AWS_ZERO_STRUCT(p);
    for (int i = 0; i < 64 && aws_query_string_next_param(q, &p); ++i) {
        steps++;
        view(base, p.key);
        view(base, p.value);
    }
}
static int query_list(const uint8_t *base, struct aws_byte_cursor q) {
    struct aws_array_list l;
    aws_array_list_init_dynamic(&l, vh_alloc(), 2, sizeof(struct aws_uri_param));
    int rc = aws_query_string_params(q, &l);
    for (size_t i = 0; i < aws_array_list_length(&l) && i < 64; ++i) {
        struct aws_uri_param p;
        aws_array_list_get_at(&l, &p, i);
        view(base, p.key);
        view(base, p.value);
    }
    aws_array_list_clean_up(&l);
    return rc;
}
static int do_uri(void) {
    struct aws_uri uri;
    AWS_ZERO_STRUCT(uri);
    struct aws_byte_cursor in = input();
    int rc = aws_uri_init_parse(&uri, vh_alloc(), &in);
    if (rc) {
        return rc;
    }
    const uint8_t *base = uri.uri_str.buffer;
    steps = (long long)uri.uri_str.len;
    view(base, *aws_uri_scheme(&uri));
    view(base, *aws_uri_authority(&uri));
    view(base, uri.userinfo);
    view(base, uri.user);
    view(base, uri.password);
    view(base, *aws_uri_host_name(&uri));
    view(base, *aws_uri_path(&uri));
    view(base, *aws_uri_query_string(&uri));
    view(base, *aws_uri_path_and_query(&uri));
    (void)aws_uri_port(&uri);
    struct aws_uri_param p;
    AWS_ZERO_STRUCT(p);
    for (int i = 0; i < 64 && aws_uri_query_string_next_param(&uri, &p); ++i) {
        view(base, p.key);
        view(base, p.value);
    }
    struct aws_array_list l;
    aws_array_list_init_dynamic(&l, vh_alloc(), 2, sizeof(struct aws_uri_param));
    aws_reset_error();
    rc = aws_uri_query_string_params(&uri, &l);
    int e = aws_last_error();
    aws_array_list_clean_up(&l);
    aws_uri_clean_up(&uri);
    if (rc) {
        aws_raise_error(e);
    }
    return rc;
}

/* ------------------------------------------------------------------ codecs */
typedef int(codec_fn)(const struct aws_byte_cursor *AWS_RESTRICT, struct aws_byte_buf *AWS_RESTRICT);
static int do_decode(bool b64) {
    struct aws_byte_cursor in = input();
    size_t need = 0;
    int rc = b64 ? aws_base64_compute_decoded_len(&in, &need) : aws_hex_compute_decoded_len(in.len, &need);
    if (rc) {
        return rc;
    }
    steps = (long long)need;
    uint8_t *out = malloc(need);
    struct aws_byte_buf ob = aws_byte_buf_from_empty_array(out, need);
    aws_reset_error();
    rc = b64 ? aws_base64_decode(&in, &ob) : aws_hex_decode(&in, &ob);
    free(out);
    return rc;
}
static int cp_cb(uint32_t cp, void *ud) {
    (void)cp;
    (void)ud;
    steps++;
    return AWS_OP_SUCCESS;
}
static int do_utf8(unsigned long long arg) {
    struct aws_utf8_decoder_options opt = {.on_codepoint = cp_cb, .user_data = NULL};
    if (arg == 0) {
        return aws_decode_utf8(input(), NULL);
    }
    if (arg == 1) {
        return aws_decode_utf8(input(), &opt);
    }
    size_t chunk = (size_t)arg - 1;
    /* the options are a temporary: gone as soon as the constructor has returned; every third chunked run validates only */
    struct aws_utf8_decoder_options *tmp = malloc(sizeof(*tmp));
    *tmp = opt;
    struct aws_utf8_decoder *dec = aws_utf8_decoder_new(vh_alloc(), (arg % 3 == 0) ? NULL : tmp);
    memset(tmp, 0xDD, sizeof(*tmp));
    free(tmp);
    int rc = AWS_OP_SUCCESS;
    for (size_t at = 0; at < in_len && !rc; at += chunk) {
        size_t n = in_len - at < chunk ? in_len - at : chunk;
        rc = aws_utf8_decoder_update(dec, aws_byte_cursor_from_array(in_buf + at, n));
    }
    if (!rc) {
        rc = aws_utf8_decoder_finalize(dec);
    }
    int e = aws_last_error();
    aws_utf8_decoder_destroy(dec);
    if (rc) {
        aws_raise_error(e);
    }
    return rc;
}

int main(int argc, char **argv) {
    if (argc < 3) {
        return 3;
    }
    FILE *in = fopen(argv[1], "r");
    vh_open(argv[2]);
    vh_install_handlers(WATCHDOG_SECS);
    while (vh_next(in)) {
        if (vh_is("RESET")) {
            vh_begin("Reset");
            vh_end();
        } else if (vh_is("P")) {
            const char *p = vh_args(1);
            load_input(vh_args(2));
            unsigned long long arg = vh_argu(3);
            nviews = 0;
            steps = 0;
            int rc = AWS_OP_SUCCESS;
            int res = 0;
            alarm(WATCHDOG_SECS);
            aws_reset_error();
            struct aws_byte_cursor cur = input();
            if (!strcmp(p, "xml")) {
                rc = do_xml(arg);
            } else if (!strcmp(p, "json")) {
                struct aws_json_value *v = aws_json_value_new_from_string(vh_alloc(), cur);
                res = v != NULL;
                int e = aws_last_error();
                if (v) {
                    aws_json_value_destroy(v);
                }
                aws_raise_error(e);
            } else if (!strcmp(p, "cbor")) {
                rc = do_cbor(arg, &res);
            } else if (!strcmp(p, "uri")) {
                rc = do_uri();
            } else if (!strcmp(p, "query")) {
                query_iter(in_buf, cur);
                aws_reset_error();
                rc = query_list(in_buf, cur);
            } else if (!strcmp(p, "pctdec")) {
                struct aws_byte_buf out;
                aws_byte_buf_init(&out, vh_alloc(), arg);
                rc = aws_byte_buf_append_decoding_uri(&out, &cur);
                steps = (long long)out.len;
                int e = aws_last_error();
                aws_byte_buf_clean_up(&out);
                aws_raise_error(e);
            } else if (!strcmp(p, "date")) {
                struct aws_date_time dt;
                if (arg < 4) {
                    rc = aws_date_time_init_from_str_cursor(&dt, &cur, (enum aws_date_format)arg);
                } else {
                    struct aws_byte_buf b = aws_byte_buf_from_array(in_buf, in_len);
                    rc = aws_date_time_init_from_str(&dt, &b, (enum aws_date_format)(arg - 4));
                }
            } else if (!strcmp(p, "b64dec")) {
                rc = do_decode(true);
            } else if (!strcmp(p, "hexdec")) {
                rc = do_decode(false);
            } else if (!strcmp(p, "utf8")) {
                rc = do_utf8(arg);
            } else if (!strcmp(p, "uuid")) {
                struct aws_uuid u;
                rc = aws_uuid_init_from_str(&u, &cur);
            } else if (!strcmp(p, "ipv4")) {
                res = aws_host_utils_is_ipv4(cur);
            } else if (!strcmp(p, "ipv6")) {
                res = aws_host_utils_is_ipv6(cur, arg != 0);
            } else if (!strcmp(p, "u64")) {
                uint64_t v = 0;
                rc = aws_byte_cursor_utf8_parse_u64(cur, &v);
            } else if (!strcmp(p, "u64hex")) {
                uint64_t v = 0;
                rc = aws_byte_cursor_utf8_parse_u64_hex(cur, &v);
            } else {
                fprintf(stderr, "unknown parser %s\n", p);
                exit(3);
            }
            alarm(0);
            vh_begin("Parse");
            vh_str("p", p);
            vh_int("n", (long long)in_len);
            vh_sep();
            fputs("\"in\":\"", vh_out);
            for (size_t i = 0; i < in_len && i < 48; ++i) {
                fprintf(vh_out, "%02x", in_buf[i]);
            }
            fputc('"', vh_out);
            vh_int("nul", in_null);
            vh_int("arg", (long long)(arg > 1000000000ull ? 1000000000ull : arg));
            vh_rc(rc);
            vh_int("res", res);
            vh_int("steps", steps);
            vh_sep();
            fputs("\"views\":[", vh_out);
            for (size_t i = 0; i < nviews; ++i) {
                fprintf(vh_out, i ? ",[%lld,%lld]" : "[%lld,%lld]", views[i][0], views[i][1]);
            }
            fputc(']', vh_out);
            vh_end();
        } else if (vh_is("END")) {
            free(in_buf);
            in_buf = NULL;
            vh_begin("End");
            vh_int("live", (long long)vh_live_blocks);
            vh_end();
        }
    }
    fclose(vh_out);
    return 0;
}
