/* C05 scenario with real threads under the controlled scheduler: every thread encodes / decodes buffers of its own (the
 * codecs are stateless as far as a caller can tell).  One self-contained event per call, the same events as
 * harness/codec_adapter.c writes, so CodecTrace.tla judges each of them on its own - whatever the other threads do.
 * Scenario lines:
 *   THREAD <k> <op>:<hex input>:<cap>:<prelen> ...     op: be / bd / he / hd  (base64 / hex, encode / decode)
 * The vector path is whatever cpuid selects (AWS_COMMON_AVX2 in the environment of the check). */
#include "vh_core.h"

#include "vsched/vsched_impl.h"

#include <aws/common/encoding.h>
#include <aws/common/thread.h>

#define MAXT 4
#define MAXOPS 24
#define MAXOP 400
struct prog {
    int k, nops;
    char ops[MAXOPS][MAXOP];
    struct aws_thread thread;
};
static struct prog thr[MAXT];
static int nthr;

typedef int(codec_fn)(const struct aws_byte_cursor *AWS_RESTRICT, struct aws_byte_buf *AWS_RESTRICT);

static int hexval(char c) {
    return c <= '9' ? c - '0' : (c | 0x20) - 'a' + 10;
}

static void one_op(int k, const char *op) {
    char kind[4] = {0};
    const char *c1 = strchr(op, ':');
    if (!c1 || c1 - op > 2) {
        return;
    }
    memcpy(kind, op, (size_t)(c1 - op));
    const char *c2 = strchr(c1 + 1, ':');
    if (!c2) {
        return;
    }
    size_t in_len = (size_t)(c2 - c1 - 1) / 2;
    uint8_t *in_buf = malloc(in_len ? in_len : 1); /* exact size: one byte over is a sanitizer report */
    for (size_t i = 0; i < in_len; ++i) {
        in_buf[i] = (uint8_t)(hexval(c1[1 + 2 * i]) * 16 + hexval(c1[2 + 2 * i]));
    }
    size_t cap = 0, prelen = 0;
    sscanf(c2 + 1, "%zu:%zu", &cap, &prelen);
    codec_fn *fn = !strcmp(kind, "be")   ? aws_base64_encode
                   : !strcmp(kind, "bd") ? aws_base64_decode
                   : !strcmp(kind, "he") ? aws_hex_encode
                                         : aws_hex_decode;
    const char *ev = !strcmp(kind, "be") ? "B64Enc" : !strcmp(kind, "bd") ? "B64Dec" : !strcmp(kind, "he") ? "HexEnc" : "HexDec";
    uint8_t canary = (uint8_t)(0xC0 + k);
    uint8_t *buf = malloc(cap ? cap : 1);
    uint8_t *before = malloc(cap ? cap : 1);
    if (prelen > cap) {
        prelen = cap;
    }
    for (size_t i = 0; i < cap; ++i) {
        buf[i] = i < prelen ? (uint8_t)(0x50 + i) : canary;
    }
    memcpy(before, buf, cap);
    struct aws_byte_cursor cur = aws_byte_cursor_from_array(in_buf, in_len);
    struct aws_byte_buf out = aws_byte_buf_from_empty_array(buf, cap);
    out.len = prelen;
    vs_point(); /* other threads may run between preparing the buffers and the call ... */
    int rc = fn(&cur, &out);
    vs_point(); /* ... and between the call and looking at what it left behind */
    size_t wrote = 0;
    for (size_t i = 0; i < cap; ++i) {
        if (buf[i] != before[i]) {
            wrote = i + 1;
        }
    }
    vh_begin(ev);
    vh_int("k", k);
    vh_bytes("inp", in_buf, in_len);
    vh_int("cap", (long long)cap);
    vh_bytes("pre", before, prelen);
    vh_int("canary", canary);
    vh_rc(rc);
    vh_int("len", (long long)(out.len > 1000000 ? 1000000 : out.len));
    vh_bytes("out", buf, out.len < cap ? out.len : cap);
    vh_int("wrote", (long long)wrote);
    vh_end();
    free(buf);
    free(before);
    free(in_buf);
}

static void thread_fn(void *arg) {
    struct prog *p = arg;
    for (int i = 0; i < p->nops; ++i) {
        one_op(p->k, p->ops[i]);
    }
}

static void scenario(char **lines, int nlines) {
    nthr = 0;
    memset(thr, 0, sizeof(thr));
    for (int i = 0; i < nlines && nthr < MAXT; ++i) {
        char *dup = strdup(lines[i]);
        char *save = NULL;
        char *tok = strtok_r(dup, " ", &save);
        if (tok && strcmp(tok, "THREAD") == 0) {
            struct prog *p = &thr[nthr++];
            p->k = atoi(strtok_r(NULL, " ", &save));
            for (char *o = strtok_r(NULL, " ", &save); o && p->nops < MAXOPS; o = strtok_r(NULL, " ", &save)) {
                strncpy(p->ops[p->nops++], o, MAXOP - 1);
            }
        }
        free(dup);
    }
    for (int i = 0; i < nthr; ++i) {
        aws_thread_init(&thr[i].thread, vh_alloc());
        aws_thread_launch(&thr[i].thread, thread_fn, &thr[i], NULL);
    }
    for (int i = 0; i < nthr; ++i) {
        aws_thread_join(&thr[i].thread);
        aws_thread_clean_up(&thr[i].thread);
    }
}

int main(int argc, char **argv) {
    return vs_main(argc, argv, scenario);
}
