/* X01 adapter: aws_string driven by a script; reports results and the public view of every slot after each call.
 * Dumb: applies the call, projects what came back. No expected values. */
#include "vh_core.h"

#include <aws/common/array_list.h>
#include <aws/common/byte_buf.h>
#include <aws/common/string.h>

#define NS 5
#define MAXB 4096

AWS_STATIC_STRING_FROM_LITERAL(s_lit1, "");
AWS_STATIC_STRING_FROM_LITERAL(s_lit2, "a");
AWS_STATIC_STRING_FROM_LITERAL(s_lit3, "Az");
AWS_STATIC_STRING_FROM_LITERAL(s_lit4, "a\0b");
AWS_STATIC_STRING_FROM_LITERAL(s_lit5, "@[`{");
AWS_STATIC_STRING_FROM_LITERAL(s_lit6, "\x80\xff\xc1");
AWS_STATIC_STRING_FROM_LITERAL(s_lit7, "hello, World");
AWS_STATIC_STRING_FROM_LITERAL(s_lit8, "AZ");
#define NLIT 8

static const struct aws_string *slot[NS + 1]; /* slot[0] stays NULL: argument 0 is the NULL pointer */

/* caller-laid-out strings (allocator NULL): exact-size blocks kept until the next RESET, because clone_or_reuse may
 * have handed the same pointer to another slot */
static void *raw_blocks[512];
static int n_raw;

/* destination buffer for write_from_whole_string: caller's memory, exact size */
static struct aws_byte_buf dst;
static uint8_t *dst_mem;
static const uint8_t *dst_ptr0; /* buffer pointer right after initialisation */
static int dst_on;

/* allocator seen by the library: the tracking allocator of the core, plus a look at each block at the moment it is
 * given back (which slot's string it is; were its data bytes all zero) */
static long long rel_count, rel_slot, rel_zero;
static size_t base_blocks; /* blocks outstanding when the execution started */
static void x_release(struct aws_allocator *a, void *p) {
    if (p) {
        rel_count++;
        rel_slot = 0;
        rel_zero = -1;
        for (int i = 1; i <= NS; ++i) {
            if ((const void *)slot[i] == p) {
                rel_slot = i;
            }
        }
        size_t n = vh_block_size(p);
        size_t off = offsetof(struct aws_string, bytes);
        if (n != (size_t)-1 && n > off) {
            const struct aws_string *s = p;
            size_t len = s->len;
            if (len > n - off) {
                len = n - off;
            }
            rel_zero = 1;
            for (size_t i = 0; i < len; ++i) {
                if (s->bytes[i]) {
                    rel_zero = 0;
                }
            }
        }
    }
    vh_rel(a, p);
}
static struct aws_allocator x_allocator = {
    .mem_acquire = vh_acq,
    .mem_release = x_release,
    .mem_realloc = vh_realloc,
    .mem_calloc = vh_calloc,
};

/* ---- script operands: hex bytes; "-" = no bytes (valid pointer), "~" = no bytes (NULL pointer), "NULL" = no object */
struct operand {
    int is_null; /* the object itself is NULL */
    uint8_t *p;  /* exact-size block (or NULL for "~") */
    size_t n;
};
static uint8_t scratch[MAXB];
static size_t parse_hex(const char *t) {
    size_t n = 0;
    if (t[0] == '-' || t[0] == '~') {
        return 0;
    }
    while (t[0] && t[1] && n < MAXB) {
        unsigned v = 0;
        sscanf(t, "%2x", &v);
        scratch[n++] = (uint8_t)v;
        t += 2;
    }
    return n;
}
/* extra = 1 appends a 0x00 terminator that is not part of the logged bytes (C strings) */
static struct operand operand(const char *t, int extra) {
    struct operand o = {0, NULL, 0};
    if (strcmp(t, "NULL") == 0) {
        o.is_null = 1;
        return o;
    }
    o.n = parse_hex(t);
    if (t[0] == '~' && !extra) {
        return o;
    }
    o.p = malloc(o.n + (size_t)extra);
    if (o.n) {
        memcpy(o.p, scratch, o.n);
    }
    if (extra) {
        o.p[o.n] = 0;
    }
    return o;
}
static void log_operand(const struct operand *o) {
    vh_int("nul", o->is_null);
    vh_bytes("b", o->p, o->n);
}

static void state(void) {
    vh_obj_begin("s");
    vh_arr_begin("sl");
    for (int i = 1; i <= NS; ++i) {
        const struct aws_string *s = slot[i];
        vh_obj_begin(NULL);
        vh_int("l", s != NULL);
        vh_int("o", s && s->allocator != NULL);
        vh_bytes("b", s ? aws_string_bytes(s) : NULL, s ? s->len : 0);
        vh_int("z", s ? aws_string_bytes(s)[s->len] == 0 : 0);
        vh_int("v", s ? aws_string_is_valid(s) : 0);
        vh_obj_end();
    }
    vh_arr_end();
    vh_int("alloc", (long long)vh_live_blocks - (long long)base_blocks);
    vh_int("unk", (long long)vh_unknown_releases);
    vh_int("don", dst_on);
    vh_int("dcap", dst_on ? (long long)dst.capacity : 0);
    vh_bytes("ddata", dst.buffer, dst_on ? dst.len : 0);
    vh_bytes("dtail", dst_on ? dst.buffer + dst.len : NULL, dst_on && dst.capacity >= dst.len ? dst.capacity - dst.len : 0);
    vh_int("dptr", dst_on ? dst.buffer == dst_ptr0 : 0);
    vh_obj_end();
}

static void teardown(void) {
    for (int i = 1; i <= NS; ++i) {
        if (slot[i] && slot[i]->allocator) {
            aws_string_destroy((struct aws_string *)slot[i]);
        }
        slot[i] = NULL;
    }
    for (int i = 0; i < n_raw; ++i) {
        free(raw_blocks[i]);
    }
    n_raw = 0;
    free(dst_mem);
    dst_mem = NULL;
    dst_on = 0;
    AWS_ZERO_STRUCT(dst);
}

/* which tokens of a line are slot arguments: 'f' must be free, 's' live or 0 (NULL), 'n' live, '*' = all 's'.
 * A script is written against what the calls before it are documented to do; if the library did something else (kept a
 * string it should have released, ...) a later line may no longer be applicable. That line is reported, not executed:
 * the specification has no such event, and the validator will already have stopped at the call that went wrong. */
static const struct {
    const char *op, *args;
} shapes[] = {{"STATIC", "f"},  {"RAW", "f"},     {"FORGET", "n"}, {"NEWC", "f"},   {"NEWA", "f"},    {"NEWS", "fn"},
              {"NEWCUR", "f"},  {"NEWBUF", "f"},  {"NEWDST", "f"}, {"DESTROY", "s"}, {"SECURE", "s"}, {"CLONE", "fn"},
              {"EQ", "ss"},     {"EQI", "ss"},    {"EQCUR", "s"},  {"EQCURI", "s"}, {"EQBUF", "s"},   {"EQBUFI", "s"},
              {"EQC", "s"},     {"EQCI", "s"},    {"CMP", "ss"},   {"CMPREF", "ss"}, {"SORT", "*"},   {"WRITE", "s"},
              {"WRITENB", "s"}, {"CURSOR", "s"},  {"BYTES", "n"},  {"VALID", "s"}};
static int usable(void) {
    for (size_t k = 0; k < sizeof(shapes) / sizeof(shapes[0]); ++k) {
        if (strcmp(vh_tok[0], shapes[k].op) != 0) {
            continue;
        }
        const char *a = shapes[k].args;
        int n = a[0] == '*' ? vh_ntok - 1 : (int)strlen(a);
        if (vh_ntok - 1 < n) {
            return 0;
        }
        for (int i = 0; i < n; ++i) {
            char kind = a[0] == '*' ? 's' : a[i];
            long long v = strtoll(vh_tok[i + 1], NULL, 0);
            if (v < 0 || v > NS) {
                return 0;
            }
            if (kind == 'f' && (v == 0 || slot[v])) {
                return 0;
            }
            if (kind == 'n' && (v == 0 || !slot[v])) {
                return 0;
            }
            if (kind == 's' && v != 0 && !slot[v]) {
                return 0;
            }
        }
        if (strcmp(vh_tok[0], "SECURE") == 0) {
            long long v = strtoll(vh_tok[1], NULL, 0);
            if (v != 0 && slot[v]->allocator == NULL) {
                return 0; /* "not safe to run on a string created with AWS_STATIC_STRING_FROM_LITERAL" */
            }
        }
        if ((strcmp(vh_tok[0], "WRITE") == 0 || strcmp(vh_tok[0], "NEWDST") == 0) && !dst_on) {
            return 0;
        }
    }
    return 1;
}
static int slot_arg(int i) {
    long long a = vh_argi(i);
    if (a < 0 || a > NS || (a != 0 && !slot[a])) {
        fprintf(stderr, "script: %s uses slot %lld which holds no string\n", vh_tok[0], a);
        exit(3);
    }
    return (int)a;
}
static int free_slot_arg(int i) {
    long long d = vh_argi(i);
    if (d < 1 || d > NS || slot[d]) {
        fprintf(stderr, "script: %s needs free slot, %lld is not\n", vh_tok[0], d);
        exit(3);
    }
    return (int)d;
}
static void *raw_block(size_t n) {
    if (n_raw >= 512) {
        fprintf(stderr, "script: too many caller-built strings\n");
        exit(3);
    }
    void *p = malloc(n);
    raw_blocks[n_raw++] = p;
    return p;
}
/* a string laid out by the caller, as the header describes: allocator NULL, len, bytes, terminator */
static struct aws_string *build_raw(const uint8_t *bytes, size_t n, uint8_t term) {
    size_t off = offsetof(struct aws_string, bytes);
    uint8_t *blk = raw_block(off + n + 1);
    struct aws_allocator *none = NULL;
    memcpy(blk + offsetof(struct aws_string, allocator), &none, sizeof(none));
    memcpy(blk + offsetof(struct aws_string, len), &n, sizeof(n));
    if (n) {
        memcpy(blk + off, bytes, n);
    }
    blk[off + n] = term;
    return (struct aws_string *)blk;
}
static void created(const char *ev, int d, const struct aws_string *s) {
    slot[d] = s;
    vh_begin(ev);
    vh_int("d", d);
    vh_int("ok", s != NULL);
}
static int sign(int r) {
    return (r > 0) - (r < 0);
}

static void do_forget(int d) {
    slot[d] = NULL;
    vh_begin("Forget");
    vh_int("d", d);
    state();
    vh_end();
}
static void do_destroy(int a, int secure) {
    struct aws_string *s = (struct aws_string *)slot[a];
    rel_count = 0;
    rel_slot = 0;
    rel_zero = -1;
    if (secure) {
        aws_string_destroy_secure(s);
    } else {
        aws_string_destroy(s);
    }
    if (rel_slot) {
        slot[rel_slot] = NULL; /* that memory is gone */
    }
    vh_begin(secure ? "DestroySecure" : "Destroy");
    vh_int("a", a);
    vh_int("nrel", rel_count);
    vh_int("rel", rel_slot);
    vh_int("z", rel_zero);
    state();
    vh_end();
}

int main(int argc, char **argv) {
    if (argc < 3) {
        return 3;
    }
    FILE *in = fopen(argv[1], "r");
    vh_open(argv[2]);
    vh_install_handlers(120);
    struct aws_allocator *alloc = &x_allocator;
    const struct aws_string *lits[NLIT + 1] = {NULL, s_lit1, s_lit2, s_lit3, s_lit4, s_lit5, s_lit6, s_lit7, s_lit8};

    while (vh_next(in)) {
        if (!usable()) {
            vh_begin("Unusable");
            vh_str("op", vh_tok[0]);
            vh_end();
            continue;
        }
        if (vh_is("RESET")) {
            teardown();
            base_blocks = vh_live_blocks;
            vh_begin("Reset");
            vh_end();
        } else if (vh_is("STATIC")) {
            int d = free_slot_arg(1);
            int k = (int)vh_argi(2);
            slot[d] = lits[k];
            vh_begin("Static");
            vh_int("d", d);
            vh_int("k", k);
            state();
            vh_end();
        } else if (vh_is("RAW")) {
            int d = free_slot_arg(1);
            struct operand o = operand(vh_args(2), 0);
            slot[d] = build_raw(o.p, o.n, 0);
            vh_begin("Raw");
            vh_int("d", d);
            vh_bytes("b", o.p, o.n);
            state();
            vh_end();
            free(o.p);
        } else if (vh_is("FORGET")) {
            do_forget(slot_arg(1));
        } else if (vh_is("NEWC")) {
            int d = free_slot_arg(1);
            struct operand o = operand(vh_args(2), 1);
            const struct aws_string *s = aws_string_new_from_c_str(alloc, (const char *)o.p);
            created("NewCStr", d, s);
            vh_bytes("b", o.p, o.n);
            state();
            vh_end();
            free(o.p);
        } else if (vh_is("NEWA")) {
            int d = free_slot_arg(1);
            struct operand o = operand(vh_args(2), 0);
            const struct aws_string *s = aws_string_new_from_array(alloc, o.p, o.n);
            created("NewArray", d, s);
            vh_bytes("b", o.p, o.n);
            state();
            vh_end();
            free(o.p);
        } else if (vh_is("NEWS")) {
            int d = free_slot_arg(1);
            int a = slot_arg(2);
            const struct aws_string *s = aws_string_new_from_string(alloc, slot[a]);
            created("NewString", d, s);
            vh_int("a", a);
            state();
            vh_end();
        } else if (vh_is("NEWCUR")) {
            int d = free_slot_arg(1);
            struct operand o = operand(vh_args(2), 0);
            struct aws_byte_cursor cur = aws_byte_cursor_from_array(o.p, o.n);
            const struct aws_string *s = aws_string_new_from_cursor(alloc, &cur);
            created("NewCursor", d, s);
            vh_bytes("b", o.p, o.n);
            state();
            vh_end();
            free(o.p);
        } else if (vh_is("NEWBUF")) {
            int d = free_slot_arg(1);
            struct operand o = operand(vh_args(2), 0);
            size_t n = (size_t)vh_argi(3);
            struct aws_byte_buf buf = aws_byte_buf_from_empty_array(o.p, o.n);
            buf.len = n;
            const struct aws_string *s = aws_string_new_from_buf(alloc, &buf);
            created("NewBuf", d, s);
            vh_bytes("b", o.p, o.n);
            vh_int("n", (long long)n);
            state();
            vh_end();
            free(o.p);
        } else if (vh_is("NEWDST")) {
            int d = free_slot_arg(1);
            const struct aws_string *s = aws_string_new_from_buf(alloc, &dst);
            created("NewDst", d, s);
            state();
            vh_end();
        } else if (vh_is("DESTROY") || vh_is("SECURE")) {
            do_destroy(slot_arg(1), vh_is("SECURE"));
        } else if (vh_is("CLEANUP")) {
            /* end of an execution: every remaining string is destroyed (or, without allocator, dropped) by the same
             * calls and reported by the same events as scripted DESTROY / FORGET lines */
            for (int i = 1; i <= NS; ++i) {
                if (slot[i] && slot[i]->allocator) {
                    do_destroy(i, 0);
                } else if (slot[i]) {
                    do_forget(i);
                }
            }
        } else if (vh_is("CLONE")) {
            int d = free_slot_arg(1);
            int a = slot_arg(2);
            const struct aws_string *s = aws_string_clone_or_reuse(alloc, slot[a]);
            created("Clone", d, s);
            vh_int("a", a);
            vh_int("same", s == slot[a]);
            state();
            vh_end();
        } else if (vh_is("EQ") || vh_is("EQI")) {
            int a = slot_arg(1), c = slot_arg(2);
            int ic = vh_is("EQI");
            bool r = ic ? aws_string_eq_ignore_case(slot[a], slot[c]) : aws_string_eq(slot[a], slot[c]);
            vh_begin(ic ? "EqI" : "Eq");
            vh_int("a", a);
            vh_int("c", c);
            vh_int("r", r);
            state();
            vh_end();
        } else if (vh_is("EQCUR") || vh_is("EQCURI")) {
            int a = slot_arg(1);
            int ic = vh_is("EQCURI");
            struct operand o = operand(vh_args(2), 0);
            struct aws_byte_cursor cur = aws_byte_cursor_from_array(o.p, o.n);
            const struct aws_byte_cursor *cp = o.is_null ? NULL : &cur;
            bool r = ic ? aws_string_eq_byte_cursor_ignore_case(slot[a], cp) : aws_string_eq_byte_cursor(slot[a], cp);
            vh_begin(ic ? "EqCurI" : "EqCur");
            vh_int("a", a);
            log_operand(&o);
            vh_int("r", r);
            state();
            vh_end();
            free(o.p);
        } else if (vh_is("EQBUF") || vh_is("EQBUFI")) {
            int a = slot_arg(1);
            int ic = vh_is("EQBUFI");
            struct operand o = operand(vh_args(2), 0);
            size_t n = o.is_null ? 0 : (size_t)vh_argi(3);
            struct aws_byte_buf buf = aws_byte_buf_from_empty_array(o.p, o.n);
            buf.len = n;
            const struct aws_byte_buf *bp = o.is_null ? NULL : &buf;
            bool r = ic ? aws_string_eq_byte_buf_ignore_case(slot[a], bp) : aws_string_eq_byte_buf(slot[a], bp);
            vh_begin(ic ? "EqBufI" : "EqBuf");
            vh_int("a", a);
            log_operand(&o);
            vh_int("n", (long long)n);
            vh_int("r", r);
            state();
            vh_end();
            free(o.p);
        } else if (vh_is("EQC") || vh_is("EQCI")) {
            int a = slot_arg(1);
            int ic = vh_is("EQCI");
            struct operand o = operand(vh_args(2), 1);
            const char *cs = o.is_null ? NULL : (const char *)o.p;
            bool r = ic ? aws_string_eq_c_str_ignore_case(slot[a], cs) : aws_string_eq_c_str(slot[a], cs);
            vh_begin(ic ? "EqCI" : "EqC");
            vh_int("a", a);
            log_operand(&o);
            vh_int("r", r);
            state();
            vh_end();
            free(o.p);
        } else if (vh_is("CMP")) {
            int a = slot_arg(1), c = slot_arg(2);
            int r = aws_string_compare(slot[a], slot[c]);
            vh_begin("Compare");
            vh_int("a", a);
            vh_int("c", c);
            vh_int("sg", sign(r));
            state();
            vh_end();
        } else if (vh_is("CMPREF")) {
            int a = slot_arg(1), c = slot_arg(2);
            /* the comparator receives pointers to list elements, i.e. to (const struct aws_string *) */
            const struct aws_string **ea = malloc(sizeof(*ea)), **ec = malloc(sizeof(*ec));
            *ea = slot[a];
            *ec = slot[c];
            int r = aws_array_list_comparator_string(ea, ec);
            vh_begin("Comparator");
            vh_int("a", a);
            vh_int("c", c);
            vh_int("sg", sign(r));
            state();
            vh_end();
            free(ea);
            free(ec);
        } else if (vh_is("SORT")) {
            int n = vh_ntok - 1;
            long long inl[64];
            struct aws_array_list list;
            int rc = aws_array_list_init_dynamic(&list, aws_default_allocator(), (size_t)n, sizeof(const struct aws_string *));
            for (int i = 0; i < n && i < 64; ++i) {
                int a = slot_arg(i + 1);
                inl[i] = a;
                const struct aws_string *s = slot[a];
                rc |= aws_array_list_push_back(&list, &s);
            }
            aws_array_list_sort(&list, aws_array_list_comparator_string);
            vh_begin("Sort");
            vh_ints("in", inl, (size_t)n);
            vh_arr_begin("out");
            size_t m = aws_array_list_length(&list);
            for (size_t i = 0; i < m; ++i) {
                const struct aws_string *s = NULL;
                rc |= aws_array_list_get_at(&list, &s, i);
                vh_obj_begin(NULL);
                vh_int("nul", s == NULL);
                vh_bytes("b", s ? aws_string_bytes(s) : NULL, s ? s->len : 0);
                vh_obj_end();
            }
            vh_arr_end();
            vh_int("rc", rc);
            state();
            vh_end();
            aws_array_list_clean_up(&list);
        } else if (vh_is("BUFINIT")) {
            size_t cap = (size_t)vh_argi(1);
            struct operand o = operand(vh_args(2), 0);
            free(dst_mem);
            dst_mem = malloc(cap);
            memset(dst_mem, 0xEE, cap);
            dst = aws_byte_buf_from_empty_array(dst_mem, cap);
            if (o.n <= cap) {
                if (o.n) {
                    memcpy(dst_mem, o.p, o.n);
                }
                dst.len = o.n;
            }
            dst_ptr0 = dst.buffer;
            dst_on = 1;
            vh_begin("DstInit");
            vh_int("cap", (long long)cap);
            vh_bytes("b", o.p, o.n);
            state();
            vh_end();
            free(o.p);
        } else if (vh_is("WRITE")) {
            int a = slot_arg(1);
            bool r = aws_byte_buf_write_from_whole_string(&dst, slot[a]);
            vh_begin("Write");
            vh_int("a", a);
            vh_int("r", r);
            state();
            vh_end();
        } else if (vh_is("WRITENB")) {
            int a = slot_arg(1);
            bool r = aws_byte_buf_write_from_whole_string(NULL, slot[a]);
            vh_begin("WriteNoBuf");
            vh_int("a", a);
            vh_int("r", r);
            state();
            vh_end();
        } else if (vh_is("CURSOR")) {
            int a = slot_arg(1);
            struct aws_byte_cursor cur = aws_byte_cursor_from_string(slot[a]);
            vh_begin("Cursor");
            vh_int("a", a);
            vh_int("n", (long long)cur.len);
            vh_bytes("b", cur.ptr, cur.len);
            vh_int("ps", slot[a] ? cur.ptr == slot[a]->bytes : 0);
            state();
            vh_end();
        } else if (vh_is("BYTES")) {
            int a = slot_arg(1);
            const uint8_t *pb = aws_string_bytes(slot[a]);
            const char *pc = aws_string_c_str(slot[a]);
            vh_begin("Bytes");
            vh_int("a", a);
            vh_int("eb", pb == slot[a]->bytes);
            vh_int("ec", (const uint8_t *)pc == slot[a]->bytes);
            vh_int("cl", (long long)strlen(pc));
            state();
            vh_end();
        } else if (vh_is("STRLEN")) {
            struct operand o = operand(vh_args(1), 0);
            long long max = vh_argi(2);
            size_t out = 777777;
            int rc = aws_secure_strlen((const char *)o.p, max < 0 ? SIZE_MAX : (size_t)max, &out);
            vh_begin("SecureStrlen");
            vh_bytes("b", o.p, o.n);
            vh_int("max", max < 0 ? -1 : max);
            vh_rc(rc);
            vh_int("n", (long long)out);
            state();
            vh_end();
            free(o.p);
        } else if (vh_is("VALID")) {
            int a = slot_arg(1);
            bool r = aws_string_is_valid(slot[a]);
            vh_begin("IsValid");
            vh_int("a", a);
            vh_int("r", r);
            state();
            vh_end();
        } else if (vh_is("VALIDRAW")) {
            struct operand o = operand(vh_args(1), 0);
            int t = (int)vh_argi(2);
            const struct aws_string *s = build_raw(o.p, o.n, (uint8_t)t);
            bool r = aws_string_is_valid(s);
            vh_begin("IsValidRaw");
            vh_bytes("b", o.p, o.n);
            vh_int("t", t);
            vh_int("r", r);
            state();
            vh_end();
            free(o.p);
        } else if (vh_is("CVALID")) {
            int nul = (int)vh_argi(1);
            bool r = aws_c_string_is_valid(nul ? NULL : "x");
            vh_begin("CStrIsValid");
            vh_int("nul", nul);
            vh_int("r", r);
            state();
            vh_end();
        } else if (vh_is("SPACE")) {
            int c = (int)vh_argi(1);
            bool r = aws_char_is_space((uint8_t)c);
            vh_begin("CharIsSpace");
            vh_int("c", c);
            vh_int("r", r);
            state();
            vh_end();
        }
    }
    teardown();
    vh_begin("End");
    vh_int("live", (long long)vh_live_blocks);
    vh_end();
    fclose(vh_out);
    return 0;
}
