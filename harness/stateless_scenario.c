/* "Stateless" APIs on several threads at once (spec/Stateless/Stateless.tla).  The parsers and codecs of the library take
 * their whole input as an argument and keep no state between calls as far as a caller can tell; so what a call reports
 * must not depend on what other threads are doing.  Every operation of the scenario is performed by 2-3 threads at once
 * (Res events) and afterwards by the main thread alone (Ref events); an operation's outcome is condensed into a 30-bit digest
 * over everything the call reported (return code, error name, every callback with its arguments, every output byte).
 * The same scenarios run on the ThreadSanitizer build: hidden shared state is a data race whatever the schedule.
 * Scenario lines:
 *   OP <i> <kind>:<hex input>[:<arg>]       operation i (1..MAXOP)
 *   THREAD <k> <i> <i> ...                  thread k performs these operations, in this order
 *  kinds:  xs / xb / xd   XML document: traverse everything, skipping (s) every second element at depth >= 1, reading the
 *                         body (b) of every leaf, or descending (d) everywhere
 *          uri            aws_uri_init_parse + every component + query parameters
 *          js             JSON text: parse, serialise compact and formatted, duplicate, compare
 *          cb             CBOR bytes: walk all items (peek type, pop scalars, enter containers), then skip every top item
 *          dt:<fmt>       date-time text: parse (r = RFC 822, i = ISO 8601, b = basic, a = auto), format back in 2 forms
 *          pe / pd        percent-encode path + param / percent-decode
 *          qp / la        a pseudo-random program on a priority queue / an array list of the thread's own (input: element
 *                         size, steps, seed): everything popped or read, byte for byte */
#include "vh_core.h"

#include "vsched/vsched_impl.h"

#include <aws/common/cbor.h>
#include <aws/common/date_time.h>
#include <aws/common/array_list.h>
#include <aws/common/json.h>
#include <aws/common/priority_queue.h>
#include <aws/common/thread.h>
#include <aws/common/uri.h>
#include <aws/common/xml_parser.h>

#define MAXOP 24
#define MAXT 4
#define MAXIN 2000
struct op {
    bool defined;
    char kind[4];
    char arg;
    uint8_t *in; /* exact-size block */
    size_t len;
};
static struct op ops[MAXOP + 1];
struct prog {
    int k, n;
    int list[64];
    struct aws_thread thread;
};
static struct prog thr[MAXT];
static int nthr;

/* ---- digest (FNV-1a, folded to 30 bits) */
struct dg {
    uint32_t h;
};
static void dg_init(struct dg *d) {
    d->h = 2166136261u;
}
static void dg_bytes(struct dg *d, const void *p, size_t n) {
    for (size_t i = 0; i < n; ++i) {
        d->h = (d->h ^ ((const uint8_t *)p)[i]) * 16777619u;
    }
    d->h = (d->h ^ 0xff) * 16777619u; /* field separator */
}
static void dg_u64(struct dg *d, uint64_t v) {
    dg_bytes(d, &v, sizeof(v));
}
static void dg_cur(struct dg *d, struct aws_byte_cursor c) {
    dg_u64(d, c.len);
    dg_bytes(d, c.ptr, c.len);
}
static void dg_rc(struct dg *d, int rc) {
    dg_u64(d, (uint64_t)(int64_t)rc);
    if (rc) {
        const char *nm = aws_error_name(aws_last_error());
        dg_bytes(d, nm, strlen(nm));
    }
}
static long long dg_val(const struct dg *d) {
    return (long long)((d->h ^ (d->h >> 30)) & 0x3fffffffu);
}

/* ---- XML */
struct xctx {
    struct dg *d;
    char mode;
    int depth, count;
};
static int on_node(struct aws_xml_node *node, void *ud) {
    struct xctx *x = ud;
    x->count++;
    dg_u64(x->d, (uint64_t)x->depth);
    dg_cur(x->d, aws_xml_node_get_name(node));
    size_t na = aws_xml_node_get_num_attributes(node);
    dg_u64(x->d, na);
    for (size_t i = 0; i < na; ++i) {
        struct aws_xml_attribute a = aws_xml_node_get_attribute(node, i);
        dg_cur(x->d, a.name);
        dg_cur(x->d, a.value);
    }
    vs_point();
    if (x->mode == 's' && x->depth >= 1 && (x->count & 1)) {
        return AWS_OP_SUCCESS; /* not touched: the parser skips it */
    }
    if (x->mode == 'b' && x->depth >= 1 && (x->count % 3) == 0) {
        struct aws_byte_cursor body;
        AWS_ZERO_STRUCT(body);
        int rc = aws_xml_node_as_body(node, &body);
        dg_rc(x->d, rc);
        if (rc == 0) {
            dg_cur(x->d, body);
        }
        return rc;
    }
    x->depth++;
    int rc = aws_xml_node_traverse(node, on_node, x);
    x->depth--;
    dg_rc(x->d, rc);
    return rc;
}
static void do_xml(struct op *o, struct dg *d) {
    struct xctx x = {.d = d, .mode = o->kind[1], .depth = 0, .count = 0};
    struct aws_xml_parser_options opt = {
        .doc = aws_byte_cursor_from_array(o->in, o->len), .max_depth = 0, .on_root_encountered = on_node, .user_data = &x};
    dg_rc(d, aws_xml_parse(vh_alloc(), &opt));
    dg_u64(d, (uint64_t)x.count);
}

/* ---- URI */
static void do_uri(struct op *o, struct dg *d) {
    struct aws_uri uri;
    struct aws_byte_cursor c = aws_byte_cursor_from_array(o->in, o->len);
    int rc = aws_uri_init_parse(&uri, vh_alloc(), &c);
    dg_rc(d, rc);
    if (rc) {
        return;
    }
    dg_cur(d, *aws_uri_scheme(&uri));
    dg_cur(d, *aws_uri_authority(&uri));
    dg_cur(d, *aws_uri_host_name(&uri));
    dg_u64(d, aws_uri_port(&uri));
    dg_cur(d, *aws_uri_path(&uri));
    dg_cur(d, *aws_uri_query_string(&uri));
    dg_cur(d, *aws_uri_path_and_query(&uri));
    struct aws_uri_param p;
    AWS_ZERO_STRUCT(p);
    int n = 0;
    while (aws_uri_query_string_next_param(&uri, &p) && n++ < 64) {
        dg_cur(d, p.key);
        dg_cur(d, p.value);
    }
    aws_uri_clean_up(&uri);
}
static void do_pct(struct op *o, struct dg *d) {
    struct aws_byte_buf out;
    aws_byte_buf_init(&out, vh_alloc(), 8);
    struct aws_byte_cursor c = aws_byte_cursor_from_array(o->in, o->len);
    if (o->kind[1] == 'e') {
        dg_rc(d, aws_byte_buf_append_encoding_uri_path(&out, &c));
        vs_point();
        dg_rc(d, aws_byte_buf_append_encoding_uri_param(&out, &c));
    } else {
        dg_rc(d, aws_byte_buf_append_decoding_uri(&out, &c));
    }
    dg_cur(d, aws_byte_cursor_from_buf(&out));
    aws_byte_buf_clean_up(&out);
}

/* ---- JSON */
static void do_json(struct op *o, struct dg *d) {
    struct aws_json_value *v = aws_json_value_new_from_string(vh_alloc(), aws_byte_cursor_from_array(o->in, o->len));
    dg_u64(d, v != NULL);
    if (!v) {
        return;
    }
    struct aws_byte_buf out;
    aws_byte_buf_init(&out, vh_alloc(), 16);
    dg_rc(d, aws_byte_buf_append_json_string(v, &out));
    dg_cur(d, aws_byte_cursor_from_buf(&out));
    vs_point();
    out.len = 0;
    dg_rc(d, aws_byte_buf_append_json_string_formatted(v, &out));
    dg_cur(d, aws_byte_cursor_from_buf(&out));
    struct aws_json_value *dup = aws_json_value_duplicate(v);
    dg_u64(d, dup != NULL && aws_json_value_compare(v, dup, true));
    aws_json_value_destroy(dup);
    aws_json_value_destroy(v);
    aws_byte_buf_clean_up(&out);
}

/* ---- CBOR */
static void do_cbor(struct op *o, struct dg *d) {
    struct aws_byte_cursor src = aws_byte_cursor_from_array(o->in, o->len);
    struct aws_cbor_decoder *dec = aws_cbor_decoder_new(vh_alloc(), src);
    for (int guard = 0; guard < 4000 && aws_cbor_decoder_get_remaining_length(dec) > 0; ++guard) {
        enum aws_cbor_type t = AWS_CBOR_TYPE_UNKNOWN;
        int rc = aws_cbor_decoder_peek_type(dec, &t);
        dg_rc(d, rc);
        if (rc) {
            break;
        }
        dg_u64(d, (uint64_t)t);
        uint64_t u = 0;
        double f = 0;
        bool b = false;
        struct aws_byte_cursor c;
        AWS_ZERO_STRUCT(c);
        switch (t) {
            case AWS_CBOR_TYPE_UINT:
                rc = aws_cbor_decoder_pop_next_unsigned_int_val(dec, &u);
                break;
            case AWS_CBOR_TYPE_NEGINT:
                rc = aws_cbor_decoder_pop_next_negative_int_val(dec, &u);
                break;
            case AWS_CBOR_TYPE_FLOAT:
                rc = aws_cbor_decoder_pop_next_float_val(dec, &f);
                memcpy(&u, &f, sizeof(u));
                break;
            case AWS_CBOR_TYPE_BYTES:
                rc = aws_cbor_decoder_pop_next_bytes_val(dec, &c);
                break;
            case AWS_CBOR_TYPE_TEXT:
                rc = aws_cbor_decoder_pop_next_text_val(dec, &c);
                break;
            case AWS_CBOR_TYPE_ARRAY_START:
                rc = aws_cbor_decoder_pop_next_array_start(dec, &u);
                break;
            case AWS_CBOR_TYPE_MAP_START:
                rc = aws_cbor_decoder_pop_next_map_start(dec, &u);
                break;
            case AWS_CBOR_TYPE_TAG:
                rc = aws_cbor_decoder_pop_next_tag_val(dec, &u);
                break;
            case AWS_CBOR_TYPE_BOOL:
                rc = aws_cbor_decoder_pop_next_boolean_val(dec, &b);
                u = b;
                break;
            default: /* null, undefined, break, indefinite starts */
                rc = aws_cbor_decoder_consume_next_single_element(dec);
                break;
        }
        dg_rc(d, rc);
        if (rc) {
            break;
        }
        dg_u64(d, u);
        dg_cur(d, c);
    }
    aws_cbor_decoder_destroy(dec);
    vs_point();
    dec = aws_cbor_decoder_new(vh_alloc(), src);
    for (int guard = 0; guard < 4000 && aws_cbor_decoder_get_remaining_length(dec) > 0; ++guard) {
        int rc = aws_cbor_decoder_consume_next_whole_data_item(dec);
        dg_rc(d, rc);
        dg_u64(d, aws_cbor_decoder_get_remaining_length(dec));
        if (rc) {
            break;
        }
    }
    aws_cbor_decoder_destroy(dec);
}

/* ---- date-time */
static void do_date(struct op *o, struct dg *d) {
    enum aws_date_format f = o->arg == 'r'   ? AWS_DATE_FORMAT_RFC822
                             : o->arg == 'i' ? AWS_DATE_FORMAT_ISO_8601
                             : o->arg == 'b' ? AWS_DATE_FORMAT_ISO_8601_BASIC
                                             : AWS_DATE_FORMAT_AUTO_DETECT;
    struct aws_date_time dt;
    struct aws_byte_cursor c = aws_byte_cursor_from_array(o->in, o->len);
    int rc = aws_date_time_init_from_str_cursor(&dt, &c, f);
    dg_rc(d, rc);
    if (rc) {
        return;
    }
    dg_u64(d, (uint64_t)aws_date_time_as_epoch_secs(&dt));
    dg_u64(d, aws_date_time_as_millis(&dt));
    uint8_t text[AWS_DATE_TIME_STR_MAX_LEN + 8];
    struct aws_byte_buf out = aws_byte_buf_from_empty_array(text, AWS_DATE_TIME_STR_MAX_LEN);
    dg_rc(d, aws_date_time_to_utc_time_str(&dt, AWS_DATE_FORMAT_RFC822, &out));
    dg_cur(d, aws_byte_cursor_from_buf(&out));
    vs_point();
    out.len = 0;
    dg_rc(d, aws_date_time_to_utc_time_str(&dt, AWS_DATE_FORMAT_ISO_8601, &out));
    dg_cur(d, aws_byte_cursor_from_buf(&out));
}

/* ---- containers: an operation is a whole pseudo-random program on a container of its own (input = element size, two bytes,
 * number of steps, four seed bytes).  Nothing is shared with other threads as far as a caller can tell, so everything the
 * program observes - every element popped or read, byte for byte - is a function of the input alone. */
static int cmp_first(const void *a, const void *b) {
    uint8_t x = *(const uint8_t *)a, y = *(const uint8_t *)b;
    return x < y ? -1 : (x > y ? 1 : 0);
}
static uint32_t lcg(uint32_t *x) {
    *x = *x * 1103515245u + 12345u;
    return *x >> 8;
}
static void fill_elem(uint8_t *e, size_t isz, uint32_t key, uint32_t step) {
    for (size_t i = 0; i < isz; ++i) {
        e[i] = (uint8_t)(key * 31u + step * 7u + (uint32_t)i * 13u);
    }
    e[0] = (uint8_t)key;
}
static void do_pq(struct op *o, struct dg *d) {
    if (o->len < 7) {
        return;
    }
    size_t isz = ((size_t)o->in[0] << 8 | o->in[1]) ? ((size_t)o->in[0] << 8 | o->in[1]) : 1;
    int n = o->in[2];
    uint32_t x = (uint32_t)o->in[3] << 24 | (uint32_t)o->in[4] << 16 | (uint32_t)o->in[5] << 8 | o->in[6];
    struct aws_priority_queue q;
    aws_priority_queue_init_dynamic(&q, vh_alloc(), 2, isz, cmp_first);
    struct aws_priority_queue_node nodes[6];
    for (int h = 0; h < 6; ++h) {
        aws_priority_queue_node_init(&nodes[h]);
    }
    uint8_t *e = malloc(isz), *out = malloc(isz);
    for (int step = 0; step < n; ++step) {
        uint32_t r = lcg(&x);
        size_t sz = aws_priority_queue_size(&q);
        if (r % 4 != 0 || sz == 0) {
            fill_elem(e, isz, r >> 4, (uint32_t)step);
            int h = (int)(r % 6);
            if ((r & 64) && !aws_priority_queue_node_is_in_queue(&nodes[h])) {
                dg_rc(d, aws_priority_queue_push_ref(&q, e, &nodes[h]));
            } else {
                dg_rc(d, aws_priority_queue_push(&q, e));
            }
        } else if (r & 128) {
            int h = (int)((r >> 9) % 6);
            if (aws_priority_queue_node_is_in_queue(&nodes[h])) {
                dg_rc(d, aws_priority_queue_remove(&q, out, &nodes[h]));
                dg_bytes(d, out, isz);
            }
        } else {
            dg_rc(d, aws_priority_queue_pop(&q, out));
            dg_bytes(d, out, isz);
        }
        if (r & 32) {
            vs_point();
        }
    }
    while (aws_priority_queue_size(&q)) {
        dg_rc(d, aws_priority_queue_pop(&q, out));
        dg_bytes(d, out, isz);
    }
    aws_priority_queue_clean_up(&q);
    free(e);
    free(out);
}
static void do_al(struct op *o, struct dg *d) {
    if (o->len < 7) {
        return;
    }
    size_t isz = ((size_t)o->in[0] << 8 | o->in[1]) ? ((size_t)o->in[0] << 8 | o->in[1]) : 1;
    int n = o->in[2];
    uint32_t x = (uint32_t)o->in[3] << 24 | (uint32_t)o->in[4] << 16 | (uint32_t)o->in[5] << 8 | o->in[6];
    struct aws_array_list l;
    aws_array_list_init_dynamic(&l, vh_alloc(), 1, isz);
    uint8_t *e = malloc(isz);
    for (int step = 0; step < n; ++step) {
        uint32_t r = lcg(&x);
        size_t len = aws_array_list_length(&l);
        switch (len ? r % 6 : 0) {
            case 0:
            case 1:
                fill_elem(e, isz, r >> 4, (uint32_t)step);
                dg_rc(d, (r & 64) ? aws_array_list_push_back(&l, e) : aws_array_list_push_front(&l, e));
                break;
            case 2:
                aws_array_list_swap(&l, (r >> 8) % len, (r >> 14) % len);
                break;
            case 3:
                aws_array_list_sort(&l, cmp_first);
                break;
            case 4:
                dg_rc(d, aws_array_list_get_at(&l, e, (r >> 8) % len));
                dg_bytes(d, e, isz);
                break;
            default:
                dg_rc(d, aws_array_list_back(&l, e));
                dg_bytes(d, e, isz);
                dg_rc(d, aws_array_list_pop_back(&l));
                break;
        }
        if (r & 32) {
            vs_point();
        }
    }
    for (size_t i = 0; i < aws_array_list_length(&l); ++i) {
        aws_array_list_get_at(&l, e, i);
        dg_bytes(d, e, isz);
    }
    aws_array_list_clean_up(&l);
    free(e);
}

static void perform(const char *ev, int k, int i) {
    struct op *o = &ops[i];
    struct dg d;
    dg_init(&d);
    if (o->kind[0] == 'x') {
        do_xml(o, &d);
    } else if (!strcmp(o->kind, "uri")) {
        do_uri(o, &d);
    } else if (o->kind[0] == 'p') {
        do_pct(o, &d);
    } else if (!strcmp(o->kind, "js")) {
        do_json(o, &d);
    } else if (!strcmp(o->kind, "cb")) {
        do_cbor(o, &d);
    } else if (!strcmp(o->kind, "dt")) {
        do_date(o, &d);
    } else if (!strcmp(o->kind, "qp")) {
        do_pq(o, &d);
    } else if (!strcmp(o->kind, "la")) {
        do_al(o, &d);
    }
    vh_begin(ev);
    vh_int("k", k);
    vh_int("i", i);
    vh_str("kind", o->kind);
    vh_int("dg", dg_val(&d));
    vh_end();
}

static void thread_fn(void *arg) {
    struct prog *p = arg;
    for (int j = 0; j < p->n; ++j) {
        perform("Res", p->k, p->list[j]);
    }
}

static int hexval(char c) {
    return c <= '9' ? c - '0' : (c | 0x20) - 'a' + 10;
}

static void scenario(char **lines, int nlines) {
    nthr = 0;
    memset(thr, 0, sizeof(thr));
    for (int i = 0; i <= MAXOP; ++i) {
        free(ops[i].in);
    }
    memset(ops, 0, sizeof(ops));
    for (int i = 0; i < nlines; ++i) {
        char *dup = strdup(lines[i]);
        char *save = NULL;
        char *tok = strtok_r(dup, " ", &save);
        if (tok && strcmp(tok, "OP") == 0) {
            int id = atoi(strtok_r(NULL, " ", &save));
            char *spec = strtok_r(NULL, " ", &save);
            if (id >= 1 && id <= MAXOP && spec) {
                struct op *o = &ops[id];
                char *c1 = strchr(spec, ':');
                if (c1 && c1 - spec <= 3) {
                    memcpy(o->kind, spec, (size_t)(c1 - spec));
                    char *c2 = strchr(c1 + 1, ':');
                    size_t hl = c2 ? (size_t)(c2 - c1 - 1) : strlen(c1 + 1);
                    o->len = hl / 2;
                    o->in = malloc(o->len ? o->len : 1);
                    for (size_t b = 0; b < o->len; ++b) {
                        o->in[b] = (uint8_t)(hexval(c1[1 + 2 * b]) * 16 + hexval(c1[2 + 2 * b]));
                    }
                    o->arg = c2 ? c2[1] : 0;
                    o->defined = true;
                }
            }
        } else if (tok && strcmp(tok, "THREAD") == 0 && nthr < MAXT) {
            struct prog *p = &thr[nthr++];
            p->k = atoi(strtok_r(NULL, " ", &save));
            for (char *t = strtok_r(NULL, " ", &save); t && p->n < 64; t = strtok_r(NULL, " ", &save)) {
                int id = atoi(t);
                if (id >= 1 && id <= MAXOP && ops[id].defined) {
                    p->list[p->n++] = id;
                }
            }
        }
        free(dup);
    }
    for (int i = 0; i < nthr; ++i) {
        aws_thread_init(&thr[i].thread, vh_alloc());
        aws_thread_launch(&thr[i].thread, thread_fn, &thr[i], NULL);
    }
    for (int i = 0; i < nthr; ++i) {
        aws_thread_join(&thr[i].thread);
        aws_thread_clean_up(&thr[i].thread);
    }
    /* reference pass: the main thread alone - afterwards, so that whatever the library initialises on first use is
     * initialised by the threads, at the same time */
    for (int i = 1; i <= MAXOP; ++i) {
        if (ops[i].defined) {
            perform("Ref", 0, i);
        }
    }
    for (int i = 0; i <= MAXOP; ++i) {
        free(ops[i].in);
        ops[i].in = NULL;
    }
}

int main(int argc, char **argv) {
    return vs_main(argc, argv, scenario);
}
