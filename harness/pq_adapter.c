/* C06 adapter: aws_priority_queue driven by a script; reports results and public observable state. */
#include "vh_core.h"

#include <stddef.h>

#include <aws/common/priority_queue.h>

#define NH 12
static struct aws_priority_queue pq;
static bool live, is_static;
static void *static_heap;
static size_t isz;
static struct aws_priority_queue_node nodes[NH + 1];
/* "embedded" mode (RESET ... <cmp> embed): the elements are records that carry their own handle, stored by value, and a
 * record is removed "into itself": aws_priority_queue_remove(&pq, &rec, &rec.node) - the output buffer overlaps the handle.
 * The bytes of the embedded handle are not part of the pattern. */
struct rec {
    uint8_t head[16];
    struct aws_priority_queue_node node;
    uint8_t tail[8];
};
#define NODE_OFF offsetof(struct rec, node)
static struct rec recs[NH + 1];
static bool embed;
#define HND(h) (embed ? &recs[h].node : &nodes[h])
#define IN_NODE(i) (embed && (i) >= NODE_OFF && (i) < NODE_OFF + sizeof(struct aws_priority_queue_node))

static int cmp(const void *a, const void *b) {
    uint8_t x = *(const uint8_t *)a, y = *(const uint8_t *)b;
    return x < y ? -1 : (x > y ? 1 : 0);
}
/* the same order through comparators of the other shapes users write: "a > b" (0 / 1, what the library's own task
 * scheduler passes) and a scaled difference (any negative / zero / positive value) */
static int cmp_bool(const void *a, const void *b) {
    return *(const uint8_t *)a > *(const uint8_t *)b;
}
static int cmp_diff(const void *a, const void *b) {
    return ((int)*(const uint8_t *)a - (int)*(const uint8_t *)b) * 1000;
}
/* element layout: [0]=value, [1]=id (isz==2) or [1..2]=id (isz>=3), rest = pattern derived from id */
static void fill(uint8_t *e, int v, int id) {
    e[0] = (uint8_t)v;
    if (isz == 2) {
        e[1] = (uint8_t)id;
    } else if (isz >= 3) {
        e[1] = (uint8_t)(id & 0xff);
        e[2] = (uint8_t)(id >> 8);
        for (size_t i = 3; i < isz; ++i) {
            if (!IN_NODE(i)) {
                e[i] = (uint8_t)(id * 7 + i * 13);
            }
        }
    }
}
static int id_of(const uint8_t *e) {
    if (isz == 1) {
        return -1;
    }
    if (isz == 2) {
        return e[1];
    }
    return e[1] | (e[2] << 8);
}
static int pat_ok(const uint8_t *e) {
    if (isz < 3) {
        return 1;
    }
    int id = id_of(e);
    for (size_t i = 3; i < isz; ++i) {
        if (!IN_NODE(i) && e[i] != (uint8_t)(id * 7 + i * 13)) {
            return 0;
        }
    }
    return 1;
}
static int all_pat = 1;
static void state(void) {
    long long inq[NH], idx[NH];
    for (int h = 1; h <= NH; ++h) {
        inq[h - 1] = aws_priority_queue_node_is_in_queue(HND(h)) ? 1 : 0;
        idx[h - 1] = HND(h)->current_index == SIZE_MAX ? -1 : (long long)HND(h)->current_index;
    }
    size_t n = aws_priority_queue_size(&pq);
    int pat = all_pat;
    for (size_t i = 0; i < n; ++i) {
        void *p = NULL;
        if (aws_array_list_get_at_ptr(&pq.container, &p, i) || !pat_ok(p)) {
            pat = 0;
        }
    }
    vh_obj_begin("s");
    vh_int("size", (long long)n);
    vh_ints("inq", inq, NH);
    vh_ints("idx", idx, NH);
    vh_int("pat", pat);
    vh_obj_end();
    all_pat = 1;
}
static void teardown(void) {
    if (live) {
        aws_priority_queue_clean_up(&pq);
        if (static_heap) {
            free(static_heap);
            static_heap = NULL;
        }
        live = false;
    }
}
static void out_elem(int rc, const uint8_t *e) {
    vh_rc(rc);
    if (rc == 0) {
        vh_int("v", e[0]);
        vh_int("id", id_of(e));
        if (!pat_ok(e)) {
            all_pat = 0;
        }
    } else {
        vh_int("v", 0);
        vh_int("id", 0);
    }
}

int main(int argc, char **argv) {
    if (argc < 3) {
        return 3;
    }
    FILE *in = fopen(argv[1], "r");
    vh_open(argv[2]);
    vh_install_handlers(120);
    uint8_t *e = malloc(1024);
    while (vh_next(in)) {
        if (vh_is("RESET")) {
            teardown();
            is_static = strcmp(vh_args(1), "static") == 0;
            size_t cap = (size_t)vh_argi(2);
            isz = (size_t)vh_argi(3);
            free(e);
            e = malloc(isz); /* exact-size scratch element: ASan sees any over-read/over-write */
            embed = vh_ntok > 5 && !strcmp(vh_args(5), "embed");
            if (embed) {
                isz = sizeof(struct rec);
                free(e);
                e = malloc(isz);
                memset(e, 0, isz);
            }
            memset(recs, 0, sizeof(recs));
            for (int h = 0; h <= NH; ++h) {
                aws_priority_queue_node_init(&nodes[h]);
                aws_priority_queue_node_init(&recs[h].node); /* the copy of the handle inside a stored element says "not in a queue" */
            }
            const char *ck = vh_ntok > 4 ? vh_args(4) : "3way";
            aws_priority_queue_compare_fn *cf = !strcmp(ck, "bool") ? cmp_bool : (!strcmp(ck, "diff") ? cmp_diff : cmp);
            if (is_static) {
                static_heap = malloc(cap * isz ? cap * isz : 1);
                aws_priority_queue_init_static(&pq, static_heap, cap, isz, cf);
            } else {
                aws_priority_queue_init_dynamic(&pq, vh_alloc(), cap, isz, cf);
            }
            live = true;
            vh_begin("Reset");
            vh_str("mode", is_static ? "static" : "dyn");
            vh_int("cap", is_static ? (long long)cap : 0);
            vh_int("isz", (long long)isz);
            vh_end();
        } else if (vh_is("PUSH")) {
            int v = (int)vh_argi(1), id = (int)vh_argi(2), h = (int)vh_argi(3);
            uint8_t *src = embed && h ? (uint8_t *)&recs[h] : e;
            fill(src, v, id);
            int rc = h ? aws_priority_queue_push_ref(&pq, src, HND(h)) : aws_priority_queue_push(&pq, src);
            vh_begin("Push");
            vh_int("v", v);
            vh_int("id", isz == 1 ? -1 : (isz == 2 ? (id & 0xff) : id));
            vh_int("h", h);
            vh_rc(rc);
            state();
            vh_end();
        } else if (vh_is("POP")) {
            memset(e, 0xEE, isz);
            int rc = aws_priority_queue_pop(&pq, e);
            vh_begin("Pop");
            out_elem(rc, e);
            state();
            vh_end();
        } else if (vh_is("TOP")) {
            void *p = NULL;
            int rc = aws_priority_queue_top(&pq, &p);
            vh_begin("Top");
            out_elem(rc, p);
            state();
            vh_end();
        } else if (vh_is("REMOVE")) {
            int h = (int)vh_argi(1);
            uint8_t *dst = embed ? (uint8_t *)&recs[h] : e;
            if (!embed) {
                memset(e, 0xEE, isz);
            }
            int rc = aws_priority_queue_remove(&pq, dst, HND(h));
            vh_begin("Remove");
            vh_int("h", h);
            out_elem(rc, dst);
            state();
            vh_end();
        } else if (vh_is("CLEAR")) {
            aws_priority_queue_clear(&pq);
            vh_begin("Clear");
            state();
            vh_end();
        }
    }
    teardown();
    free(e);
    vh_begin("End");
    vh_int("live", (long long)vh_live_blocks);
    vh_end();
    fclose(vh_out);
    return 0;
}
