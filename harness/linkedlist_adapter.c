/* C09 adapter (linked list half): two aws_linked_list objects over a pool of nodes; after every call reports the
 * forward and the backward walk of both lists as node ids and the next/prev == NULL flags of every node.
 * Operations whose documented precondition does not hold at that moment are skipped (no event): the library is
 * built without its precondition macros, a violated precondition is the driver's fault, not an observation. */
#include "vh_core.h"

#include <aws/common/linked_list.h>

#define NN 6
static struct aws_linked_list lists[3];                 /* 1, 2 */
static struct aws_linked_list_node *nodes[NN + 1];      /* each node its own exact-size heap block */

static int node_id(const struct aws_linked_list_node *p) {
    for (int i = 1; i <= NN; ++i) {
        if (p == nodes[i]) {
            return i;
        }
    }
    return -1; /* a sentinel of some list, or garbage */
}
/* which list a node is threaded into (follow next until a tail sentinel), 0 if none within NN+1 steps */
static int list_of(const struct aws_linked_list_node *p) {
    for (int steps = 0; p && steps <= NN + 1; ++steps, p = p->next) {
        for (int k = 1; k <= 2; ++k) {
            if (p == aws_linked_list_end(&lists[k])) {
                return k;
            }
        }
        if (node_id(p) < 0) {
            return 0;
        }
    }
    return 0;
}
static void walk(int k, int forward, long long *out, size_t *n, long long *ok) {
    const struct aws_linked_list_node *stop = forward ? aws_linked_list_end(&lists[k]) : aws_linked_list_rend(&lists[k]);
    const struct aws_linked_list_node *p = forward ? aws_linked_list_begin(&lists[k]) : aws_linked_list_rbegin(&lists[k]);
    *n = 0;
    *ok = 0;
    while (*n <= NN + 1) {
        if (p == stop) {
            *ok = 1;
            return;
        }
        if (!p) {
            return;
        }
        int id = node_id(p);
        out[(*n)++] = id;
        if (id < 0) {
            return; /* wandered into a foreign sentinel */
        }
        p = forward ? p->next : p->prev;
    }
}
static void arr_open(void) {
    vh_sep();
    fputc('[', vh_out);
    vh_first_field = 1;
}
static void state(void) {
    long long w[NN + 4], ok[2], emp[2];
    size_t n;
    vh_obj_begin("s");
    for (int dir = 1; dir >= 0; --dir) {
        vh_arr_begin(dir ? "fwd" : "bwd");
        for (int k = 1; k <= 2; ++k) {
            walk(k, dir, w, &n, &ok[k - 1]);
            arr_open();
            for (size_t i = 0; i < n; ++i) {
                vh_raw_int(w[i]);
            }
            vh_arr_end();
        }
        vh_arr_end();
        vh_ints(dir ? "fok" : "bok", ok, 2);
    }
    for (int k = 1; k <= 2; ++k) {
        emp[k - 1] = aws_linked_list_empty(&lists[k]) ? 1 : 0;
    }
    vh_ints("emp", emp, 2);
    long long nn[NN], pn[NN], inl[NN];
    for (int i = 1; i <= NN; ++i) {
        nn[i - 1] = nodes[i]->next == NULL;
        pn[i - 1] = nodes[i]->prev == NULL;
        inl[i - 1] = aws_linked_list_node_is_in_list(nodes[i]) ? 1 : 0;
    }
    vh_ints("nn", nn, NN);
    vh_ints("pn", pn, NN);
    vh_ints("inl", inl, NN);
    vh_obj_end();
}
static bool attached(int n) {
    return aws_linked_list_node_is_in_list(nodes[n]);
}

int main(int argc, char **argv) {
    if (argc < 3) {
        return 3;
    }
    FILE *in = fopen(argv[1], "r");
    vh_open(argv[2]);
    vh_install_handlers(120);
    bool live = false;
    while (vh_next(in)) {
        if (vh_is("RESET")) {
            for (int i = 1; i <= NN; ++i) {
                free(nodes[i]);
                nodes[i] = malloc(sizeof(struct aws_linked_list_node));
                aws_linked_list_node_reset(nodes[i]);
            }
            aws_linked_list_init(&lists[1]);
            aws_linked_list_init(&lists[2]);
            live = true;
            vh_begin("Reset");
            state();
            vh_end();
            continue;
        }
        if (vh_is("END") || !live) {
            continue;
        }
        if (vh_is("FIN")) {
            vh_begin("Fin");
            vh_end();
            live = false;
            continue;
        }
        if (vh_is("PUSHF") || vh_is("PUSHB")) {
            int k = (int)vh_argi(1), n = (int)vh_argi(2), front = vh_is("PUSHF");
            if (attached(n)) {
                continue;
            }
            if (front) {
                aws_linked_list_push_front(&lists[k], nodes[n]);
            } else {
                aws_linked_list_push_back(&lists[k], nodes[n]);
            }
            vh_begin(front ? "PushFront" : "PushBack");
            vh_int("k", k);
            vh_int("n", n);
        } else if (vh_is("POPF") || vh_is("POPB") || vh_is("FRONT") || vh_is("BACK")) {
            int k = (int)vh_argi(1);
            if (aws_linked_list_empty(&lists[k])) {
                continue;
            }
            struct aws_linked_list_node *r;
            const char *name;
            if (vh_is("POPF")) {
                r = aws_linked_list_pop_front(&lists[k]);
                name = "PopFront";
            } else if (vh_is("POPB")) {
                r = aws_linked_list_pop_back(&lists[k]);
                name = "PopBack";
            } else if (vh_is("FRONT")) {
                r = aws_linked_list_front(&lists[k]);
                name = "Front";
            } else {
                r = aws_linked_list_back(&lists[k]);
                name = "Back";
            }
            vh_begin(name);
            vh_int("k", k);
            vh_int("n", node_id(r));
        } else if (vh_is("INSB") || vh_is("INSA")) {
            int a = (int)vh_argi(1), n = (int)vh_argi(2), before = vh_is("INSB");
            if (!attached(a) || attached(n) || a == n) {
                continue;
            }
            if (before) {
                aws_linked_list_insert_before(nodes[a], nodes[n]);
            } else {
                aws_linked_list_insert_after(nodes[a], nodes[n]);
            }
            vh_begin(before ? "InsertBefore" : "InsertAfter");
            vh_int("a", a);
            vh_int("n", n);
        } else if (vh_is("REMOVE")) {
            int n = (int)vh_argi(1);
            if (!attached(n)) {
                continue;
            }
            aws_linked_list_remove(nodes[n]);
            vh_begin("Remove");
            vh_int("n", n);
        } else if (vh_is("SWAPN")) {
            int a = (int)vh_argi(1), b = (int)vh_argi(2);
            if (!attached(a) || !attached(b) || list_of(nodes[a]) == 0 || list_of(nodes[a]) != list_of(nodes[b])) {
                continue; /* "Swaps the order two nodes in the linked list": both in one list */
            }
            aws_linked_list_swap_nodes(nodes[a], nodes[b]);
            vh_begin("SwapNodes");
            vh_int("a", a);
            vh_int("b", b);
        } else if (vh_is("SWAPC")) {
            aws_linked_list_swap_contents(&lists[1], &lists[2]);
            vh_begin("SwapContents");
        } else if (vh_is("MOVEB") || vh_is("MOVEF")) {
            int k = (int)vh_argi(1), back = vh_is("MOVEB");
            if (back) {
                aws_linked_list_move_all_back(&lists[k], &lists[3 - k]);
            } else {
                aws_linked_list_move_all_front(&lists[k], &lists[3 - k]);
            }
            vh_begin(back ? "MoveAllBack" : "MoveAllFront");
            vh_int("k", k);
        } else {
            fprintf(stderr, "unknown op %s\n", vh_tok[0]);
            return 3;
        }
        state();
        vh_end();
    }
    vh_begin("End");
    vh_int("live", (long long)vh_live_blocks);
    vh_end();
    fclose(vh_out);
    return 0;
}
