/* C03 scenario: aws_small_block_allocator (single- and multi-threaded) under the controlled scheduler.
 * Scenario lines:
 *   SBA <mt 0|1>
 *   MAIN <op> ...        main thread, before the worker threads
 *   THREAD <k> <op> ...  k = 1..3 worker threads (only with mt = 1), each owns slots k*16 .. k*16+15
 *   POST <op> ...        main thread, after the workers were joined
 *   (then: everything still live is released, a final query, destroy)
 *  ops:  A<slot>:<n>      acquire n bytes          C<slot>:<k>x<n>  calloc(k, n)
 *        R<slot>:<n>      realloc to n bytes (n = 0 releases)       F<slot>   release
 *        Q                query bytes_active / bytes_reserved       P         schedule point
 *  SBA <mt> <parent>: parent 0 = an allocator with all four entry points, 1 = acquire/release only (the two mandatory ones),
 *  2 = no calloc entry, 3 = no realloc entry.  Sizes of a gigabyte and more are address space only (vh_core.h VH_HUGE): their
 *  first and last 4096 bytes are written and checked, and they are logged as 10^9.
 * Every block is filled with an id-derived pattern over its REQUESTED size; after every operation the calling
 * thread re-checks the patterns of all blocks that are not in the middle of another thread's operation. */
#include "vh_core.h"

#include "vsched/vsched_impl.h"

#include <aws/common/thread.h>

#define NSLOT 320
#define MAXOPS 900
struct blk {
    uint8_t *p;
    size_t n;
    int id;
    bool busy; /* inside a release / realloc call of its owner */
};
static struct blk slots[NSLOT];
static struct aws_allocator *sba;
static int next_id;
static bool concurrent_phase;
static uintptr_t pages[4096];
static int npages;

struct prog {
    int k, nops;
    char ops[MAXOPS][24];
    struct aws_thread thread;
};
static struct prog mainp, postp, thr[4];
static int nthr;

static uint8_t pat(int id, size_t i) {
    return (uint8_t)(id * 31 + i * 7 + 3);
}
/* the indices of a block that are written and checked: all of them, or the two edges of an address-space-only block */
#define FOR_SPAN(i, from, n)                                                                                           \
    for (size_t i = (from); i < (n); i = ((n) >= VH_HUGE && i + 1 == VH_EDGE) ? (n)-VH_EDGE : i + 1)
static long long lsz(size_t n) {
    return n > 1000000000u ? 1000000000ll : (long long)n;
}
static void fill(struct blk *b, size_t from) {
    FOR_SPAN(i, from, b->n) {
        b->p[i] = pat(b->id, i);
    }
}
static int count_bad(void) {
    int bad = 0;
    for (int s = 0; s < NSLOT; ++s) {
        struct blk *b = &slots[s];
        if (!b->p || b->busy) {
            continue;
        }
        FOR_SPAN(i, 0, b->n) {
            if (b->p[i] != pat(b->id, i)) {
                bad++;
                break;
            }
        }
    }
    return bad;
}
static int page_of(const void *p) {
    /* stored inverted: a table of plain page addresses would make every page look reachable to the leak checker */
    uintptr_t base = ~((uintptr_t)p & ~(uintptr_t)4095);
    for (int i = 0; i < npages; ++i) {
        if (pages[i] == base) {
            return i + 1;
        }
    }
    if (npages < 4096) {
        pages[npages++] = base;
    }
    return npages;
}
static void where(const void *p) {
    vh_int("page", page_of(p));
    vh_int("off", (long long)((uintptr_t)p & 4095));
    vh_int("al16", ((uintptr_t)p & 15) == 0);
}
static void tail(void) {
    vh_int("bad", count_bad());
    if (concurrent_phase) {
        vh_int("active", -1);
    } else {
        vh_int("active", (long long)aws_small_block_allocator_bytes_active(sba));
    }
}

static void do_ops(struct prog *pg) {
    for (int i = 0; i < pg->nops; ++i) {
        const char *op = pg->ops[i];
        int slot = 0;
        unsigned long a = 0, b = 0;
        if (op[0] == 'P') {
            vs_point();
            continue;
        }
        if (op[0] == 'Q') {
            if (concurrent_phase) {
                continue;
            }
            int nsmall = 0;
            for (int s = 0; s < NSLOT; ++s) {
                nsmall += slots[s].p != NULL;
            }
            vh_begin("Query");
            vh_int("active", (long long)aws_small_block_allocator_bytes_active(sba));
            vh_int("reserved_pages", (long long)(aws_small_block_allocator_bytes_reserved(sba) / 4096));
            vh_int("reserved_rem", (long long)(aws_small_block_allocator_bytes_reserved(sba) % 4096));
            vh_int("nlive", nsmall);
            vh_end();
            continue;
        }
        if (op[0] == 'C') {
            sscanf(op + 1, "%d:%lux%lu", &slot, &a, &b);
        } else {
            sscanf(op + 1, "%d:%lu", &slot, &a);
        }
        slot = pg->k == 0 ? slot % NSLOT : (slot % 16) + pg->k * 16; /* main may use every slot, workers own 16 each */
        struct blk *bl = &slots[slot];
        if ((op[0] == 'A' || op[0] == 'C') && !bl->p) {
            size_t n = op[0] == 'A' ? a : a * b;
            if (n == 0) {
                continue;
            }
            uint8_t *p = op[0] == 'A' ? aws_mem_acquire(sba, n) : aws_mem_calloc(sba, a, b);
            int zero = 1;
            if (op[0] == 'C') {
                FOR_SPAN(j, 0, n) {
                    zero &= p[j] == 0;
                }
            }
            bl->p = p;
            bl->n = n;
            bl->id = ++next_id;
            fill(bl, 0); /* the whole requested size is writable (ASan watches the page end / parent block end) */
            vh_begin("Acq");
            vh_int("id", bl->id);
            vh_int("n", lsz(n));
            vh_int("calloc", op[0] == 'C');
            vh_int("zero", zero);
            where(p);
            tail();
            vh_end();
        } else if (op[0] == 'F' && bl->p) {
            bl->busy = true;
            vh_begin("RelBegin");
            vh_int("id", bl->id);
            vh_end();
            aws_mem_release(sba, bl->p);
            bl->p = NULL;
            bl->busy = false;
            vh_begin("RelEnd");
            vh_int("id", bl->id);
            tail();
            vh_end();
        } else if (op[0] == 'R' && bl->p) {
            size_t nn = a;
            size_t old = bl->n;
            bl->busy = true;
            vh_begin("ReallocBegin");
            vh_int("id", bl->id);
            vh_int("nold", lsz(old));
            vh_int("nnew", lsz(nn));
            vh_end();
            void *p = bl->p;
            int rc = aws_mem_realloc(sba, &p, old, nn);
            int moved = p != (void *)bl->p;
            int prefix = 1;
            bl->p = p;
            if (p) {
                size_t keep = old < nn ? old : nn;
                FOR_SPAN(j, 0, keep) {
                    prefix &= bl->p[j] == pat(bl->id, j);
                }
                bl->n = nn;
                fill(bl, 0);
            }
            bl->busy = false;
            vh_begin("ReallocEnd");
            vh_int("id", bl->id);
            vh_int("rc", rc);
            vh_int("null", p == NULL);
            vh_int("moved", moved);
            vh_int("prefix", prefix);
            if (p) {
                where(p);
            } else {
                vh_int("page", 0);
                vh_int("off", 0);
                vh_int("al16", 1);
            }
            tail();
            vh_end();
        }
    }
}
static void thread_fn(void *arg) {
    do_ops(arg);
}
static void parse_ops(struct prog *pg, char **save) {
    for (char *o = strtok_r(NULL, " ", save); o && pg->nops < MAXOPS; o = strtok_r(NULL, " ", save)) {
        strncpy(pg->ops[pg->nops++], o, 23);
    }
}
#if defined(VS_TSAN) || defined(VH_NO_ASAN)
static int __lsan_do_recoverable_leak_check(void) {
    return 0;
}
#else
int __lsan_do_recoverable_leak_check(void);
#endif

static void scenario(char **lines, int nlines) {
    memset(slots, 0, sizeof(slots));
    vh_recycle = 1;
#ifndef VS_TSAN
    vs_page_recycle = 1;
    vh_take_page_block = vs_take_from_retired_page;
    vh_give_page_block = vs_give_back_to_retired;
#endif
    memset(&mainp, 0, sizeof(mainp));
    memset(&postp, 0, sizeof(postp));
    memset(thr, 0, sizeof(thr));
    nthr = 0;
    next_id = 0;
    npages = 0;
    int mt = 0, parent_kind = 0;
    for (int i = 0; i < nlines; ++i) {
        char *dup = strdup(lines[i]);
        char *save = NULL;
        char *tok = strtok_r(dup, " ", &save);
        if (!tok) {
        } else if (strcmp(tok, "SBA") == 0) {
            mt = atoi(strtok_r(NULL, " ", &save));
            char *pk = strtok_r(NULL, " ", &save);
            parent_kind = pk ? atoi(pk) : 0;
        } else if (strcmp(tok, "MAIN") == 0) {
            parse_ops(&mainp, &save);
        } else if (strcmp(tok, "POST") == 0) {
            parse_ops(&postp, &save);
        } else if (strcmp(tok, "THREAD") == 0) {
            struct prog *p = &thr[nthr++];
            p->k = atoi(strtok_r(NULL, " ", &save));
            parse_ops(p, &save);
        }
        free(dup);
    }
    /* the optional entry points of the parent (aws_allocator_is_valid asks for acquire and release only) */
    static struct aws_allocator parent;
    parent = *vh_alloc();
    if (parent_kind == 1 || parent_kind == 2) {
        parent.mem_calloc = NULL;
    }
    if (parent_kind == 1 || parent_kind == 3) {
        parent.mem_realloc = NULL;
    }
    sba = aws_small_block_allocator_new(&parent, mt != 0);
    vh_begin("Setup");
    vh_int("mt", mt);
    vh_end();
    concurrent_phase = false;
    do_ops(&mainp);
    if (mt && nthr) {
        concurrent_phase = true;
        for (int i = 0; i < nthr; ++i) {
            aws_thread_init(&thr[i].thread, aws_default_allocator());
            aws_thread_launch(&thr[i].thread, thread_fn, &thr[i], NULL);
        }
        for (int i = 0; i < nthr; ++i) {
            aws_thread_join(&thr[i].thread);
            aws_thread_clean_up(&thr[i].thread);
        }
        concurrent_phase = false;
    }
    do_ops(&postp);
    /* release everything still live, then the quiescent observations */
    for (int s = 0; s < NSLOT; ++s) {
        if (slots[s].p) {
            vh_begin("RelBegin");
            vh_int("id", slots[s].id);
            vh_end();
            aws_mem_release(sba, slots[s].p);
            slots[s].p = NULL;
            vh_begin("RelEnd");
            vh_int("id", slots[s].id);
            tail();
            vh_end();
        }
    }
    vh_begin("Query");
    vh_int("active", (long long)aws_small_block_allocator_bytes_active(sba));
    vh_int("reserved_pages", (long long)(aws_small_block_allocator_bytes_reserved(sba) / 4096));
    vh_int("reserved_rem", (long long)(aws_small_block_allocator_bytes_reserved(sba) % 4096));
    vh_int("nlive", 0);
    vh_end();
    aws_small_block_allocator_destroy(sba);
    sba = NULL;
    vh_begin("Destroyed");
    vh_int("parent_live", (long long)vh_live_blocks);
    vh_int("leaks", __lsan_do_recoverable_leak_check());
    vh_end();
}

int main(int argc, char **argv) {
    return vs_main(argc, argv, scenario);
}
