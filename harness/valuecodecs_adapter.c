/* X08 adapter: small value codecs (uuid.h, host_utils.h, byte_order.h, the big-endian read/write primitives of encoding.h,
 * zero.h) driven by a script. Dumb: applies the call and projects what came back (return code, error name, output bytes,
 * every byte of every block the call could have touched). No expected values, no comparisons: the specification
 * (spec/ValueCodecs) computes them. Every piece of memory handed to the library is an exact-size malloc block, so a
 * one-byte overrun in either direction is an ASan report. */
#include "vh_core.h"

#include <aws/common/byte_buf.h>
#include <aws/common/byte_order.h>
#include <aws/common/encoding.h>
#include <aws/common/host_utils.h>
#include <aws/common/uuid.h>
#include <aws/common/zero.h>

#define NU 3
#define MAXB 4096

static struct aws_uuid *uslot[NU + 1]; /* each an exact 16-byte block */

/* output buffer of aws_uuid_to_str: the caller's memory, exact size */
static struct aws_byte_buf obuf;
static uint8_t *obuf_mem;
static const uint8_t *obuf_ptr0; /* buffer pointer right after initialisation (NULL for capacity 0) */
static int obuf_on;

/* scratch memory for aws_write_uN / aws_read_uN / aws_secure_zero / aws_is_mem_zeroed */
static uint8_t *mem;
static size_t mem_n;

/* ---- operands: hex bytes; "-" = no bytes */
static uint8_t scratch[MAXB];
static size_t parse_hex(const char *t) {
    size_t n = 0;
    if (t[0] == '-') {
        return 0;
    }
    while (t[0] && t[1] && n < MAXB) {
        unsigned v = 0;
        sscanf(t, "%2x", &v);
        scratch[n++] = (uint8_t)v;
        t += 2;
    }
    return n;
}
/* exact-size copy (malloc(0) gives a block no byte of which may be touched) */
static uint8_t *exact(const uint8_t *p, size_t n) {
    uint8_t *q = malloc(n);
    if (n) {
        memcpy(q, p, n);
    }
    return q;
}

static void state(void) {
    vh_obj_begin("s");
    vh_arr_begin("u");
    for (int i = 1; i <= NU; ++i) {
        vh_sep();
        fputc('[', vh_out);
        for (int k = 0; k < 16; ++k) {
            fprintf(vh_out, k ? ",%u" : "%u", (unsigned)uslot[i]->uuid_data[k]);
        }
        fputc(']', vh_out);
    }
    vh_arr_end();
    vh_int("bon", obuf_on);
    vh_int("bcap", obuf_on ? (long long)obuf.capacity : 0);
    vh_int("blen", obuf_on ? (long long)obuf.len : 0);
    size_t shown = obuf_on && obuf.len <= obuf.capacity ? obuf.len : 0;
    vh_bytes("bdata", obuf_mem, shown);
    vh_bytes("btail", obuf_on ? obuf_mem + shown : NULL, obuf_on ? obuf.capacity - shown : 0);
    vh_int("bptr", obuf_on ? obuf.buffer == obuf_ptr0 : 1);
    vh_bytes("mem", mem, mem_n);
    vh_obj_end();
}

static void teardown(void) {
    for (int i = 1; i <= NU; ++i) {
        free(uslot[i]);
        uslot[i] = calloc(1, sizeof(struct aws_uuid));
    }
    free(obuf_mem);
    obuf_mem = NULL;
    obuf_on = 0;
    AWS_ZERO_STRUCT(obuf);
    free(mem);
    mem = NULL;
    mem_n = 0;
}

static int uslot_arg(int i) {
    long long a = vh_argi(i);
    if (a < 1 || a > NU) {
        fprintf(stderr, "script: %s: no uuid slot %lld\n", vh_tok[0], a);
        exit(3);
    }
    return (int)a;
}
static size_t range_arg(int ioff, size_t width) {
    long long off = vh_argi(ioff);
    if (off < 0 || (size_t)off + width > mem_n) {
        fprintf(stderr, "script: %s: [%lld, +%zu) is outside the %zu-byte block\n", vh_tok[0], off, width, mem_n);
        exit(3);
    }
    return (size_t)off;
}
static void begin_mem(const char *ev, int n, size_t off) {
    vh_begin(ev);
    vh_int("n", n);
    vh_int("off", (long long)off);
}

int main(int argc, char **argv) {
    if (argc < 3) {
        return 3;
    }
    FILE *in = fopen(argv[1], "r");
    vh_open(argv[2]);
    vh_install_handlers(120);
    teardown();

    while (vh_next(in)) {
        if (vh_is("RESET")) {
            teardown();
            /* how this machine lays out 0x01020304 in memory (the platform fact aws_is_big_endian reports) */
            uint32_t probe = 0x01020304u;
            uint8_t pm[4];
            memcpy(pm, &probe, 4);
            vh_begin("Reset");
            vh_bytes("probe", pm, 4);
            state();
            vh_end();
        } else if (vh_is("USET")) { /* the caller fills in the 16 bytes itself */
            int d = uslot_arg(1);
            size_t n = parse_hex(vh_args(2));
            if (n != 16) {
                fprintf(stderr, "script: USET needs 16 bytes\n");
                exit(3);
            }
            memcpy(uslot[d]->uuid_data, scratch, 16);
            vh_begin("USet");
            vh_int("d", d);
            vh_bytes("b", scratch, 16);
            state();
            vh_end();
        } else if (vh_is("UINIT")) {
            int d = uslot_arg(1);
            uint8_t pre[16];
            memset(uslot[d]->uuid_data, (int)vh_argi(2), 16);
            memcpy(pre, uslot[d]->uuid_data, 16);
            int rc = aws_uuid_init(uslot[d]);
            vh_begin("UInit");
            vh_int("d", d);
            vh_bytes("pre", pre, 16);
            vh_rc(rc);
            state();
            vh_end();
        } else if (vh_is("UFROM") || vh_is("UFROMBUF")) {
            /* UFROM d hex: the text is given; UFROMBUF d back n: the text is the n bytes that end `back` bytes before the
             * end of the valid part of the output buffer (what aws_uuid_to_str wrote there), copied to its own block */
            int d = uslot_arg(1);
            size_t n;
            if (vh_is("UFROM")) {
                n = parse_hex(vh_args(2));
            } else {
                size_t back = (size_t)vh_argi(2);
                n = (size_t)vh_argi(3);
                if (!obuf_on || obuf.len > obuf.capacity || back + n > obuf.len || n > MAXB) {
                    /* the script was written against what the calls before it are documented to do; if the buffer is
                     * not as long as that, the line is reported, not executed (the specification has no such event) */
                    vh_begin("Unusable");
                    vh_str("op", vh_tok[0]);
                    vh_end();
                    continue;
                }
                memcpy(scratch, obuf_mem + obuf.len - back - n, n);
            }
            uint8_t *t = exact(scratch, n);
            struct aws_byte_cursor cur = aws_byte_cursor_from_array(t, n);
            int rc = aws_uuid_init_from_str(uslot[d], &cur);
            vh_begin("UFromStr");
            vh_int("d", d);
            vh_bytes("t", t, n);
            vh_rc(rc);
            vh_int("clen", (long long)cur.len); /* the cursor is const: still the caller's */
            vh_int("cptr", cur.ptr == t);
            state();
            vh_end();
            free(t);
        } else if (vh_is("UTOSTR")) {
            int a = uslot_arg(1);
            if (!obuf_on) {
                fprintf(stderr, "script: UTOSTR without BUFINIT\n");
                exit(3);
            }
            int rc = aws_uuid_to_str(uslot[a], &obuf);
            vh_begin("UToStr");
            vh_int("a", a);
            vh_rc(rc);
            state();
            vh_end();
        } else if (vh_is("UEQ")) {
            int a = uslot_arg(1);
            int c = uslot_arg(2);
            bool r = aws_uuid_equals(uslot[a], uslot[c]);
            vh_begin("UEquals");
            vh_int("a", a);
            vh_int("c", c);
            vh_int("r", r);
            state();
            vh_end();
        } else if (vh_is("UZERO")) {
            int d = uslot_arg(1);
            AWS_ZERO_STRUCT(*uslot[d]);
            vh_begin("UZero");
            vh_int("d", d);
            state();
            vh_end();
        } else if (vh_is("UISZ")) {
            int a = uslot_arg(1);
            bool r = AWS_IS_ZEROED(*uslot[a]);
            vh_begin("UIsZeroed");
            vh_int("a", a);
            vh_int("r", r);
            state();
            vh_end();
        } else if (vh_is("BUFINIT")) { /* BUFINIT cap data: len = |data|, the rest of the capacity holds 0xEE */
            size_t cap = (size_t)vh_argi(1);
            size_t n = parse_hex(vh_args(2));
            if (n > cap) {
                fprintf(stderr, "script: BUFINIT data longer than capacity\n");
                exit(3);
            }
            free(obuf_mem);
            obuf_mem = malloc(cap);
            memset(obuf_mem, 0xEE, cap);
            if (n) {
                memcpy(obuf_mem, scratch, n);
            }
            obuf = aws_byte_buf_from_empty_array(obuf_mem, cap);
            obuf.len = n;
            obuf_ptr0 = obuf.buffer;
            obuf_on = 1;
            vh_begin("BufInit");
            vh_int("cap", (long long)cap);
            vh_bytes("b", scratch, n);
            state();
            vh_end();
        } else if (vh_is("MEMINIT")) {
            size_t n = parse_hex(vh_args(1));
            free(mem);
            mem = exact(scratch, n);
            mem_n = n;
            vh_begin("MemInit");
            vh_bytes("b", scratch, n);
            state();
            vh_end();
        } else if (vh_is("W64") || vh_is("W32") || vh_is("W24") || vh_is("W16")) {
            int n = vh_is("W64") ? 8 : vh_is("W32") ? 4 : vh_is("W24") ? 3 : 2;
            size_t off = range_arg(1, (size_t)n);
            uint64_t v = vh_argu(2);
            if (n == 8) {
                aws_write_u64(v, mem + off);
            } else if (n == 4) {
                v = (uint32_t)v;
                aws_write_u32((uint32_t)v, mem + off);
            } else if (n == 3) {
                v = (uint32_t)v;
                aws_write_u24((uint32_t)v, mem + off);
            } else {
                v = (uint16_t)v;
                aws_write_u16((uint16_t)v, mem + off);
            }
            begin_mem("Write", n, off);
            vh_wide("w", v);
            state();
            vh_end();
        } else if (vh_is("R64") || vh_is("R32") || vh_is("R24") || vh_is("R16")) {
            int n = vh_is("R64") ? 8 : vh_is("R32") ? 4 : vh_is("R24") ? 3 : 2;
            size_t off = range_arg(1, (size_t)n);
            uint64_t v = n == 8   ? aws_read_u64(mem + off)
                         : n == 4 ? aws_read_u32(mem + off)
                         : n == 3 ? aws_read_u24(mem + off)
                                  : aws_read_u16(mem + off);
            begin_mem("Read", n, off);
            vh_wide("w", v);
            state();
            vh_end();
        } else if (vh_is("SZERO")) {
            size_t n = (size_t)vh_argi(2);
            size_t off = range_arg(1, n);
            aws_secure_zero(mem + off, n);
            begin_mem("SecureZero", (int)n, off);
            state();
            vh_end();
        } else if (vh_is("ISZ")) {
            size_t n = (size_t)vh_argi(2);
            size_t off = range_arg(1, n);
            /* its own exact-size block: the function reads 8 bytes at a time */
            uint8_t *blk = exact(mem + off, n);
            bool r = aws_is_mem_zeroed(blk, n);
            free(blk);
            begin_mem("IsZeroed", (int)n, off);
            vh_int("r", r);
            state();
            vh_end();
        } else if (vh_is("H64") || vh_is("H32") || vh_is("H16")) { /* host -> network: value in, memory image out */
            int n = vh_is("H64") ? 8 : vh_is("H32") ? 4 : 2;
            uint64_t v = vh_argu(1);
            uint8_t m[8];
            if (n == 8) {
                uint64_t r = aws_hton64(v);
                memcpy(m, &r, 8);
            } else if (n == 4) {
                v = (uint32_t)v;
                uint32_t r = aws_hton32((uint32_t)v);
                memcpy(m, &r, 4);
            } else {
                v = (uint16_t)v;
                uint16_t r = aws_hton16((uint16_t)v);
                memcpy(m, &r, 2);
            }
            vh_begin("Hton");
            vh_int("n", n);
            vh_wide("w", v);
            vh_bytes("m", m, (size_t)n);
            state();
            vh_end();
        } else if (vh_is("N64") || vh_is("N32") || vh_is("N16")) { /* network -> host: memory image in, value out */
            int n = vh_is("N64") ? 8 : vh_is("N32") ? 4 : 2;
            if (parse_hex(vh_args(1)) != (size_t)n) {
                fprintf(stderr, "script: %s needs %d bytes\n", vh_tok[0], n);
                exit(3);
            }
            uint64_t v;
            if (n == 8) {
                uint64_t x;
                memcpy(&x, scratch, 8);
                v = aws_ntoh64(x);
            } else if (n == 4) {
                uint32_t x;
                memcpy(&x, scratch, 4);
                v = aws_ntoh32(x);
            } else {
                uint16_t x;
                memcpy(&x, scratch, 2);
                v = aws_ntoh16(x);
            }
            vh_begin("Ntoh");
            vh_int("n", n);
            vh_bytes("m", scratch, (size_t)n);
            vh_wide("w", v);
            state();
            vh_end();
        } else if (vh_is("HF32") || vh_is("HF64") || vh_is("NF32") || vh_is("NF64")) { /* memory image in, memory image out */
            int n = (vh_is("HF32") || vh_is("NF32")) ? 4 : 8;
            int hton = vh_tok[0][0] == 'H';
            if (parse_hex(vh_args(1)) != (size_t)n) {
                fprintf(stderr, "script: %s needs %d bytes\n", vh_tok[0], n);
                exit(3);
            }
            uint8_t m[8];
            if (n == 4) {
                float x, r;
                memcpy(&x, scratch, 4);
                r = hton ? aws_htonf32(x) : aws_ntohf32(x);
                memcpy(m, &r, 4);
            } else {
                double x, r;
                memcpy(&x, scratch, 8);
                r = hton ? aws_htonf64(x) : aws_ntohf64(x);
                memcpy(m, &r, 8);
            }
            vh_begin(hton ? "HtonF" : "NtohF");
            vh_int("n", n);
            vh_bytes("m", scratch, (size_t)n);
            vh_bytes("r", m, (size_t)n);
            state();
            vh_end();
        } else if (vh_is("BIGEND")) {
            int r = aws_is_big_endian();
            vh_begin("IsBigEndian");
            vh_int("r", r);
            state();
            vh_end();
        } else if (vh_is("IP4")) {
            size_t n = parse_hex(vh_args(1));
            uint8_t *t = exact(scratch, n);
            bool r = aws_host_utils_is_ipv4(aws_byte_cursor_from_array(t, n));
            vh_begin("IsIpv4");
            vh_bytes("t", t, n);
            vh_int("r", r);
            state();
            vh_end();
            free(t);
        } else if (vh_is("IP6")) {
            int enc = (int)vh_argi(1);
            size_t n = parse_hex(vh_args(2));
            uint8_t *t = exact(scratch, n);
            bool r = aws_host_utils_is_ipv6(aws_byte_cursor_from_array(t, n), enc != 0);
            vh_begin("IsIpv6");
            vh_bytes("t", t, n);
            vh_int("enc", enc != 0);
            vh_int("r", r);
            state();
            vh_end();
            free(t);
        } else if (vh_is("END")) {
            break;
        } else {
            fprintf(stderr, "unknown op %s\n", vh_tok[0]);
            return 3;
        }
    }
    for (int i = 1; i <= NU; ++i) {
        free(uslot[i]);
    }
    free(obuf_mem);
    free(mem);
    vh_begin("End");
    vh_int("live", (long long)vh_live_blocks);
    vh_end();
    fclose(vh_out);
    return 0;
}
