/* C15 scenario with two real threads under the controlled scheduler: an acquirer thread and a releaser thread, the
 * documented usage of aws_ring_buffer.  The acquirer fills every buffer it is granted through the byte_buf write API
 * (so that buf.len is what a real owner leaves there and the write is done by library code), hands it to the releaser
 * through a mutex-protected queue; the releaser checks that the content is still what the owner wrote and releases.
 * Scenario lines:
 *   RING <n>
 *   ACQ <exact|upto> <min> <n>      (any number, executed in order by the acquirer; a refused request is not retried)
 * Events (same shapes as harness/ringbuffer_adapter.c, validated by RingBufferTrace.tla):
 *   Ring(n) -> logged as the execution's Reset by the runner + "RingInit"; Release(off,cap); Acquire(...,k,...);
 *   Integrity(bad) at the end: number of buffers whose content was disturbed while they were handed out.
 * k of an Acquire = releases not yet accounted for by an earlier event that were in progress when the call began or
 * started during it: each of them may or may not have published its tail during the call (conservative).
 * busy = a release that an earlier Acquire event already accounted for had still not returned when this call began. */
#include "vh_core.h"

#include "vsched/vsched_impl.h"

#include <aws/common/byte_buf.h>
#include <aws/common/condition_variable.h>
#include <aws/common/mutex.h>
#include <aws/common/ring_buffer.h>
#include <aws/common/thread.h>

#define MAXREQ 64
struct req {
    bool upto;
    size_t mn, n;
};
static struct req reqs[MAXREQ];
static int nreq;
static struct aws_ring_buffer ring;

static struct aws_mutex mu;
static struct aws_condition_variable cv;
/* guarded by mu */
static struct aws_byte_buf q[MAXREQ];
static uint8_t qseed[MAXREQ];
static size_t q_pushed, rel_started, rel_done;
static bool acq_finished;
static int bad[MAXREQ];

static uint8_t pattern[1 << 13];

static bool have_work(void *ud) {
    (void)ud;
    return rel_started < q_pushed || acq_finished;
}

static void releaser_fn(void *arg) {
    (void)arg;
    for (;;) {
        aws_mutex_lock(&mu);
        aws_condition_variable_wait_pred(&cv, &mu, have_work, NULL);
        if (rel_started == q_pushed) {
            aws_mutex_unlock(&mu);
            return;
        }
        size_t i = rel_started++;
        struct aws_byte_buf b = q[i];
        uint8_t seed = qseed[i];
        aws_mutex_unlock(&mu);
        int wrong = b.len != b.capacity;
        for (size_t j = 0; j < b.capacity && !wrong; ++j) {
            wrong = b.buffer[j] != (uint8_t)(seed + j * 7);
        }
        aws_ring_buffer_release(&ring, &b);
        aws_mutex_lock(&mu);
        bad[i] = wrong;
        rel_done++;
        aws_mutex_unlock(&mu);
    }
}

static size_t logged_rel;
static long long offs[MAXREQ], caps[MAXREQ];

static void log_releases_upto(size_t n) {
    for (; logged_rel < n; ++logged_rel) {
        vh_begin("Release");
        vh_int("off", offs[logged_rel]);
        vh_int("cap", caps[logged_rel]);
        vh_int("valid", aws_ring_buffer_is_valid(&ring));
        vh_end();
    }
}

static void scenario(char **lines, int nlines) {
    nreq = 0;
    size_t n = 0;
    for (int i = 0; i < nlines; ++i) {
        char form[16];
        size_t a = 0, b = 0;
        if (sscanf(lines[i], "RING %zu", &a) == 1) {
            n = a;
        } else if (sscanf(lines[i], "ACQ %15s %zu %zu", form, &a, &b) == 3 && nreq < MAXREQ) {
            reqs[nreq].upto = strcmp(form, "upto") == 0;
            reqs[nreq].mn = a;
            reqs[nreq].n = b;
            nreq++;
        }
    }
    if (!n) {
        return;
    }
    q_pushed = rel_started = rel_done = logged_rel = 0;
    acq_finished = false;
    memset(bad, 0, sizeof(bad));
    aws_mutex_init(&mu);
    aws_condition_variable_init(&cv);
    aws_ring_buffer_init(&ring, vh_alloc(), n);
    vh_begin("RingInit");
    vh_int("n", (long long)n);
    vh_end();
    struct aws_thread rel;
    aws_thread_init(&rel, vh_alloc());
    aws_thread_launch(&rel, releaser_fn, NULL, NULL);
    for (int r = 0; r < nreq; ++r) {
        aws_mutex_lock(&mu);
        size_t d0 = rel_done;
        aws_mutex_unlock(&mu);
        log_releases_upto(d0);
        size_t base = logged_rel; /* >= d0: releases an earlier Acquire event already accounted for may still be running */
        struct aws_byte_buf dest;
        AWS_ZERO_STRUCT(dest);
        int rc = reqs[r].upto ? aws_ring_buffer_acquire_up_to(&ring, reqs[r].mn, reqs[r].n, &dest)
                              : aws_ring_buffer_acquire(&ring, reqs[r].n, &dest);
        aws_mutex_lock(&mu);
        size_t s1 = rel_started;
        aws_mutex_unlock(&mu);
        vh_begin("Acquire");
        vh_str("form", reqs[r].upto ? "upto" : "exact");
        vh_int("min", (long long)reqs[r].mn);
        vh_int("n", (long long)reqs[r].n);
        vh_int("k", (long long)(s1 - base));
        vh_int("busy", base > d0);
        vh_rc(rc);
        vh_int("off", rc == 0 ? (long long)(dest.buffer - ring.allocation) : 0);
        vh_int("cap", rc == 0 ? (long long)dest.capacity : 0);
        vh_int("len", rc == 0 ? (long long)dest.len : 0);
        vh_int("rem", 0); /* sizes are bytes here (no scaled rings) */
        vh_int("valid", aws_ring_buffer_is_valid(&ring));
        vh_end();
        logged_rel = s1; /* the Acquire event consumed them */
        if (rc == 0) {
            uint8_t seed = (uint8_t)(r * 37 + 1);
            for (size_t j = 0; j < dest.capacity && j < sizeof(pattern); ++j) {
                pattern[j] = (uint8_t)(seed + j * 7);
            }
            /* the owner writes its payload with the library's own writer: len == capacity afterwards */
            aws_byte_buf_write(&dest, pattern, dest.capacity < sizeof(pattern) ? dest.capacity : sizeof(pattern));
            aws_mutex_lock(&mu);
            offs[q_pushed] = (long long)(dest.buffer - ring.allocation);
            caps[q_pushed] = (long long)dest.capacity;
            qseed[q_pushed] = seed;
            q[q_pushed++] = dest;
            aws_condition_variable_notify_one(&cv);
            aws_mutex_unlock(&mu);
        }
    }
    aws_mutex_lock(&mu);
    acq_finished = true;
    aws_condition_variable_notify_one(&cv);
    aws_mutex_unlock(&mu);
    aws_thread_join(&rel);
    aws_thread_clean_up(&rel);
    log_releases_upto(rel_done);
    int nbad = 0;
    for (size_t i = 0; i < q_pushed; ++i) {
        nbad += bad[i];
    }
    vh_begin("Integrity");
    vh_int("bad", nbad);
    vh_int("released", (long long)rel_done);
    vh_int("granted", (long long)q_pushed);
    vh_end();
    aws_ring_buffer_clean_up(&ring);
    aws_condition_variable_clean_up(&cv);
    aws_mutex_clean_up(&mu);
}

int main(int argc, char **argv) {
    return vs_main(argc, argv, scenario);
}
